#!/bin/sh
# usage: tools/seedq.sh <wave-dir> "<ID>:<name>[:extra check id]" ...   -- evaluate seeded changes one after the other (output in .work/seed_<name>.out)
W="$1"; shift
cd /verif
for item in "$@"; do
  ID="${item%%:*}"; NAME="${item#*:}"
  tools/seeded_eval.sh "$W/$ID" "$NAME" "$ID" --tier quick > ".work/seed_$NAME.out" 2>&1
  git -C /repo worktree remove --force "$W/$ID" >/dev/null 2>&1
done
