#!/bin/sh
# usage: tools/seeded_eval.sh <agent-worktree> <name> <ID> [extra ./check args]
# Confirms a seeded change independently (own scratch worktree of /repo): tests still pass (152), demo passes on the original tree and
# fails on the changed one, then runs ./check <ID> against the changed tree. Stores patch/demo/meta under /verif/seeded/<name>/.
set -u
WT="$1"; NAME="$2"; ID="$3"; shift 3
OUT=/verif/seeded/$NAME; mkdir -p "$OUT"
cp "$WT/patch.diff" "$OUT/patch.diff"; cp "$WT"/demo_*.py "$OUT/" 2>/dev/null; cp "$WT/meta.json" "$OUT/agent_meta.json" 2>/dev/null
D="$(mktemp -d /var/tmp/seed-XXXXXX)"; rmdir "$D"
git -C /repo worktree add -q --detach "$D" HEAD || exit 2
trap 'git -C /repo worktree remove --force "$D" >/dev/null 2>&1; rm -rf "$D"' EXIT
DEMO="$(ls "$OUT"/demo_*.py | head -1)"
cp "$DEMO" "$D/"
( cd "$D" && PYTHONPATH="$D/src" /venv/bin/python "$(basename "$DEMO")" > "$OUT/demo_original.log" 2>&1 ); E0=$?
( cd "$D" && git apply "$OUT/patch.diff" ) || { echo "PATCH DOES NOT APPLY"; exit 2; }
( cd "$D" && PYTHONPATH="$D/src" /venv/bin/python "$(basename "$DEMO")" > "$OUT/demo_changed.log" 2>&1 ); E1=$?
( cd "$D" && PYTHONPATH="$D/src" /venv/bin/python -m pytest -q -p no:cacheprovider --timeout=1800 --continue-on-collection-errors -n 4 2>&1 | tail -3 > "$OUT/tests_changed.log" )
TESTS="$(tail -1 "$OUT/tests_changed.log")"
cd /verif
WALLGO_SRC="$D/src" VERIF_OUT="$D/out" ./check "$ID" "$@" > "$OUT/check_$ID.log" 2>&1; EC=$?
NV=$(grep -c '^VIOLATION' "$OUT/check_$ID.log")
echo "seed=$NAME demo_original_exit=$E0 demo_changed_exit=$E1 tests='$TESTS' check=$ID exit=$EC violations=$NV"
grep -m3 -A1 '^VIOLATION' "$OUT/check_$ID.log" | cut -c1-300
tail -1 "$OUT/check_$ID.log" | cut -c1-300
/venv/bin/python - "$OUT" "$NAME" "$ID" "$E0" "$E1" "$TESTS" "$EC" "$NV" "$*" <<'PY'
import json, sys, os
out, name, pid, e0, e1, tests, ec, nv, args = sys.argv[1:10]
am = {}
try: am = json.load(open(os.path.join(out, 'agent_meta.json')))
except Exception: pass
meta = {"property": pid, "name": name, "summary": am.get("summary"), "needs": am.get("needs"), "files": am.get("files"),
        "confirmed_by_me": {"demo_original_exit": int(e0), "demo_changed_exit": int(e1), "repo_tests_on_changed_tree": tests,
                            "command": f"tools/seeded_eval.sh <worktree> {name} {pid} {args}"},
        "check_result": {"check": pid, "args": args, "exit": int(ec), "violation_lines": int(nv)}}
json.dump(meta, open(os.path.join(out, 'meta.json'), 'w'), indent=1)
PY
