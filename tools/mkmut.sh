#!/bin/sh
# usage: tools/mkmut.sh <name> <file under src/WallGo> <sed expression>  -> writes mutants/<name>.diff (-p1, a/src/WallGo/..)
set -e
N="$1"; F="$2"; S="$3"
D="$(mktemp -d /var/tmp/wg-mk-XXXXXX)"; trap 'rm -rf "$D"' EXIT
mkdir -p "$D/a/src/WallGo/$(dirname "$F")" "$D/b/src/WallGo/$(dirname "$F")"
cp "/repo/src/WallGo/$F" "$D/a/src/WallGo/$F"; cp "/repo/src/WallGo/$F" "$D/b/src/WallGo/$F"
sed -i "$S" "$D/b/src/WallGo/$F"
(cd "$D" && diff -u "a/src/WallGo/$F" "b/src/WallGo/$F" > "/verif/mutants/$N.diff") || true
if [ ! -s "/verif/mutants/$N.diff" ]; then echo "EMPTY mutant $N"; rm -f "/verif/mutants/$N.diff"; exit 1; fi
grep -c '^[-+][^-+]' "/verif/mutants/$N.diff"
