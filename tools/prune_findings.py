#!/usr/bin/env python3
"""tools/prune_findings.py <ID> [--apply]: list (and with --apply drop) key prefixes of the known findings of <ID> that neither the last
quick nor the last thorough run reproduced (replays/<ID>/known_{quick,thorough}.txt, both must exist). Never run by a check."""
import json, sys, os
pid = sys.argv[1]; apply = '--apply' in sys.argv
seen = []
for tier in ('quick', 'thorough'):
    f = f'/verif/replays/{pid}/known_{tier}.txt'
    if not os.path.exists(f):
        sys.exit(f'missing {f}: run both tiers first')
    seen += [l.rstrip('\n').split('\t', 1)[1] for l in open(f)]
K = json.load(open('/verif/known_findings.json'))
for f in K['findings']:
    if f['property'] != pid:
        continue
    keep, drop = [], []
    for p in f.get('key_prefixes', []):
        (keep if any(k.startswith(p) for k in seen) else drop).append(p)
    print(f['id'], 'keep', len(keep), 'drop', len(drop))
    for p in drop:
        print('  drop', p)
    if apply:
        f['key_prefixes'] = keep
if apply:
    json.dump(K, open('/verif/known_findings.json', 'w'), indent=1)
