#!/bin/sh
# usage: tools/runall.sh <tier> [ids...] : run checks sequentially, one summary line each (log in .work/all_<tier>_<ID>.log)
cd /verif; TIER="$1"; shift
IDS="${*:-C01 C02 C03 C04 C05 C06 C07 C08 C09 C10 C11 C12 C13 C14 C15 C16 C17 C18 C19 C20}"
for id in $IDS; do
  ./check $id --tier $TIER > .work/all_${TIER}_$id.log 2>&1; ec=$?
  echo "exit=$ec $(tail -1 .work/all_${TIER}_$id.log | cut -c1-230)"
done
