#!/bin/sh
# usage: tools/benign_eval.sh <agent-worktree> <name> "<ID> <ID> ..." [tier]
# A behaviour-preserving refactor (rounding-level changes only) must NOT make any check fail: runs the listed checks against a
# scratch copy of /repo/src with the patch applied; stores patch + logs under /verif/benign/<name>/. Any non-zero exit = false alarm to analyse.
WT="$1"; NAME="$2"; IDS="$3"; TIER="${4:-quick}"
OUT=/verif/benign/$NAME; mkdir -p "$OUT"
cp "$WT/patch.diff" "$OUT/patch.diff"; cp "$WT/meta.json" "$OUT/agent_meta.json" 2>/dev/null; cp "$WT/equiv_check.py" "$OUT/" 2>/dev/null
D="$(mktemp -d /var/tmp/benign-XXXXXX)"
trap 'rm -rf "$D"' EXIT
mkdir -p "$D/src"; cp -r /repo/src/WallGo "$D/src/WallGo"
(cd "$D" && patch -p1 -s < "$OUT/patch.diff") || { echo "PATCH DOES NOT APPLY"; exit 2; }
cd /verif
RES=""
for id in $IDS; do
  WALLGO_SRC="$D/src" VERIF_OUT="$D/out" ./check "$id" --tier "$TIER" > "$OUT/check_$id.log" 2>&1; ec=$?
  sed -i "s#$D/#<scratch>/#g" "$OUT/check_$id.log"
  echo "benign=$NAME check=$id exit=$ec $(tail -1 "$OUT/check_$id.log" | cut -c1-200)"
  RES="$RES $id:$ec"
done
python3 - "$OUT" "$NAME" "$RES" "$TIER" <<'PY'
import json, sys, os
out, name, res, tier = sys.argv[1:5]
am = {}
try: am = json.load(open(os.path.join(out, 'agent_meta.json')))
except Exception: pass
json.dump({"name": name, "kind": "behaviour-preserving refactor (must stay silent)", "files": am.get("files"), "edits": am.get("edits"),
           "max_rel_diff_reported": am.get("max_rel_diff"), "tier": tier,
           "check_exits": dict(x.split(':') for x in res.split())}, open(os.path.join(out, 'meta.json'), 'w'), indent=1)
PY
