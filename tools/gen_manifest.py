#!/usr/bin/env python3
"""Regenerates /verif/MANIFEST.json from the table below (a property is claimed iff its
check module vmc/checks/<id>.py exists and it has an entry in CHECKS)."""
import json
import os

VERIF = os.path.dirname(os.path.dirname(os.path.abspath(__file__)))

# id -> (category, technique, text, note, design_ref)
CHECKS = {
    "C01": ("model_checking", "deviation-bounded exhaustive search of scripted pressure environments on the real solveWall (<=2 deviations per execution, each replayed twice), an iteration-map model of the real wallPressure loop, a lattice of real end-to-end solves probed with a fresh solver (incl. nucleation temperatures tuned at run time so that the root sits just below the top of the search window), and exhaustive call histories on a real manager (settings supplied as arrays, configuration must stay untouched) with bit-identity to a fresh manager",
            "Success with a finite velocity implies a sign change of the pressure within the configured tolerance, the window, and auxiliary data that carry the tag of the final evaluation; runaway implies negative pressure at the top and no velocity; failed final evaluations are labelled ERROR; deviations at earlier evaluations do not change the result; real solves: sign change at v -/+ 1.25 errTol with a fresh EOM, T+-/vJ/vLTE of the matching at v, wall parameters reproduced by one more evaluation; every operation history up to depth 2/3 leaves solveWall bit-identical.",
            "trusted: the scripted environment sets the solver flags the way the real wallPressure/findPlasmaProfile do; real solves with an out-of-equilibrium particle use a synthetic collision operator (section offeq; the shipped collision files are LFS pointers)", "DESIGN.md sections 3 C01 and 8.2"),
    "C03": ("exploration", "exhaustive EOS x Tn x units x tolerance x wall-velocity lattice; independent integrator in the similarity variable xi with energy-flux jump at the front; efficiency factor from the oracle's own profile",
            "For every returned deflagration/hybrid matching that satisfies the junction conditions the oracle integrates the compression wave in xi, crosses the shock and must arrive at Tn (tolerance = solver tolerances x |dlnTn/dlnv+| computed by the oracle); momentum-flux jump for constant-c_s EOS; detonations T+==Tn, v+==vw exactly; efficiency factor against the oracle's kinetic-energy integral; direct solveHydroShock calls on a (vw,v+,T+) lattice.",
            "trusted: scipy DOP853 in the oracle; matchings violating the junction conditions are C02's finding D9 and skipped here", "DESIGN.md sections 3 C03 and 8.2"),
    "C04": ("exploration", "exhaustive lattice potential x grid size x wall velocity (3 deflagrations, 2 hybrids, 3 detonations) x wall shape x out-of-equilibrium moment variant; analytic T30/T33 at every grid point; all ordered pairs (previous wall -> judged wall) on one EOM object without a grid update in between",
            "At every grid point of every successful profile the analytic residual of the T33 equation changes sign inside the root finder's guaranteed interval and T30 equals c1; far-field values against the matching on both branches; boundary constants against the analytic EOS.",
            "trusted: analytic potentials of vmc/models.py; the out-of-equilibrium stress is the code's own deltaToTmunu (C13's subject) evaluated with the oracle's velocity", "DESIGN.md sections 3 C04 and 8.2"),
    "C05": ("exploration", "exhaustive EOS lattice x both tolerances; entropy mismatch recomputed by the oracle from validated matchings on a grid of the window for the sentinel clauses; call histories with stale convergence flags compared bitwise with a fresh object; WallGoManager.wallSpeedLTE after the manager served another parameter point / another Tn",
            "Interior root: |T+ gamma+ - T- gamma-| within a derived tolerance plus the C02/C03 relations at that velocity; runaway sentinel: one sign of the mismatch on 8/24 window points; static sentinel: stopping sign at vMin; manager.wallSpeedLTE == Hydrodynamics.findvwLTE on a traced model.",
            "trusted: oracle matchings validated by junction residuals and xi-integration; points within 1e-3 Tn of a threshold are inadmissible as the property allows", "DESIGN.md section 3 C05"),
    "C06": ("exploration", "exhaustive EOS lattice x velocities x phase-range/flag combinations; oracle Chapman-Jouguet velocity; scan of validated matchings for the range clauses",
            "Ordering/causality/branch relations for every validated matching; vJ equals the oracle's CJ velocity; sqrt(delta) approach of the detonation branch; fastestDeflag/slowestDeton against the first crossing of the tabulated maxima found by the oracle's scan.",
            "trusted: oracle junction algebra; exotic EOS where an exact solution itself violates an ordering clause are inadmissible for that clause", "DESIGN.md section 3 C06"),
    "C07": ("exploration", "metamorphic pairs (units x s, units x 1) over the full product model x Tn x settings x unit factor on the real end-to-end pipeline, incl. pairs with an out-of-equilibrium particle (mass function scaled with the units, synthetic relaxation collision operator in both storage bases)",
            "About 30 pair relations per case: every dimensionless output equal within solver tolerances, every dimensionful one scaled by the right power; a run that raises only in scaled units is a violation reported with its stage.",
            "trusted: analytic models of vmc/models.py (Scaled wrapper); wall-shape tolerance 5e-3 from measured reproducibility; the shipped collision files are LFS pointers: out-of-equilibrium pairs use a synthetic collision operator", "DESIGN.md sections 3 C07 and 8.2"),
    "C08": ("exploration", "complete hyperoctahedral group of the field space x 3 translations (incl. a model with a spectator field that a permutation lists first), metamorphic comparison with the original labelling on the real end-to-end pipeline, incl. the group with an out-of-equilibrium particle whose mass function is transformed with the fields (synthetic relaxation collision operator)",
            "Velocities, temperatures, matchings equal; widths permuted; distances between wall centres mapped by the permutation; phases and profiles transformed pointwise.",
            "trusted: Relabel wrapper of vmc/models.py; wall-shape tolerance 5e-3 from measured reproducibility", "DESIGN.md sections 3 C08 and 8.2"),
    "C13": ("exploration", "complete monomial basis of the quadrature's exactness class per grid size, basis variant and momentum scale (1e-10 ... 1e10); mpmath ladder for a non-polynomial family; deltaToTmunu (on an object used before with another frame velocity) against the oracle's own boosted momentum integral",
            "Each of the four moments against the closed-form Chebyshev-moment product for every basis monomial, linearity on pairs, monotone convergence with bounds on a ladder of N, T30/T33 out-of-equilibrium parts for several plasma velocities and 1-3 species.",
            "trusted: mpmath quadrature; weights and measure written from the property statement", "DESIGN.md section 3 C13"),
    "C15": ("exploration", "exhaustive template/bag lattice x units x tolerances x velocities: Hydrodynamics against HydrodynamicsTemplateModel with oracle-derived conditioning; oracle solver as referee where the full solver is invalid",
            "vJ, vMin, matchings, boundary constants, LTE velocity and efficiency factor agree within tolerances derived from both solvers' stopping rules; None/NaN/exception on one side where the other returns a valid matching is a disagreement.",
            "trusted: oracle junction/shock equations; inputs where the full solver violates the junction conditions (D9) are refereed by the oracle's exact solver", "DESIGN.md section 3 C15"),
    "C18": ("model_checking", "explicit-state BFS over all operation sequences to depth 3/4 on real InterpolatableFunction objects (5-6 object kinds x 3 initial states x 16 mode pairs; adaptive lattice with threshold 3), states merged by digest, reference model stepped in lock-step",
            "After every transition: abscissae strictly increasing and finite, non-finite rows absent individually, counters consistent; every evaluation/derivative has the input's shape and equals the oracle's own CubicSpline inside and exactly the selected mode's prescription outside; write+read round trip.",
            "trusted: scipy CubicSpline in the oracle (same boundary condition as the code); quick: 3.3e5 states, 2.4e6 transitions, no caps", "DESIGN.md sections 3 C18 and 8.2"),
    "C02": ("exploration", "exhaustive EOS x Tn x units x tolerance x wall-velocity lattice on the real solver; analytic-EOS flux oracle; all ordered call sequences (depth 2, thorough 3) on one Hydrodynamics/template object against fresh objects; other hydrodynamic temperature windows; every Hydrodynamics object built on a Thermodynamics object that served another Hydrodynamics at another Tn before; velocities also handed over as 0-d arrays (argument untouched); own xi-integrating exact-matching solver for the fallback clause",
            "Every point of a fixed lattice (bag/template/two-step/traced EOS, both sound-speed orderings, 16 velocities on both sides of c_b and v_J, tight and default solver tolerances) is run through Hydrodynamics.findMatching/findHydroBoundaries and the energy/momentum fluxes are recomputed from the analytic EOS with a tolerance = solver tolerance x finite-difference conditioning. Lattice agreement, not a proof over the reals.",
            "trusted: analytic EOS algebra in vmc/oracles/eos.py, scipy brentq/solve_ivp in the oracle; admissibility predicate stated in evidence; known finding D9 listed by input", "DESIGN.md section 3 C02"),
    "C09": ("exploration", "exhaustive lattice of potentials x temperatures x wall shapes x grid sizes on the real pressure integral; two-tier oracle (independent quadrature for every shape, Delta V for resolved shapes)",
            "The real EOM._updateGrid/_intermediatePressureResults/wallProfile/wallPressure are executed on every lattice shape; tier (i) compares with an independent Gauss-Chebyshev-Lobatto quadrature of the analytic integrand for every shape, tier (ii) with V(low)-V(high) for every resolved shape; dphi/dz against the complex-step derivative of phi at all grid points.",
            "trusted: analytic potentials in vmc/models.py, numerical differentiation of grid.decompactify for the reference Jacobian", "DESIGN.md section 3 C09"),
    "C10": ("exploration", "exhaustive lattice of traced models x Tn x range window x units x 40 temperatures per phase (inside, at and beyond both table ends); relations recomputed from the reported p alone; the same relation set on objects with a trace/use/re-trace history",
            "dp, ddp against exact-rational 5-point stencils of the reported p, e/w/cs^2/de recomputed by the oracle, continuity across the four range boundaries, p == -V(min) inside the range against the closed-form minimum, alpha against its definition, and the no-setExtrapolate history.",
            "trusted: closed-form phases of vmc/models.py; tolerance of p=-V(min) is the configured phaseTracerTol", "DESIGN.md section 3 C10"),
    "C11": ("model_checking", "exhaustive lattice model x phase x start x requested range x step x tolerance x re-minimisation x units on the real tracer with closed-form minima/spinodals, on potential objects that were used before under another configuration of their derivative scales, plus BFS over re-trace histories (row invariants only)",
            "Every tabulated row: |grad V| within an rTol-derived bound, positive-definite analytic Hessian, stored V, continuity against the implicit-function derivative (detects branch hops), mid-point interpolation against the exact minimum; end of table vs closed-form fold/instability temperatures and end flags; critical temperature vs closed form; histories of traces explored by BFS with table digests.",
            "trusted: closed-form phases/spinodals of vmc/models.py; continuous bifurcations ('merge' points) are kept 5% away from requested ranges; what a re-trace does with a new request is recorded as an observation, not judged (the property quantifies over inputs/configurations)", "DESIGN.md section 3 C11"),
    "C20": ("exploration", "complete enumeration of the shipped table rows (thorough) / every 25th row + all rows near the non-analytic points + fourth-difference smoothness on every row (quick); direct integrals on a fixed argument lattice against 35-digit mpmath with break points; one directly-evaluating potential object in long use (640-temperature scan, then the property's limits); BFS over construction histories of the shared default integrals",
            "Real and imaginary parts, value and derivative of Jb/Jf against the defining integrals; closed forms at 0 and for Im J; table rows, spline slopes and mid-points against the reference with region-dependent derived bands; one-loop thermal potential in the massless/heavy limits and continuity in the masses; Coleman-Weinberg term against its closed form for all imaginary-part options.",
            "trusted: mpmath quadrature (self-checked against the Bessel series and the closed-form imaginary part on every reference value)", "DESIGN.md section 3 C20"),
    "C12": ("model_checking", "exhaustive lattice (backgrounds x particles x collision operators x 4 basis combinations x grid sizes x derivative mode) plus a solver configured away from its defaults in the finite-difference cross-check, plus BFS over all call histories to depth 3/5 on a real BoltzmannSolver with state digests",
            "Homogeneous background => |deltaF| below a derived rounding bound; backward error of the dense solve; basis independence of deltaF and of the four moments via the harness' own basis functions; finite-difference vs spectral source/Liouville on a refinement ladder with Taylor bounds; every operation sequence over {setBackground A/B, solve, getDeltas, caller scribbles on its background} to the stated depth compared bitwise with a fresh solver.",
            "trusted: synthetic non-singular collision operators generated by the harness (the LFS collision files are pointers), own closed-form source/operator assembly", "DESIGN.md section 3 C12"),
    "C14": ("fault_enumeration", "complete enumeration of missing-file subsets (2^(n^2), n<=3), per-position size/basis/dataset faults, oversize targets, fresh and after a good load; all load sequences of length <=3 (thorough 4); complete-basis operator checks for load/changeBasis/interpolation",
            "Harness-written HDF5 directories with decodable full-rank tensors: load equality per ordered pair, operator action on complete bases before/after changeBasis, interpolation against mpmath Lagrange/Chebyshev references, per-pair independence of other particles, and for every fault pattern CollisionLoadError plus the previously installed array kept bit-identical.",
            "trusted: mpmath reference matrices in vmc/oracles/c14_oracle.py, h5py", "DESIGN.md section 3 C14"),
    "C16": ("model_checking", "complete basis per (M,N,direction,endpoints) on both grid classes against 50-digit mpmath references with the oracle's own nodes, homogeneity over 2^-60..2^60, all rank-2 label pairs and rank-3/4 axis patterns, plus BFS over operation sequences of length <=3 (thorough 4) tracking the represented function",
            "Linear maps on a finite-dimensional space are checked on every basis vector (change of basis, evaluate, derivative, integrate with computed exactness class, matrices), multi-axis arrays as tensor products, linearity through the arithmetic dunder methods, and an explicit-state search over operation histories with the represented function as the model.",
            "trusted: mpmath Chebyshev/cardinal references; exhaustive for the listed grid sizes only; indexing (__getitem__) is outside the property", "DESIGN.md section 3 C16"),
    "C17": ("model_checking", "exhaustive lattice of Grid3Scales/Grid parameters x spacings x sizes, maps must leave their arguments and the grid's coordinate arrays untouched, plus BFS over all histories of <=3 rescaling calls with the differential oracle 'rescaled grid == freshly constructed grid'",
            "Strict monotonicity on collocation + dense points, z(0)==centre, Jacobian against a 6th-order difference/complex step with a Cauchy bound, slope L/r at the centre, compactify(decompactify(x))==x, cached arrays == recomputed, EOM._updateGrid against a field-by-field oracle; BFS digests every public attribute and method result in every reachable state.",
            "trusted: mpmath cross-check of the map's rounding bound; depth 3 completed, no caps", "DESIGN.md section 3 C17"),
    "C19": (
        "exploration",
        "complete enumeration of stencil tables in exact rational arithmetic + exhaustive lattice of run-time stencil selections on real code",
        "Every row of every coefficient table is compared with the unique rational stencil for its positions (complete, "
        "exact); the real derivative/gradient/hessian/EffectivePotential routines are executed on the full cross product of "
        "order x derivative order x position-relative-to-bound x side x step x scale x shape x axis selection with a "
        "recording monomial basis of the exactness class; result exact to a derived rounding bound and no evaluation outside bounds.",
        "trusted: numpy arithmetic, fractions.Fraction; bound intervals narrower than 4 steps are treated as inadmissible",
        "DESIGN.md section 3 C19",
    ),
}

# properties whose check has been verified silent (exit 0) on the current tree
READY = {"C01", "C02", "C03", "C04", "C05", "C06", "C07", "C08", "C09", "C10", "C11", "C12", "C13", "C14", "C15", "C16", "C17", "C18", "C19", "C20"}

NOT_YET = "check not built yet in this session (see DESIGN.md section 3 for the planned bounded-exhaustive design)"


def main():
    ids = [json.loads(l)["id"] for l in open(os.path.join(VERIF, "properties.jsonl"))]
    checks, na = [], []
    for pid in ids:
        have = os.path.exists(os.path.join(VERIF, "vmc", "checks", pid.lower() + ".py")) and pid in CHECKS and pid in READY
        if not have:
            na.append({"property_id": pid, "reason": NOT_YET})
            continue
        cat, tech, text, note, ref = CHECKS[pid]
        checks.append(
            {
                "property_id": pid,
                "quick_cmd": f"./check {pid} --tier quick",
                "thorough_cmd": f"./check {pid} --tier thorough",
                "evidence_file": f"/verif/evidence/{pid}.json",
                "replay_cmd_template": f"./check {pid} --replay {{path}}",
                "engine": "vmc",
                "level_claimed": {"category": cat, "text": text, "design_ref": ref},
                "level_note": note,
                "technique": tech,
            }
        )
    man = {
        "version": 1,
        "setup_cmd": "cd /verif && /venv/bin/python -c 'import sys; sys.path.insert(0, \"/repo/src\"); import WallGo, numpy, scipy, h5py, mpmath' && chmod +x check",
        "hooks": {
            "guard": "WALLGO_VERIF",
            "enable": "no source hooks: WallGo is pure Python, the checks import /repo/src directly and wrap methods on the instances under test",
            "baseline_off_cmd": "cd /repo && /venv/bin/python -m pytest -ra -q -p no:cacheprovider --timeout=900 --continue-on-collection-errors",
            "source_commits": [],
            "add_only": True,
        },
        "engines": [
            {
                "name": "vmc",
                "path": "/verif/vmc",
                "serves_properties": [c["property_id"] for c in checks],
                "kind_free_text": "hand-written bounded-exhaustive explorers for Python: (L) complete input/configuration lattices, (H) explicit-state BFS over call histories on real objects with state digests, (E) deviation-bounded scripted-environment search; all executed on the real WallGo code",
            }
        ],
        "checks": checks,
        "not_applicable": na,
        "notes": "Exit 0 = held on everything explored (KNOWN-FINDING lines for listed genuine defects), 1 = VIOLATION, 2 = harness error. known_findings.json lists confirmed defects by exact case id / key prefix (one specific input) or, for the two rounding-dependent D9 findings, by input region + a signature the check computes itself (key_regex); 'fixed' entries suppress nothing. seeded/ = independently seeded property-breaking changes with the check result against each, benign/ = behaviour-preserving patches on which every check stays silent.",
    }
    with open(os.path.join(VERIF, "MANIFEST.json"), "w") as fh:
        json.dump(man, fh, indent=1)
    print(f"claimed: {[c['property_id'] for c in checks]}; not_applicable: {len(na)}")


if __name__ == "__main__":
    main()
