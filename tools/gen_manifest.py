#!/usr/bin/env python3
"""Regenerates /verif/MANIFEST.json from the table below (a property is claimed iff its
check module vmc/checks/<id>.py exists and it has an entry in CHECKS)."""
import json
import os

VERIF = os.path.dirname(os.path.dirname(os.path.abspath(__file__)))

# id -> (category, technique, text, note, design_ref)
CHECKS = {
    "C02": ("exploration", "exhaustive EOS x Tn x units x tolerance x wall-velocity lattice on the real solver; analytic-EOS flux oracle; own xi-integrating exact-matching solver for the fallback clause",
            "Every point of a fixed lattice (bag/template/two-step/traced EOS, both sound-speed orderings, 16 velocities on both sides of c_b and v_J, tight and default solver tolerances) is run through Hydrodynamics.findMatching/findHydroBoundaries and the energy/momentum fluxes are recomputed from the analytic EOS with a tolerance = solver tolerance x finite-difference conditioning. Lattice agreement, not a proof over the reals.",
            "trusted: analytic EOS algebra in vmc/oracles/eos.py, scipy brentq/solve_ivp in the oracle; admissibility predicate stated in evidence; known finding D9 listed by input", "DESIGN.md section 3 C02"),
    "C09": ("exploration", "exhaustive lattice of potentials x temperatures x wall shapes x grid sizes on the real pressure integral; two-tier oracle (independent quadrature for every shape, Delta V for resolved shapes)",
            "The real EOM._updateGrid/_intermediatePressureResults/wallProfile/wallPressure are executed on every lattice shape; tier (i) compares with an independent Gauss-Chebyshev-Lobatto quadrature of the analytic integrand for every shape, tier (ii) with V(low)-V(high) for every resolved shape; dphi/dz against the complex-step derivative of phi at all grid points.",
            "trusted: analytic potentials in vmc/models.py, numerical differentiation of grid.decompactify for the reference Jacobian", "DESIGN.md section 3 C09"),
    "C10": ("exploration", "exhaustive lattice of traced models x Tn x range window x units x 40 temperatures per phase (inside, at and beyond both table ends); relations recomputed from the reported p alone",
            "dp, ddp against exact-rational 5-point stencils of the reported p, e/w/cs^2/de recomputed by the oracle, continuity across the four range boundaries, p == -V(min) inside the range against the closed-form minimum, alpha against its definition, and the no-setExtrapolate history.",
            "trusted: closed-form phases of vmc/models.py; tolerance of p=-V(min) is the configured phaseTracerTol", "DESIGN.md section 3 C10"),
    "C11": ("model_checking", "exhaustive lattice model x phase x start x requested range x step x tolerance x re-minimisation x units on the real tracer with closed-form minima/spinodals, plus BFS over re-trace histories (row invariants only)",
            "Every tabulated row: |grad V| within an rTol-derived bound, positive-definite analytic Hessian, stored V, continuity against the implicit-function derivative (detects branch hops), mid-point interpolation against the exact minimum; end of table vs closed-form fold/instability temperatures and end flags; critical temperature vs closed form; histories of traces explored by BFS with table digests.",
            "trusted: closed-form phases/spinodals of vmc/models.py; continuous bifurcations ('merge' points) are kept 5% away from requested ranges; what a re-trace does with a new request is recorded as an observation, not judged (the property quantifies over inputs/configurations)", "DESIGN.md section 3 C11"),
    "C20": ("exploration", "complete enumeration of the shipped table rows (thorough) / every 25th row + all rows near the non-analytic points + fourth-difference smoothness on every row (quick); direct integrals on a fixed argument lattice against 35-digit mpmath with break points; BFS over construction histories of the shared default integrals",
            "Real and imaginary parts, value and derivative of Jb/Jf against the defining integrals; closed forms at 0 and for Im J; table rows, spline slopes and mid-points against the reference with region-dependent derived bands; one-loop thermal potential in the massless/heavy limits and continuity in the masses; Coleman-Weinberg term against its closed form for all imaginary-part options.",
            "trusted: mpmath quadrature (self-checked against the Bessel series and the closed-form imaginary part on every reference value)", "DESIGN.md section 3 C20"),
    "C12": ("model_checking", "exhaustive lattice (backgrounds x particles x collision operators x 4 basis combinations x grid sizes x derivative mode) plus BFS over all call histories to depth 3/4 on a real BoltzmannSolver with state digests",
            "Homogeneous background => |deltaF| below a derived rounding bound; backward error of the dense solve; basis independence of deltaF and of the four moments via the harness' own basis functions; finite-difference vs spectral source/Liouville on a refinement ladder with Taylor bounds; every operation sequence over {setBackground A/B, solve, getDeltas, caller scribbles on its background} to the stated depth compared bitwise with a fresh solver.",
            "trusted: synthetic non-singular collision operators generated by the harness (the LFS collision files are pointers), own closed-form source/operator assembly", "DESIGN.md section 3 C12"),
    "C14": ("fault_enumeration", "complete enumeration of missing-file subsets (2^(n^2), n<=3), per-position size/basis/dataset faults, oversize targets, fresh and after a good load; all load sequences of length <=3; complete-basis operator checks for load/changeBasis/interpolation",
            "Harness-written HDF5 directories with decodable full-rank tensors: load equality per ordered pair, operator action on complete bases before/after changeBasis, interpolation against mpmath Lagrange/Chebyshev references, per-pair independence of other particles, and for every fault pattern CollisionLoadError plus the previously installed array kept bit-identical.",
            "trusted: mpmath reference matrices in vmc/oracles/c14_oracle.py, h5py", "DESIGN.md section 3 C14"),
    "C16": ("model_checking", "complete basis per (M,N,direction,endpoints) against 50-digit mpmath references, all rank-2 label pairs and rank-3/4 axis patterns, plus BFS over operation sequences of length <=3 tracking the represented function",
            "Linear maps on a finite-dimensional space are checked on every basis vector (change of basis, evaluate, derivative, integrate with computed exactness class, matrices), multi-axis arrays as tensor products, linearity through the arithmetic dunder methods, and an explicit-state search over operation histories with the represented function as the model.",
            "trusted: mpmath Chebyshev/cardinal references; exhaustive for the listed grid sizes only; indexing (__getitem__) is outside the property", "DESIGN.md section 3 C16"),
    "C17": ("model_checking", "exhaustive lattice of Grid3Scales/Grid parameters x spacings x sizes, plus BFS over all histories of <=3 rescaling calls with the differential oracle 'rescaled grid == freshly constructed grid'",
            "Strict monotonicity on collocation + dense points, z(0)==centre, Jacobian against a 6th-order difference/complex step with a Cauchy bound, slope L/r at the centre, compactify(decompactify(x))==x, cached arrays == recomputed, EOM._updateGrid against a field-by-field oracle; BFS digests every public attribute and method result in every reachable state.",
            "trusted: mpmath cross-check of the map's rounding bound; depth 3 completed, no caps", "DESIGN.md section 3 C17"),
    "C19": (
        "exploration",
        "complete enumeration of stencil tables in exact rational arithmetic + exhaustive lattice of run-time stencil selections on real code",
        "Every row of every coefficient table is compared with the unique rational stencil for its positions (complete, "
        "exact); the real derivative/gradient/hessian/EffectivePotential routines are executed on the full cross product of "
        "order x derivative order x position-relative-to-bound x side x step x scale x shape x axis selection with a "
        "recording monomial basis of the exactness class; result exact to a derived rounding bound and no evaluation outside bounds.",
        "trusted: numpy arithmetic, fractions.Fraction; bound intervals narrower than 4 steps are treated as inadmissible",
        "DESIGN.md section 3 C19",
    ),
}

NOT_YET = "check not built yet in this session (see DESIGN.md section 3 for the planned bounded-exhaustive design)"


def main():
    ids = [json.loads(l)["id"] for l in open(os.path.join(VERIF, "properties.jsonl"))]
    checks, na = [], []
    for pid in ids:
        have = os.path.exists(os.path.join(VERIF, "vmc", "checks", pid.lower() + ".py")) and pid in CHECKS
        if not have:
            na.append({"property_id": pid, "reason": NOT_YET})
            continue
        cat, tech, text, note, ref = CHECKS[pid]
        checks.append(
            {
                "property_id": pid,
                "quick_cmd": f"./check {pid} --tier quick",
                "thorough_cmd": f"./check {pid} --tier thorough",
                "evidence_file": f"/verif/evidence/{pid}.json",
                "replay_cmd_template": f"./check {pid} --replay {{path}}",
                "engine": "vmc",
                "level_claimed": {"category": cat, "text": text, "design_ref": ref},
                "level_note": note,
                "technique": tech,
            }
        )
    man = {
        "version": 1,
        "setup_cmd": "cd /verif && /venv/bin/python -c 'import sys; sys.path.insert(0, \"/repo/src\"); import WallGo, numpy, scipy, h5py, mpmath' && chmod +x check",
        "hooks": {
            "guard": "WALLGO_VERIF",
            "enable": "no source hooks: WallGo is pure Python, the checks import /repo/src directly and wrap methods on the instances under test",
            "baseline_off_cmd": "cd /repo && /venv/bin/python -m pytest -ra -q -p no:cacheprovider --timeout=900 --continue-on-collection-errors",
            "source_commits": [],
            "add_only": True,
        },
        "engines": [
            {
                "name": "vmc",
                "path": "/verif/vmc",
                "serves_properties": [c["property_id"] for c in checks],
                "kind_free_text": "hand-written bounded-exhaustive explorers for Python: (L) complete input/configuration lattices, (H) explicit-state BFS over call histories on real objects with state digests, (E) deviation-bounded scripted-environment search; all executed on the real WallGo code",
            }
        ],
        "checks": checks,
        "not_applicable": na,
        "notes": "Exit 0 = held on everything explored (KNOWN-FINDING lines for listed genuine defects), 1 = VIOLATION, 2 = harness error. known_findings.json lists confirmed defects by exact case id.",
    }
    with open(os.path.join(VERIF, "MANIFEST.json"), "w") as fh:
        json.dump(man, fh, indent=1)
    print(f"claimed: {[c['property_id'] for c in checks]}; not_applicable: {len(na)}")


if __name__ == "__main__":
    main()
