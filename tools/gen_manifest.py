#!/usr/bin/env python3
"""Regenerates /verif/MANIFEST.json from the table below (a property is claimed iff its
check module vmc/checks/<id>.py exists and it has an entry in CHECKS)."""
import json
import os

VERIF = os.path.dirname(os.path.dirname(os.path.abspath(__file__)))

# id -> (category, technique, text, note, design_ref)
CHECKS = {
    "C19": (
        "exploration",
        "complete enumeration of stencil tables in exact rational arithmetic + exhaustive lattice of run-time stencil selections on real code",
        "Every row of every coefficient table is compared with the unique rational stencil for its positions (complete, "
        "exact); the real derivative/gradient/hessian/EffectivePotential routines are executed on the full cross product of "
        "order x derivative order x position-relative-to-bound x side x step x scale x shape x axis selection with a "
        "recording monomial basis of the exactness class; result exact to a derived rounding bound and no evaluation outside bounds.",
        "trusted: numpy arithmetic, fractions.Fraction; bound intervals narrower than 4 steps are treated as inadmissible",
        "DESIGN.md section 3 C19",
    ),
}

NOT_YET = "check not built yet in this session (see DESIGN.md section 3 for the planned bounded-exhaustive design)"


def main():
    ids = [json.loads(l)["id"] for l in open(os.path.join(VERIF, "properties.jsonl"))]
    checks, na = [], []
    for pid in ids:
        have = os.path.exists(os.path.join(VERIF, "vmc", "checks", pid.lower() + ".py")) and pid in CHECKS
        if not have:
            na.append({"property_id": pid, "reason": NOT_YET})
            continue
        cat, tech, text, note, ref = CHECKS[pid]
        checks.append(
            {
                "property_id": pid,
                "quick_cmd": f"./check {pid} --tier quick",
                "thorough_cmd": f"./check {pid} --tier thorough",
                "evidence_file": f"/verif/evidence/{pid}.json",
                "replay_cmd_template": f"./check {pid} --replay {{path}}",
                "engine": "vmc",
                "level_claimed": {"category": cat, "text": text, "design_ref": ref},
                "level_note": note,
                "technique": tech,
            }
        )
    man = {
        "version": 1,
        "setup_cmd": "cd /verif && /venv/bin/python -c 'import sys; sys.path.insert(0, \"/repo/src\"); import WallGo, numpy, scipy, h5py, mpmath' && chmod +x check",
        "hooks": {
            "guard": "WALLGO_VERIF",
            "enable": "no source hooks: WallGo is pure Python, the checks import /repo/src directly and wrap methods on the instances under test",
            "baseline_off_cmd": "cd /repo && /venv/bin/python -m pytest -ra -q -p no:cacheprovider --timeout=900 --continue-on-collection-errors",
            "source_commits": [],
            "add_only": True,
        },
        "engines": [
            {
                "name": "vmc",
                "path": "/verif/vmc",
                "serves_properties": [c["property_id"] for c in checks],
                "kind_free_text": "hand-written bounded-exhaustive explorers for Python: (L) complete input/configuration lattices, (H) explicit-state BFS over call histories on real objects with state digests, (E) deviation-bounded scripted-environment search; all executed on the real WallGo code",
            }
        ],
        "checks": checks,
        "not_applicable": na,
        "notes": "Exit 0 = held on everything explored (KNOWN-FINDING lines for listed genuine defects), 1 = VIOLATION, 2 = harness error. known_findings.json lists confirmed defects by exact case id.",
    }
    with open(os.path.join(VERIF, "MANIFEST.json"), "w") as fh:
        json.dump(man, fh, indent=1)
    print(f"claimed: {[c['property_id'] for c in checks]}; not_applicable: {len(na)}")


if __name__ == "__main__":
    main()
