#!/bin/sh
# usage: tools/harvest.sh <ID> <tier> [sep]: run a check, save its last lines and the proposed key prefixes of NEW violations under .work/
ID="$1"; TIER="$2"; SEP="${3:-:}"
cd /verif
./check "$ID" --tier "$TIER" > ".work/${ID}_${TIER}.log" 2>&1
python3 tools/propose_findings.py "$ID" "$SEP" > ".work/${ID}_${TIER}_pre.json" 2>/dev/null
tail -1 ".work/${ID}_${TIER}.log" | cut -c1-250
