#!/usr/bin/env python3
"""tools/propose_findings.py <ID> [sep]: group the replay files of a run into key prefixes (case + sub-point before `sep`, default ':')
so a reviewed list can be pasted into known_findings.json. Never run by a check."""
import glob, json, sys, collections
pid = sys.argv[1]; sep = sys.argv[2] if len(sys.argv) > 2 else ':'
pre = collections.OrderedDict()
for f in sorted(glob.glob(f'/verif/replays/{pid}/*.json')):
    r = json.load(open(f))
    case, rel = r['key'].split('::', 1)
    sub = rel.split(sep, 1)[0] + sep if sep in rel else rel
    pre.setdefault(case + '::' + sub, []).append(rel)
print(json.dumps(sorted(pre), indent=1))
print(len(pre), 'prefixes', file=sys.stderr)
