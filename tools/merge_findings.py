#!/usr/bin/env python3
"""tools/merge_findings.py <finding-id> <pre.json>...: add reviewed key prefixes (output of propose_findings.py) to a known finding."""
import json, sys
fid = sys.argv[1]
K = json.load(open('/verif/known_findings.json'))
f = [x for x in K['findings'] if x['id'] == fid][0]
n0 = len(f['key_prefixes'])
for p in sys.argv[2:]:
    f['key_prefixes'] = sorted(set(f['key_prefixes']) | set(json.load(open(p))))
print(fid, n0, '->', len(f['key_prefixes']))
json.dump(K, open('/verif/known_findings.json', 'w'), indent=1)
