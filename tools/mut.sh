#!/bin/sh
# usage: tools/mut.sh <patch.diff> <ID> [more ./check args]   -- run a check against a patched scratch copy of /repo/src
# (never touches /repo). Patch paths are relative to the repo root (src/WallGo/...).
set -e
P="$(realpath "$1")"; shift
D="$(mktemp -d /var/tmp/wg-mut-XXXXXX)"
trap 'rm -rf "$D"' EXIT
mkdir -p "$D/src"
cp -r /repo/src/WallGo "$D/src/WallGo"
(cd "$D" && patch -p1 -s < "$P")
cd /verif
set +e
WALLGO_SRC="$D/src" VERIF_OUT="$D/out" ./check "$@"
echo "exit=$?"
