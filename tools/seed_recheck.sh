#!/bin/sh
# usage: tools/seed_recheck.sh <name> <ID> "<history text>" [check args]: re-run a check against an already stored seeded change
# (seeded/<name>/patch.diff applied to a scratch copy of /repo/src) and record the new result + history in its meta.json
NAME="$1"; ID="$2"; HIST="$3"; shift 3
cd /verif
tools/mut.sh "seeded/$NAME/patch.diff" "$ID" "$@" > "seeded/$NAME/check_$ID.log" 2>&1
EC=$(grep -o '^exit=[0-9]*' "seeded/$NAME/check_$ID.log" | tail -1 | cut -d= -f2)
NV=$(grep -c '^VIOLATION' "seeded/$NAME/check_$ID.log")
sed -i 's#/var/tmp/wg-mut-[A-Za-z0-9]*/#<scratch>/#g' "seeded/$NAME/check_$ID.log"
python3 - "$NAME" "$ID" "$EC" "$NV" "$HIST" "$*" <<'PY'
import json, sys
name, pid, ec, nv, hist, args = sys.argv[1:7]
f = f'/verif/seeded/{name}/meta.json'
m = json.load(open(f))
m['check_result'] = {"check": pid, "args": args, "exit": int(ec), "violation_lines": int(nv)}
if hist:
    m['history'] = hist
json.dump(m, open(f, 'w'), indent=1)
print(name, 'exit', ec, 'violations', nv)
PY
