#!/usr/bin/env python3
"""python3-vt tools/validate.py : validate MANIFEST.json and evidence/*.json against the schemas."""
import glob, json, sys
import jsonschema
ok = True
man = json.load(open('/verif/MANIFEST.json'))
try:
    jsonschema.validate(man, json.load(open('/root/.vp/MANIFEST.schema.json')))
    print('MANIFEST ok')
except Exception as e:
    ok = False; print('MANIFEST INVALID', e)
es = json.load(open('/root/.vp/EVIDENCE.schema.json'))
for f in sorted(glob.glob('/verif/evidence/*.json')):
    try:
        ev = json.load(open(f)); jsonschema.validate(ev, es); print(f, 'ok', ev['level'], ev['tier'])
    except Exception as e:
        ok = False; print(f, 'INVALID', str(e)[:300])
sys.exit(0 if ok else 1)
