"""Reference code for C09 (uniform plasma => wall pressure equals the free-energy difference).

Nothing here calls the pressure integral, Polynomial.integrate, EffectivePotential.derivField,
EOM.wallProfile or Grid.getCompactificationDerivatives.  The only WallGo function used is the
coordinate map itself, ``grid.decompactify`` (the *definition* of z(chi)); its Jacobian is obtained here
by differentiating that map numerically, as DESIGN.md C09 prescribes.
"""
from __future__ import annotations

import numpy as np

from .. import models as MD

EPS = float(np.finfo(float).eps)

# 8th-order central first-derivative stencil (offsets -4..4), exact for degree <= 8,
# truncation error h^8 f^(9)/630.
_C8 = np.array([1 / 280, -4 / 105, 1 / 5, -4 / 5, 0.0, 4 / 5, -1 / 5, 4 / 105, -1 / 280])
_O8 = np.arange(-4, 5, dtype=float)


def gcl_nodes(M: int):
    """Interior Gauss-Chebyshev-Lobatto nodes chi_j = -cos(j pi/M), j=1..M-1, and the weights W_j of
    int_-1^1 f(chi) dchi ~= sum_j W_j f(chi_j) for f vanishing at the end points:
    (pi/M) sqrt(1-chi_j^2) = (pi/M) sin(j pi/M)."""
    j = np.arange(1, M)
    th = j * np.pi / M
    return -np.cos(th), (np.pi / M) * np.sin(th)


def zmap(grid, chi):
    """z(chi) of the grid's *current* parameters (fresh evaluation, no cached arrays)."""
    return np.asarray(grid.decompactify(np.asarray(chi, float), np.zeros(1), np.zeros(1))[0], float)


def jacobian_fd(grid, chi):
    """dz/dchi by 8th-order central differences of z(chi) with step h = (1-|chi|)/64 (the map's only
    singularities are the logarithms at chi = +-1, at distance d = 1-|chi|; for f ~ log d the truncation
    error is 64 (h/d)^8 relative = 2.3e-13).  A second evaluation with the doubled step (whose truncation
    error is 256 times larger) gives a per-node error estimate.  Returns (J, errJ)."""
    chi = np.asarray(chi, float)
    d = 1.0 - np.abs(chi)
    out = []
    for div in (64.0, 32.0):
        h = d / div
        pts = chi[None, :] + _O8[:, None] * h[None, :]
        # use the exactly representable step actually taken
        hh = (pts[5] - pts[3]) / 2.0
        z = zmap(grid, pts)
        out.append(np.sum(_C8[:, None] * z, axis=0) / hh)
    J, J2 = out
    return J, np.abs(J - J2)


def tanh_profile(z, vevLow, vevHigh, widths, offsets):
    """phi_i(z) = low_i + (high_i-low_i)/2 (1 + tanh(z/w_i + delta_i)) and its z-derivative
    (high_i-low_i)/(2 w_i) sech^2(z/w_i + delta_i).  Shapes: z (n,), others (nf,) -> (n, nf)."""
    z = np.asarray(z, float)[:, None]
    lo, hi = np.asarray(vevLow, float)[None, :], np.asarray(vevHigh, float)[None, :]
    w, o = np.asarray(widths, float)[None, :], np.asarray(offsets, float)[None, :]
    x = z / w + o
    t = np.tanh(x)
    phi = lo + 0.5 * (hi - lo) * (1.0 + t)
    dphi = 0.5 * (hi - lo) / w * (1.0 - t) * (1.0 + t)  # sech^2 = (1-t)(1+t), no overflow
    return phi, dphi


def v_abs_terms(am, phi, T):
    """Sum of the absolute values of the terms of V (what bounds the rounding error of one evaluation)."""
    phi = np.asarray(phi, float)
    T = np.asarray(T, float)
    if isinstance(am, MD.QuarticZ2):
        u = phi**2
        Mabs = np.abs(am.mu2) + np.abs(am.c) * T[..., None] ** 2
        return 0.5 * np.sum(Mabs * u, axis=-1) + 0.25 * np.einsum("...i,ij,...j->...", u, np.abs(am.Lam), u) + abs(am.a) * T**4
    if isinstance(am, MD.Cubic1):
        f = np.abs(phi[..., 0])
        return abs(am.D) * (T**2 + am.T0**2) * f**2 + abs(am.E) * T * f**3 + abs(am.lam) * f**4 / 4 + abs(am.a) * T**4
    raise TypeError(type(am))


def reference_pressure(am, grid, M, vevLow, vevHigh, widths, offsets, Tfun, dx_fields, kv=16.0):
    """P_ref = - sum_j W_j J_j gradV(phi(z_j), T(z_j)) . phi'(z_j)  (analytic gradient, own profile, own
    nodes/weights, numerically differentiated Jacobian) together with a *derived* bound on
    |P_impl - P_ref| for an implementation that differs only by
      (A) the rounding of WallGo's 4th-order central finite-difference gradient.  Its truncation error is
          zero for potentials of degree <= 4 in the fields; rounding: the stencil (1,-8,8,-1)/(12 dx) has
          sum|c| = 1.5/dx, each V is evaluated to kv*eps*sum|terms of V|, and the stencil positions x+k dx
          are rounded to ulp(|x|+2dx)/2, which moves V by |g| ulp;
      (B) the error of the numerically differentiated Jacobian (per-node estimate from step doubling);
      (C) rounding of the profile/weights/sum: 64 eps sum_j W_j J_j sum_i |g_i phi'_i|.
    Returns dict(P, tol, z, J, errJ, terms=(A,B,C))."""
    chi, W = gcl_nodes(M)
    z = zmap(grid, chi)
    J, errJ = jacobian_fd(grid, chi)
    phi, dphi = tanh_profile(z, vevLow, vevHigh, widths, offsets)
    T = np.asarray(Tfun(z), float) * np.ones_like(z)
    g = am.grad(phi, T)  # (n, nf)
    integrand = np.sum(g * dphi, axis=-1)
    P = -float(np.sum(W * J * integrand))
    dx = np.asarray(dx_fields, float)[None, :]
    vabs = v_abs_terms(am, phi, T)[:, None]
    dg = 1.5 / dx * (kv * EPS * vabs + np.abs(g) * EPS * (np.abs(phi) + 2 * dx))
    A = float(np.sum(W * np.abs(J) * np.sum(np.abs(dphi) * dg, axis=-1)))
    absint = np.sum(np.abs(g * dphi), axis=-1)
    B = float(np.sum(W * errJ * absint))
    C = float(64 * EPS * np.sum(W * np.abs(J) * absint))
    return dict(P=P, tol=A + B + C, z=z, chi=chi, J=J, errJ=errJ, terms=(A, B, C), absint=float(np.sum(W * np.abs(J) * absint)))
