"""Oracle pieces for C15 (full hydrodynamics vs template model on template equations of state).

Everything here is written against the analytic EOS of vmc.oracles.eos and the xi-integrator
of vmc.oracles.hydro; nothing calls WallGo. Values returned by WallGo are used *only* as
starting points of Newton iterations on the oracle's own equations; a result is accepted only
if the oracle's own residuals vanish.
"""
from __future__ import annotations

import numpy as np
from scipy.optimize import brentq
from scipy.optimize import root as sp_root

from . import hydro as OH
from .eos import EOS, gamma2

EPS = float(np.finfo(float).eps)


# ------------------------------------------------------------------------------------------
# wall junction
# ------------------------------------------------------------------------------------------
def vm_on_branch(eos: EOS, branch: str, vw: float, Tm: float) -> float:
    """v- prescribed by the solution type: the wall velocity for a deflagration, the sound
    speed behind the wall (Chapman-Jouguet condition) for a hybrid."""
    if branch == "hybrid":
        return float(np.sqrt(eos.csq("b", Tm)))
    return vw


def junction_newton(eos: EOS, branch: str, vw: float, vp: float, Tp0: float, Tm0: float):
    """(Tp, Tm, vm) solving energy- and momentum-flux continuity for given vw, v+ on the given
    branch, by Newton (hybr) from (Tp0, Tm0). None if the oracle's residual does not vanish."""

    def F(x):
        Tp, Tm = x
        if not (Tp > 0 and Tm > 0):
            return [1e3, 1e3]
        vm = vm_on_branch(eos, branch, vw, Tm)
        wp, wm = eos.w("s", Tp), eos.w("b", Tm)
        e1, e2 = wp * gamma2(vp) * vp, wm * gamma2(vm) * vm
        return [(e1 - e2) / e1, ((e1 * vp + eos.p("s", Tp)) - (e2 * vm + eos.p("b", Tm))) / wp]

    sol = sp_root(F, [Tp0, Tm0], method="hybr", options={"xtol": 1e-14})
    if not np.all(np.isfinite(sol.x)) or np.max(np.abs(F(sol.x))) > 1e-11:
        return None
    Tp, Tm = float(sol.x[0]), float(sol.x[1])
    if not (Tp > 0 and Tm > 0):
        return None
    return Tp, Tm, vm_on_branch(eos, branch, vw, Tm)


def boundary_constants(eos: EOS, vp: float, Tp: float):
    """c1 = -(energy flux in front), c2 = momentum flux in front (sign convention of the wall equations)."""
    w = eos.w("s", Tp)
    return -w * gamma2(vp) * vp, eos.p("s", Tp) + w * gamma2(vp) * vp * vp


def state_of_vp(eos: EOS, branch: str, vw: float, vp: float, Tp0: float, Tm0: float, shock_rtol=1e-10):
    """The exact deflagration/hybrid state on the junction manifold at given v+ and the temperature the
    compression wave reaches ahead of its shock: dict(q=[vp,vm,Tp,Tm,c1,c2,vmid], Tn=..., kind=...)."""
    st = junction_newton(eos, branch, vw, vp, Tp0, Tm0)
    if st is None:
        return None
    Tp, Tm, vm = st
    sh = OH.shock_Tn(eos, vw, vp, Tp, rtol=shock_rtol)
    c1, c2 = boundary_constants(eos, vp, Tp)
    return dict(q=np.array([vp, vm, Tp, Tm, c1, c2, -0.5 * (vp + vm)]), Tn=float(sh["Tn"]), kind=sh["kind"],
                mom=float(sh["mom_res_rel"]), xi_sh=float(sh["xi_sh"]))


def sensitivity_to_vp(eos: EOS, branch: str, vw: float, vp: float, Tp: float, Tm: float, base=None, h=1e-5):
    """One-sided differences along the junction manifold: |d q/d v+| (7 numbers) and |d Tn/d v+|; these are
    conditioning numbers, an O(h) error in them is irrelevant. `base` = state_of_vp at v+ if already known.
    Steps towards smaller v+ first (v+ may sit at the upper end of its range); None if the manifold cannot
    be followed on either side."""
    if base is None:
        base = state_of_vp(eos, branch, vw, vp, Tp, Tm)
    if base is None or base["kind"] == "incomplete":
        return None
    for sgn in (-1.0, 1.0):
        a = state_of_vp(eos, branch, vw, vp * (1 + sgn * h), Tp, Tm)
        if a is None or a["kind"] == "incomplete":
            continue
        d = h * vp
        return dict(dq=np.abs(a["q"] - base["q"]) / d, dTn=abs(a["Tn"] - base["Tn"]) / d)
    return None


# ------------------------------------------------------------------------------------------
# detonation / Jouguet
# ------------------------------------------------------------------------------------------
def det_vm_of_Tm(eos: EOS, Tn: float, Tm: float) -> float:
    """v- of a detonation (T+ = Tn) as a function of T-, from the two junction conditions with v+ eliminated."""
    pH, pL = eos.p("s", Tn), eos.p("b", Tm)
    eH, eL = eos.e("s", Tn), eos.e("b", Tm)
    vpvm = (pH - pL) / (eH - eL)
    vpovm = (eL + pH) / (eH + pL)
    return float(np.sqrt(vpvm / vpovm))


def det_vp_of_Tm(eos: EOS, Tn: float, Tm: float) -> float:
    pH, pL = eos.p("s", Tn), eos.p("b", Tm)
    eH, eL = eos.e("s", Tn), eos.e("b", Tm)
    return float(np.sqrt((pH - pL) * (pH + eL) / ((eH - eL) * (eH + pL))))


def jouguet(eos: EOS, Tn: float, guess_v: float):
    """Jouguet velocity from the oracle's own equations: detonation junction conditions with
    v- = c_b(T-). Unknowns (vw, T-). Returns dict(vJ, Tm, d2vp, dvp, cond)."""

    def F(x):
        vw, Tm = x
        if not (0 < vw < 1 and Tm > 0):
            return [1e3, 1e3]
        cb = np.sqrt(eos.csq("b", Tm))
        wp, wm = eos.w("s", Tn), eos.w("b", Tm)
        e1, e2 = wp * gamma2(vw) * vw, wm * gamma2(cb) * cb
        return [(e1 - e2) / e1, ((e1 * vw + eos.p("s", Tn)) - (e2 * cb + eos.p("b", Tm))) / wp]

    best = None
    for tg in (1.0, 1.1, 1.3, 1.7, 2.5):
        sol = sp_root(F, [guess_v, tg * Tn], method="hybr", options={"xtol": 1e-15})
        if np.all(np.isfinite(sol.x)) and np.max(np.abs(F(sol.x))) < 1e-12 and sol.x[1] >= Tn * (1 - 1e-12):
            best = sol.x
            break
    if best is None:
        return None
    vJ, Tm = float(best[0]), float(best[1])
    # v+(T-) of the detonation branch has its extremum at the Jouguet point: curvature gives the
    # (second-order) effect of an error in T- on the velocity
    h = 1e-4
    f0, fa, fb = det_vp_of_Tm(eos, Tn, Tm), det_vp_of_Tm(eos, Tn, Tm * (1 + h)), det_vp_of_Tm(eos, Tn, Tm * (1 - h))
    d2 = abs(fa - 2 * f0 + fb) / (h * Tm) ** 2
    d1 = abs(fa - fb) / (2 * h * Tm)
    pH, pL = eos.p("s", Tn), eos.p("b", Tm)
    eH, eL = eos.e("s", Tn), eos.e("b", Tm)
    cond = (abs(pH) + abs(pL)) / abs(pH - pL) + (abs(eH) + abs(eL)) / abs(eH - eL) + 2.0
    return dict(vJ=vJ, Tm=Tm, d2vp=float(d2), dvp=float(d1), cond=float(cond))


# ------------------------------------------------------------------------------------------
# minimal velocity (strongest shock)
# ------------------------------------------------------------------------------------------
def strongest_shock_Tn(eos: EOS, Tn: float, vw: float, p_floor: float) -> float:
    """Temperature ahead of the shock for the strongest compression wave a wall of velocity vw can push:
    fluid at rest w.r.t. the wall in front of it (v+ = 0), p_s(T+) = p_floor (pressure left behind the wall)."""

    def g(T):
        return eos.p("s", T) - p_floor

    lo, hi = 1e-3 * Tn, 1e3 * Tn
    if not (g(lo) < 0 < g(hi)):
        return float("nan")
    Tp = brentq(g, lo, hi, xtol=1e-15 * Tn, rtol=4 * EPS)
    return float(OH.shock_Tn(eos, vw, 0.0, Tp, rtol=1e-10)["Tn"])


def min_velocity(eos: EOS, Tn: float, vJ: float, p_floor: float, lo: float = 1e-3):
    """Wall velocity at which the strongest shock just reaches Tn; None if there is no sign change on (lo, vJ)."""

    def f(v):
        return strongest_shock_Tn(eos, Tn, v, p_floor) - Tn

    fa, fb = f(lo), f(vJ)
    if not (np.isfinite(fa) and np.isfinite(fb)) or fa * fb > 0:
        return None
    v = brentq(f, lo, vJ, xtol=1e-13, rtol=1e-12)
    h = 1e-5
    dT = abs(f(v * (1 + h)) - f(v * (1 - h))) / (2 * h * v)
    return dict(v=float(v), dTn_dv=float(dT))


# ------------------------------------------------------------------------------------------
# local thermal equilibrium
# ------------------------------------------------------------------------------------------
def lte_state(eos: EOS, Tn: float, vw: float, guess):
    """Wall-side state in local thermal equilibrium at wall velocity vw: the two flux conditions plus entropy
    conservation T+ gamma+ = T- gamma-; v- = min(vw, c_b(T-)). guess = (vp, Tp, Tm). Returns dict or None."""

    def vm_of(Tm):
        return min(vw, float(np.sqrt(max(eos.csq("b", Tm), 0.0))))

    def F(x):
        vp, Tp, Tm = x
        if not (0 < vp < 1 and Tp > 0 and Tm > 0):
            return [1e3, 1e3, 1e3]
        vm = vm_of(Tm)
        wp, wm = eos.w("s", Tp), eos.w("b", Tm)
        e1, e2 = wp * gamma2(vp) * vp, wm * gamma2(vm) * vm
        return [(e1 - e2) / e1, ((e1 * vp + eos.p("s", Tp)) - (e2 * vm + eos.p("b", Tm))) / wp,
                (Tp * np.sqrt(gamma2(vp)) - Tm * np.sqrt(gamma2(vm))) / Tp]

    sol = sp_root(F, list(guess), method="hybr", options={"xtol": 1e-14})
    if not np.all(np.isfinite(sol.x)) or np.max(np.abs(F(sol.x))) > 1e-11:
        return None
    vp, Tp, Tm = (float(x) for x in sol.x)
    sh = OH.shock_Tn(eos, vw, vp, Tp, rtol=1e-10)
    return dict(vp=vp, Tp=Tp, Tm=Tm, vm=vm_of(Tm), Tn=float(sh["Tn"]), kind=sh["kind"], front=vp * vw - eos.csq("s", Tp))


def lte_scan(eos: EOS, Tn: float, vw: float, n: int = 48):
    """Guess-free search for the LTE state at vw: follow the junction roots over a v+ grid (all roots in
    [0.3,3] Tn) and look for a sign change of the entropy residual. Returns a list of lte_state results."""
    cb = float(np.sqrt(eos.csq("b", Tn)))
    vm0 = min(vw, cb)
    out = []
    prev = None
    for x in np.linspace(0.02, 0.9999, n):
        vp = vm0 * x
        try:
            rts = OH._junction_roots(eos, vw, vp, Tn, 61)
        except Exception:
            rts = []
        cur = []
        for (Tp, Tm, vm) in rts:
            if Tp is None:
                continue
            cur.append((vp, Tp, Tm, Tp * np.sqrt(gamma2(vp)) - Tm * np.sqrt(gamma2(vm))))
        if prev is not None and len(prev) == len(cur):
            for a, b in zip(prev, cur):
                if a[3] * b[3] <= 0:
                    st = lte_state(eos, Tn, vw, (0.5 * (a[0] + b[0]), 0.5 * (a[1] + b[1]), 0.5 * (a[2] + b[2])))
                    if st is not None:
                        out.append(st)
        prev = cur
    return out
