"""Reference for C20: thermal one-loop integrals from their *defining* formulas, in mpmath.

    J_b(x) =  int_0^inf dy y^2 ln(1 - exp(-sqrt(y^2+x)))
    J_f(x) = -int_0^inf dy y^2 ln(1 + exp(-sqrt(y^2+x)))

(the conventions of the docstring of WallGo/PotentialTools/integrals.py).  For x < 0 and
y^2 < -x the square root is imaginary; the principal branches of sqrt and log are used (this
is the "y slightly deformed into the upper half plane" prescription of the docstrings:
y^2+x -> negative + i0 -> sqrt = +i w).  Nothing in this file comes from WallGo.

Three independent evaluations are provided so that the oracle can be checked against itself:
 * quad():   tanh-sinh quadrature of the defining integrand, split at every singular point
             (y0 = sqrt(-x); y_k with w = 2 pi k (bosons) / (2k+1) pi (fermions));
 * bessel(): for x > 0, J = -+ x sum_n (+-1)^n/n^2 K_2(n sqrt(x));
 * dquad():  dJ/dx = -+ 1/2 int_0^inf dy ln(1 -+ exp(-sqrt(y^2+x)))   (integration by parts; the
             boundary terms at the jumps of the imaginary part are added explicitly).
"""
from __future__ import annotations

import mpmath as mp

DPS = 30


def _sing_w(kind: str, wmax):
    """Values w in (0, wmax) at which 1 -+ exp(-i w) vanishes."""
    out = []
    k = 1 if kind == "b" else 0
    while True:
        w = 2 * mp.pi * k if kind == "b" else (2 * k + 1) * mp.pi
        if w >= wmax:
            break
        out.append(w)
        k += 1
    return out


def breakpoints(kind: str, x):
    """Ascending split points of [0, inf) for the integrand at argument x."""
    x = mp.mpf(x)
    pts = [mp.mpf(0)]
    if x < 0:
        y0 = mp.sqrt(-x)
        ys = sorted(mp.sqrt(-x - w * w) for w in _sing_w(kind, y0))
        pts += [y for y in ys if y > 0]
        pts.append(y0)
        base = y0
    else:
        base = mp.mpf(0)
    # tail: the integrand decays like y^2 exp(-sqrt(y^2+x)); help the quadrature with a few
    # panels of natural size (its scale is max(1, x^(1/4)))
    s = max(mp.mpf(1), abs(x) ** mp.mpf("0.25"))
    pts += [base + s, base + 4 * s, base + 12 * s, base + 40 * s, mp.inf]
    return pts


def _log_term(kind: str, x, y):
    s = mp.sqrt(mp.mpc(y * y + x))
    e = mp.exp(-s)
    if kind == "b":
        return mp.log(1 - e)
    return -mp.log(1 + e)


def quad(kind: str, x, dps: int = DPS):
    """(Re J, Im J, error estimate) from the defining integral."""
    re_, im_, err, _ = quad_pieces(kind, x, dps)
    return re_, im_, err


def quad_pieces(kind: str, x, dps: int = DPS):
    """As quad(), plus the magnitudes of the two natural pieces  int_0^{y0}  and  int_{y0}^inf
    (y0 = sqrt(-x) for x < 0, else 0): (Re J, Im J, err, [|Re piece1|, |Im piece1|, |piece2|])."""
    with mp.workdps(dps + 5):
        x = mp.mpf(x)
        pts = breakpoints(kind, x)
        f = lambda y: y * y * _log_term(kind, x, y)  # noqa: E731
        if x < 0:
            y0 = mp.sqrt(-x)
            k = pts.index(y0)
            v1, e1 = mp.quad(f, pts[: k + 1], error=True)
            v2, e2 = mp.quad(f, pts[k:], error=True)
        else:
            v1, e1 = mp.mpc(0), mp.mpf(0)
            v2, e2 = mp.quad(f, pts, error=True)
        val = v1 + v2
        return mp.re(val), mp.im(val), e1 + e2, [abs(mp.re(v1)), abs(mp.im(v1)), abs(v2)]


def dquad(kind: str, x, dps: int = DPS):
    """(Re dJ/dx, Im dJ/dx) by differentiating under the integral after integration by parts.

    J = int y^2 L(s) dy, dL/dx = L'(s)/(2s) = (1/(2y)) dL/dy, hence on every panel (a,b) where L is smooth
    d/dx int_a^b y^2 L = 1/2 [y L]_a^b - 1/2 int_a^b L dy   (+ moving-endpoint terms that cancel pairwise
    for the continuous real part).  The imaginary part of L jumps by -+pi at the interior singular points
    y_k(x); there the pairwise cancellation leaves  -1/2 y_k * jump.  (Derivation: differentiate
    sum_k int_{y_k}^{y_{k+1}} y^2 L with Leibniz; endpoint terms y_k^2 L(y_k+-) dy_k/dx with dy_k/dx=-1/(2 y_k)
    combine with the [yL]/2 terms to zero, so in the end dJ/dx = -1/2 int_0^inf L dy, no extra terms.)
    """
    with mp.workdps(dps + 5):
        x = mp.mpf(x)
        pts = breakpoints(kind, x)
        val = mp.quad(lambda y: _log_term(kind, x, y), pts)
        val = -val / 2
        return mp.re(val), mp.im(val)


def dnum(kind: str, x, h="1e-9", dps: int = DPS):
    """Central 4th-order difference of quad() in high precision (independent of dquad)."""
    with mp.workdps(dps + 10):
        x = mp.mpf(x)
        h = mp.mpf(h)
        f = {}
        for k in (-2, -1, 1, 2):
            re, im, _ = quad(kind, x + k * h, dps + 5)
            f[k] = mp.mpc(re, im)
        d = (f[-2] - 8 * f[-1] + 8 * f[1] - f[2]) / (12 * h)
        return mp.re(d), mp.im(d)


def bessel(kind: str, x, dps: int = DPS):
    """Re J for x > 0 from the Bessel-function series (converges like exp(-n sqrt x))."""
    with mp.workdps(dps + 5):
        x = mp.mpf(x)
        assert x > 0
        r = mp.sqrt(x)
        sgn = (lambda n: 1) if kind == "b" else (lambda n: (-1) ** n)
        tot = mp.nsum(lambda n: sgn(int(n)) * mp.besselk(2, n * r) / (n * n), [1, mp.inf])
        return -x * tot if kind == "b" else x * tot


def at_zero(kind: str, dps: int = DPS):
    """J(0), J'(0):  -pi^4/45, pi^2/12  (bosons);  -7 pi^4/360, pi^2/24  (fermions)."""
    with mp.workdps(dps + 5):
        if kind == "b":
            return -mp.pi**4 / 45, mp.pi**2 / 12
        return -7 * mp.pi**4 / 360, mp.pi**2 / 24


def boltzmann(x, dps: int = DPS):
    """Leading large-x form  -x K_2(sqrt x)  (n=1 term of both series): J_b, J_f -> -x K_2(sqrt x)."""
    with mp.workdps(dps + 5):
        x = mp.mpf(x)
        return -x * mp.besselk(2, mp.sqrt(x))


def im_closed(kind: str, x, dps: int = DPS):
    """Closed form of Im J(x) for x <= 0 while at most one (fermions) / no (bosons) zero of 1 -+ exp(-i w) lies in
    the integration range, i.e. -(2 pi)^2 < x (bosons), -(3 pi)^2 < x (fermions); None outside.  There the imaginary
    part of the logarithm is the sawtooth (pi - w)/2 (bosons) resp. w/2 - pi [w > pi] (fermions), w = sqrt(-x-y^2),
    and  int_0^sqrt(a) y^2 sqrt(a-y^2) dy = pi a^2/16:
        Im J_b = (pi/6) a^(3/2) - pi a^2/32,      Im J_f = pi a^2/32 - (pi/3) (a - pi^2)^(3/2) [a > pi^2],   a = -x.
    Used only to cross-check quad() (a third, quadrature-free evaluation)."""
    with mp.workdps(dps + 5):
        a = -mp.mpf(x)
        if a < 0:
            return None
        if kind == "b":
            if a >= 4 * mp.pi**2:
                return None
            return mp.pi / 6 * a ** mp.mpf("1.5") - mp.pi * a * a / 32
        if a >= 9 * mp.pi**2:
            return None
        out = mp.pi * a * a / 32
        if a > mp.pi**2:
            out -= mp.pi / 3 * (a - mp.pi**2) ** mp.mpf("1.5")
        return out
