"""Reference code for C17 (grid coordinate maps). Shares no code with WallGo.

Contents
* compact collocation points written from the documented formulas;
* closed forms of the one-scale maps taken from the *class docstring* of Grid
  (chi = xi/sqrt(xi^2+L^2), rho_z = tanh(p_z/2T), rho_par = 1-2exp(-p_par/T)), written with
  different elementary functions than WallGo uses;
* for the three-scale map: the smoothing parameter `a` re-derived from the docstring's contract
  ("each smoothed step has the value smoothing*L/r at the origin"), the radius of analyticity of
  z'(chi)=f(chi)/(1-chi^2), a Cauchy bound for its derivatives and a rounding (conditioning) bound
  for the five-term arctanh sum.  These are used ONLY to derive tolerances of the numerical
  derivative; the relations themselves compare WallGo's map with WallGo's Jacobian;
* the wall-thickness / centre / tail rule of EOM._updateGrid written field by field.
"""
from __future__ import annotations

import math

import numpy as np

EPS = float(np.finfo(float).eps)


# --------------------------------------------------------------------------- compact points
def compact_points(M: int, N: int, spacing: str):
    """(chi, rho_z, rho_par) interior collocation points as documented in Grid.__init__."""
    if spacing == "Spectral":
        chi = np.array([-math.cos(math.pi * k / M) for k in range(1, M)])
        rz = np.array([-math.cos(math.pi * k / N) for k in range(1, N)])
        rp = np.array([-math.cos(math.pi * k / (N - 1)) for k in range(0, N - 1)])
    else:  # Uniform: equally spaced, the points at infinity (+-1, and +1 for rho_par) dropped
        chi = np.array([-1.0 + 2.0 * k / M for k in range(1, M)])
        rz = np.array([-1.0 + 2.0 * k / N for k in range(1, N)])
        rp = np.array([-1.0 + 2.0 * k / (N - 1) for k in range(0, N - 1)])
    return chi, rz, rp


# --------------------------------------------------------------------------- one-scale closed forms
def simple_z(chi, L):
    """xi with chi = xi/sqrt(xi^2+L^2)  <=>  xi = L*chi/sqrt((1-chi)(1+chi))."""
    chi = np.asarray(chi, dtype=float)
    return L * chi / np.sqrt((1.0 - chi) * (1.0 + chi))


def simple_pz(rz, T):
    """p_z with rho_z = tanh(p_z/2T)  <=>  p_z = T*(log(1+rho) - log(1-rho))."""
    rz = np.asarray(rz, dtype=float)
    return T * (np.log1p(rz) - np.log1p(-rz))


def simple_pp(rp, T):
    """p_par with rho_par = 1-2exp(-p/T)  <=>  p = T*(log 2 - log(1-rho))."""
    rp = np.asarray(rp, dtype=float)
    return T * (math.log(2.0) - np.log1p(-rp))


# --------------------------------------------------------------------------- three-scale map
def smoothing_width(L, r, tail, s):
    """`a` such that the smoothed step  A*(1 -+ (chi+-r)/sqrt(a^2+(chi+-r)^2))/2,  A = 2*tail - L/r,
    equals s*L/r at chi=0:   1 - r/sqrt(a^2+r^2) = q := 2 s L / (2 r tail - L)
    =>  a = r*sqrt(q(2-q))/(1-q).   (Docstring of Grid3Scales, parameter `smoothing`.)"""
    q = 2.0 * s * L / (2.0 * r * tail - L)
    return r * math.sqrt(q * (2.0 - q)) / abs(1.0 - q)


def admissible(L, r, tin, tout, s) -> bool:
    """Preconditions asserted by Grid3Scales._updateParameters."""
    lim = L * (0.5 + s) / r
    return L > 0 and s > 0 and 0 < r < 1 and tin > lim and tout > lim


def analyticity_radius(x, r, a_in, a_out):
    """Distance from real x to the nearest singularity of f(chi)/(1-chi^2): poles at +-1, branch
    points of the smoothed steps at -r +- i a_in and r +- i a_out."""
    x = np.asarray(x, dtype=float)
    return np.minimum(1.0 - np.abs(x), np.minimum(np.hypot(x + r, a_in), np.hypot(x - r, a_out)))


def jacobian_sup_on_disc(x, L, r, tin, tout, s, kappa=0.5):
    """Upper bound of |z'(zeta)| on the complex disc |zeta-x| <= kappa*rho(x).
    On that disc |1-zeta^2| >= (1-kappa)^2 (1-x^2) and each step function satisfies
    |(zeta-x0)/sqrt(a^2+(zeta-x0)^2)| <= (1+kappa)/(1-kappa)  (numerator <= (1+kappa) R0, each factor of the
    denominator >= (1-kappa) R0 with R0=|x-x0 -+ i a| >= rho), hence
    |f| <= |1-2s| L/r + (|A_in|+|A_out|) (1 + (1+kappa)/(1-kappa))/2 = c0 + (|A_in|+|A_out|)/(1-kappa)."""
    x = np.asarray(x, dtype=float)
    c0 = abs(1.0 - 2.0 * s) * L / r
    amp = abs(2.0 * tin - L / r) + abs(2.0 * tout - L / r)
    return (c0 + amp / (1.0 - kappa)) / ((1.0 - kappa) ** 2 * (1.0 - x * x))


def map_rounding_sum(x, L, r, tin, tout, s):
    """Sum of |coefficient_i| * (|arctanh(u_i)| + cond_i) over the five terms of the analytic integral of
    f/(1-chi^2) (divided by the overall factor 2), where u_i is the argument of the i-th arctanh and
    cond_i = (|parts of the numerator|/denominator)/|1-u_i^2| is the amplification of a relative rounding
    error of the argument.  u_i -> 1 like a^2 (1-|x|): this is what makes the map noisy for small smoothing
    and long tails.  eps*this is the unit of the rounding error of one evaluation of the map."""
    x = np.asarray(x, dtype=float)
    tot = 0.0
    for tail, x0 in ((tout, r), (tin, -r)):
        a = smoothing_width(L, r, tail, s)
        amp = abs(2.0 * r * tail - L) / r
        root = np.sqrt(a * a + (x - x0) ** 2)
        near = math.sqrt(a * a + (1.0 - r) ** 2)  # distance to the closer end of [-1,1]
        far = math.sqrt(a * a + (1.0 + r) ** 2)
        # the arguments always come in the two shapes (1 - x + root) and (1 + x - root); the one that is
        # singular at the end of [-1,1] closer to the step x0 is divided by `near`, the other by `far`
        if x0 > 0:
            forms = ((1.0 - x, root, near, 1.0 - r), (1.0 + x, -root, far, 1.0 + r))
        else:
            forms = ((1.0 + x, -root, near, 1.0 - r), (1.0 - x, root, far, 1.0 + r))
        for lin, rt, den, w in forms:
            u = (lin + rt) / den
            cond = (np.abs(lin) + np.abs(rt)) / den / np.abs(1.0 - u * u)
            at = np.abs(0.5 * np.log(np.abs((1.0 + u) / (1.0 - u))))
            tot = tot + w * amp / den * (at + cond)
    lin5 = abs(2.0 * tin + 2.0 * tout - 4.0 * s * L / r)
    tot = tot + lin5 * (np.abs(np.arctanh(x)) + np.abs(x) / (1.0 - x * x))
    return tot / 2.0


def map_noise(x, L, r, tin, tout, s, centre):
    """Bound of the absolute rounding error of z(x) = T(x) - T(0) + centre (policy: 64*eps*sum|terms|)."""
    s0 = float(map_rounding_sum(0.0, L, r, tin, tout, s))
    return 64.0 * EPS * (map_rounding_sum(x, L, r, tin, tout, s) + s0 + abs(centre))


# six-point-pair Richardson stencil: D = (16*D5(h) - D5(2h))/15 with D5 the 5-point central difference.
#   D5(h) = g - h^4 g''''/30 - h^6 g^(6)/252 - ...   =>   D = g + (48/(15*252)) h^6 g^(6)(xi)
# sum of |weights| of D <= (16*18/(12h) + 18/(24h))/15 <= (16*18+18)/(15*12 h)   (used as the rounding amplification)
THETAS = [2.0 ** -k for k in range(4, 11)]  # candidate steps h = theta*rho(x)
KAPPA = 0.5


def fd_plan(x, L, r, tin, tout, s, centre):
    """For every point choose the step h=theta*rho from the ladder that minimises the derived tolerance
    tol = rounding + truncation of the 6th-order central difference of the map:
      truncation <= (48/(15*252)) h^6 max|g^(6)|,  |g^(6)(xi)| <= 6! M/(kappa*rho - 4h)^6 (Cauchy, g=z' analytic
                    on the disc of radius kappa*rho, every stencil point xi is within 4h of x);
      rounding   <= sum|weights| * noise = (16*18 + 18)/(15*12 h) * max_stencil map_noise.
    Returns (h, tol)."""
    x = np.asarray(x, dtype=float)
    a_in = smoothing_width(L, r, tin, s)
    a_out = smoothing_width(L, r, tout, s)
    rho = analyticity_radius(x, r, a_in, a_out)
    sup = jacobian_sup_on_disc(x, L, r, tin, tout, s, KAPPA)
    tols = []
    for th in THETAS:
        h = rho * th
        noise = np.max([map_noise(x + k * h, L, r, tin, tout, s, centre) for k in (-4, -2, -1, 1, 2, 4)], axis=0)
        rounding = (16.0 * 18.0 + 18.0) / (15.0 * 12.0) * noise / h
        trunc = 48.0 / (15.0 * 252.0) * 720.0 * (th / (KAPPA - 4.0 * th)) ** 6 * sup
        tols.append(rounding + trunc)
    tols = np.array(tols)
    k = np.argmin(tols, axis=0)
    idx = np.arange(x.size)
    return (rho * np.array(THETAS)[k]), tols[k, idx]


def fd6(f, x, h):
    """(16*D5(h) - D5(2h))/15 of a vectorised real function f."""
    def d5(hh):
        return (8.0 * (f(x + hh) - f(x - hh)) - (f(x + 2.0 * hh) - f(x - 2.0 * hh))) / (12.0 * hh)

    return (16.0 * d5(h) - d5(2.0 * h)) / 15.0


# --------------------------------------------------------------------------- EOM._updateGrid rule
def update_grid_scales(widths, offsets, velocity, mean_free_path, include_off_eq, r, s):
    """Field i has the profile tanh(z/w_i + d_i): centred at -d_i*w_i with edges one width either side.
    The grid's wall spans the outermost edges; its centre is shifted by -L*ln(2)/2 (peak of d(m^2)/dz);
    tails scale like gamma (inside) and 1/gamma (outside) times the mean free path when out-of-equilibrium
    particles are included, but never below 1.05-smoothing-padded admissibility limit."""
    right, left = -math.inf, math.inf
    for w, d in zip(widths, offsets):
        c = -d * w
        right = max(right, c + w)
        left = min(left, c - w)
    L = 0.5 * (right - left)
    centre = 0.5 * (right + left) - 0.5 * L * math.log(2.0)
    gamma = 1.0 / math.sqrt((1.0 - velocity) * (1.0 + velocity))
    floor = L * (0.5 + 1.05 * s) / r
    mfp = mean_free_path if include_off_eq else 0.0
    return {"tin": max(mfp * gamma, floor), "tout": max(mfp / gamma, floor), "L": L, "centre": centre}
