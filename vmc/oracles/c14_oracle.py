"""Independent reference for C14 (collision data: load, basis change, interpolation).

Nothing here imports WallGo.  Everything is written from the *definitions*:

* momentum grid of size N (Gauss-Lobatto, end points at infinity dropped)
      rho_z^(m)   = -cos(pi m / N),      m = 1..N-1      (full grid m = 0..N)
      rho_par^(n) = -cos(pi n / (N-1)),  n = 0..N-2      (full grid n = 0..N-1)
* restricted Chebyshev bases (vanish at the dropped end points)
      Tbar_j(x)   = T_j(x) - 1 (j even),  T_j(x) - x (j odd),   j = 2..N
      Ttilde_k(y) = T_k(y) - 1,                                  k = 1..N-1
* cardinal functions = Lagrange polynomials on the FULL grid, restricted to the kept nodes.

A collision tensor C[a, alpha, beta, b, p, q] is "the operator applied to basis distribution
(p,q) of particle b, read at momentum node (alpha,beta) for particle a".  Writing a distribution
of the polynomial space either by its Chebyshev coefficients c or by its node values f,
f = T c with T[m, j] = basis_j(node_m), the same operator has the two representations
      C_card[..., m, n] = sum_{j,k} (Tz^-1)[j, m] (Tp^-1)[k, n] C_cheb[..., j, k]
      C_cheb[..., j, k] = sum_{m,n}  Tz[m, j]      Tp[n, k]     C_card[..., m, n]
Interpolation to a smaller grid N' reads the momentum dependence (a polynomial through the node
values, vanishing at the dropped end points) at the new nodes and keeps the low-order
distributions j <= N', k <= N'-1 (these are the same functions on both grids):
      C'_cheb[a, alpha', beta', b, j, k] = sum_{alpha,beta} Lz[alpha', alpha] Lp[beta', beta] C_cheb[a, alpha, beta, b, j, k]

All matrices are computed with mpmath at 40 digits and rounded once to float64.
"""
from __future__ import annotations

import functools

import mpmath as mp
import numpy as np

MP_DPS = 40
EPS = float(np.finfo(float).eps)

# ---- distinct-integer encoding ---------------------------------------------------------
# code(a,b,alpha,beta,j,k) is a mixed-radix number in 1..9*16^4; it is scrambled by the modular
# inverse modulo a prime (a bijection of 1..PRIME-1, strongly non-linear) so that the tensor is
# not a smooth/low-rank function of the indices: the slices of the tensor must span the whole
# input space of the linear maps under test (checked by the harness, see c14.probe_completeness;
# a multiplicative scramble  code*m mod p  is piecewise linear and has rank 6 only).
RADIX = 16  # >= largest basis size used (stored N <= 15 -> size 14)
PRIME = 600011  # prime > 9 * 16**4 = 589824


@functools.lru_cache(maxsize=None)
def _encode_cached(a: int, b: int, S: int) -> np.ndarray:
    al, be, j, k = np.meshgrid(np.arange(S), np.arange(S), np.arange(S), np.arange(S), indexing="ij")
    code = k + RADIX * (j + RADIX * (be + RADIX * (al + RADIX * (b + 3 * a)))) + 1
    v = np.array([pow(int(c), -1, PRIME) for c in code.ravel()], dtype=float).reshape(code.shape)
    v.setflags(write=False)
    return v


def encode(a: int, b: int, S: int, offset: int = 0) -> np.ndarray:
    """(S,S,S,S) float array [alpha,beta,j,k] of distinct integers for the ordered pair of GLOBAL particle ids (a,b)."""
    return _encode_cached(a, b, S) + float(offset)


def decode(v: float, offset: int = 0):
    """Inverse of encode for one entry: (a,b,alpha,beta,j,k), or None if v is not a stored integer."""
    if not np.isfinite(v) or v != round(v):
        return None
    w = int(round(v)) - offset
    if not 0 < w < PRIME:
        return None
    c = pow(w, -1, PRIME) - 1
    k, c = c % RADIX, c // RADIX
    j, c = c % RADIX, c // RADIX
    be, c = c % RADIX, c // RADIX
    al, c = c % RADIX, c // RADIX
    b, a = c % 3, c // 3
    if a > 2:
        return None
    return (a, b, al, be, j, k)


# ---- grids and basis functions ---------------------------------------------------------
def _rz_full(N: int):
    return [-mp.cos(mp.pi * m / N) for m in range(N + 1)]


def _rp_full(N: int):
    return [-mp.cos(mp.pi * n / (N - 1)) for n in range(N)]


def rz_nodes(N: int):
    return _rz_full(N)[1:N]


def rp_nodes(N: int):
    return _rp_full(N)[0 : N - 1]


def _cheb(n: int, x):
    # three-term recurrence (valid for any real x, no arccos)
    t0, t1 = mp.mpf(1), x
    if n == 0:
        return t0
    for _ in range(n - 1):
        t0, t1 = t1, 2 * x * t1 - t0
    return t1


def tbar(j: int, x):
    return _cheb(j, x) - (1 if j % 2 == 0 else x)


def ttilde(k: int, y):
    return _cheb(k, y) - 1


def _to_np(M) -> np.ndarray:
    return np.array([[float(M[i, j]) for j in range(M.cols)] for i in range(M.rows)])


@functools.lru_cache(maxsize=None)
def basis_matrices(N: int):
    """(Tz, Tz^-1, Tp, Tp^-1, cond_z, cond_p) for grid size N, all (N-1)x(N-1) float64."""
    with mp.workdps(MP_DPS):
        xz, xp = rz_nodes(N), rp_nodes(N)
        S = N - 1
        Tz = mp.matrix(S, S)
        Tp = mp.matrix(S, S)
        for m in range(S):
            for j in range(S):
                Tz[m, j] = tbar(j + 2, xz[m])
                Tp[m, j] = ttilde(j + 1, xp[m])
        Tzi, Tpi = Tz ** -1, Tp ** -1
        out = tuple(_to_np(M) for M in (Tz, Tzi, Tp, Tpi))
    cz = float(np.linalg.norm(out[0], 2) * np.linalg.norm(out[1], 2))
    cp = float(np.linalg.norm(out[2], 2) * np.linalg.norm(out[3], 2))
    return out + (cz, cp)


def _lagrange(full, keep: range, targets) -> np.ndarray:
    """L[t, i] = l_{keep[i]}(targets[t]) for the Lagrange polynomials on the node set `full`."""
    L = np.zeros((len(targets), len(keep)))
    for t, x in enumerate(targets):
        for c, i in enumerate(keep):
            num, den = mp.mpf(1), mp.mpf(1)
            for q, xq in enumerate(full):
                if q != i:
                    num *= x - xq
                    den *= full[i] - xq
            L[t, c] = float(num / den)
    return L


@functools.lru_cache(maxsize=None)
def interp_matrices(Nsrc: int, Ntgt: int):
    """(Lz, Lp): source cardinal functions at the target nodes; shapes (Ntgt-1, Nsrc-1)."""
    with mp.workdps(MP_DPS):
        Lz = _lagrange(_rz_full(Nsrc), range(1, Nsrc), rz_nodes(Ntgt))
        Lp = _lagrange(_rp_full(Nsrc), range(0, Nsrc - 1), rp_nodes(Ntgt))
    return Lz, Lp


def nodes_float(N: int):
    with mp.workdps(MP_DPS):
        return np.array([float(x) for x in rz_nodes(N)]), np.array([float(x) for x in rp_nodes(N)])


# ---- linear maps with a-priori rounding bounds -----------------------------------------
class Tracked:
    """A tensor together with (i) sum of |terms| that produced it and (ii) an accumulated bound on the
    rounding error the code under test may legitimately have made reaching it.

    Every step is  X -> A (x) B acting on two axes.  If the implementation uses matrices with a
    relative (norm-wise) error  kappa*eps  and sums in floating point, the error of the step is bounded by
    FACTOR * eps * (kappa_A + kappa_B + #terms^(1/2)... ) * |A||B||X|; we use the cruder and safer
    FACTOR*eps*(kappa_A+kappa_B) * max|A| max|B| * (ones (x) ones)|X|  (matrix entries replaced by their
    max modulus, because a norm-wise bound on an inverse says nothing about its small entries)."""

    FACTOR = 64.0

    def __init__(self, val: np.ndarray, absval: np.ndarray | None = None, bound: np.ndarray | None = None):
        self.val = val
        self.absval = np.abs(val) if absval is None else absval
        self.bound = np.zeros_like(val) if bound is None else bound

    def apply(self, A: np.ndarray, B: np.ndarray, axes: tuple[int, int], kappa: float, exact: bool = False) -> "Tracked":
        """new[..., r, s, ...] = sum_{p,q} A[r,p] B[s,q] old[..., p, q, ...] on the two given axes."""
        def two(X, P, Q):
            Y = np.moveaxis(np.tensordot(P, X, axes=(1, axes[0])), 0, axes[0])
            return np.moveaxis(np.tensordot(Q, Y, axes=(1, axes[1])), 0, axes[1])

        val = two(self.val, A, B)
        absval = two(self.absval, np.abs(A), np.abs(B))
        bound = two(self.bound, np.abs(A), np.abs(B))
        if not exact:
            crude = two(self.absval, np.full_like(A, np.max(np.abs(A))), np.full_like(B, np.max(np.abs(B))))
            bound = bound + self.FACTOR * EPS * kappa * crude
        return Tracked(val, absval, bound)


def change_basis(x: Tracked, N: int, frm: str, to: str, exact: bool = False) -> Tracked:
    """Operator representation change on the two distribution axes (last two axes)."""
    if frm == to:
        return x
    Tz, Tzi, Tp, Tpi, cz, cp = basis_matrices(N)
    nd = x.val.ndim
    if to == "Cardinal":  # C_card[m,n] = sum_jk Tzi[j,m] Tpi[k,n] C_cheb[j,k]
        return x.apply(Tzi.T, Tpi.T, (nd - 2, nd - 1), cz + cp, exact)
    return x.apply(Tz.T, Tp.T, (nd - 2, nd - 1), cz + cp, exact)  # C_cheb[j,k] = sum_mn Tz[m,j] Tp[n,k] C_card[m,n]


def interpolate(x_cheb: Tracked, Nsrc: int, Ntgt: int, mom_axes: tuple[int, int]) -> Tracked:
    """Momentum axes read at the target nodes, distribution axes truncated to the low orders."""
    Lz, Lp = interp_matrices(Nsrc, Ntgt)
    St = Ntgt - 1
    # product formula of the cardinal functions: ~Nsrc factors each with O(eps) relative error
    y = x_cheb.apply(Lz, Lp, mom_axes, 4.0 * Nsrc)
    return Tracked(y.val[..., :St, :St], y.absval[..., :St, :St], y.bound[..., :St, :St])
