"""Oracle for C13 (out-of-equilibrium moments and the stress tensor built from them).

Everything here is written from the *definitions*:
  * property statement: Delta_w = int d^3p/((2 pi)^3 E) w(p) deltaF(p), w in {1, pz^2, E^2, E pz};
  * Grid docstring: rho_z = tanh(pz/(2 T0)), rho_par = 1 - 2 exp(-p_par/T0), Gauss-Lobatto nodes
    rho_z = -cos(pi b/N) (b=1..N-1 kept), rho_par = -cos(pi g/(N-1)) (g=0..N-2 kept);
  * Gauss-Chebyshev-Lobatto rule: int_{-1}^{1} G(x)/sqrt(1-x^2) dx = (pi/n) sum'' G(x_k), exact for deg G <= 2n-1;
  * T^{mu nu} = int d^3p/((2 pi)^3 E) p^mu p^nu deltaF, transformed with a 4x4 Lorentz matrix.
No WallGo function is called from this file.
"""
from __future__ import annotations

import math
from fractions import Fraction
from functools import lru_cache

import mpmath as mp
import numpy as np

EPS = float(np.finfo(float).eps)
WEIGHTS = ("00", "02", "20", "11")  # names as in BoltzmannDeltas: Delta<mn> <-> E^m pz^n


# ----------------------------------------------------------------------------- closed-form Chebyshev moments
def cheb_moment_fraction(a: int) -> Fraction:
    """I_a / pi with I_a = int_{-1}^{1} sqrt(1-x^2) x^a dx  (0 for odd a; I_0 = pi/2, I_a = I_{a-2} (a-1)/(a+2))."""
    if a % 2:
        return Fraction(0)
    f = Fraction(1, 2)
    for k in range(2, a + 1, 2):
        f = f * Fraction(k - 1, k + 2)
    return f


def cheb_moment(a: int) -> float:
    return float(cheb_moment_fraction(a)) * math.pi


def _selfcheck_moments() -> None:
    mp.mp.dps = 30
    for a in (0, 1, 2, 4, 7, 10, 26):
        ref = mp.quad(lambda x: mp.sqrt(1 - x * x) * x**a, [-1, 0, 1])
        mine = mp.mpf(cheb_moment_fraction(a).numerator) / cheb_moment_fraction(a).denominator * mp.pi
        assert abs(ref - mine) < mp.mpf(10) ** (-20), (a, ref, mine)


_selfcheck_moments()


# ----------------------------------------------------------------------------- grid geometry (from the docstrings)
def nodes(N: int):
    """Kept momentum nodes in compact coordinates."""
    rz = -np.cos(np.pi * np.arange(1, N) / N)
    rp = -np.cos(np.pi * np.arange(0, N - 1) / (N - 1))
    return rz, rp


def z_nodes(M: int, endpoints: bool = False):
    k = np.arange(0, M + 1) if endpoints else np.arange(1, M)
    return -np.cos(np.pi * k / M)


def geometry(N: int, T0: float, msq: np.ndarray) -> dict:
    """msq: (P, Z) squared masses at the kept z points. Everything is returned with axes (P, Z, pz, pp)."""
    rz, rp = nodes(N)
    pz = 2.0 * T0 * np.arctanh(rz)  # inverse of rho_z = tanh(pz / 2 T0)
    pp = -T0 * np.log((1.0 - rp) / 2.0)  # inverse of rho_par = 1 - 2 exp(-pp/T0)
    dpz = 2.0 * T0 / (1.0 - rz**2)  # d pz / d rho_z
    dpp = T0 / (1.0 - rp)  # d pp / d rho_par
    PZ = pz[None, None, :, None]
    PP = pp[None, None, None, :]
    E = np.sqrt(msq[:, :, None, None] + PZ**2 + PP**2)
    # d^3p/((2 pi)^3 E) = pp dpp dpz dphi / ((2 pi)^3 E) -> (after the trivial phi integral) pp dpp dpz / (4 pi^2 E)
    J = dpz[None, None, :, None] * dpp[None, None, None, :] * PP / (4.0 * math.pi**2 * E)
    return dict(rz=rz, rp=rp, pz=pz, pp=pp, PZ=PZ, PP=PP, E=E, J=J, dpz=dpz, dpp=dpp)


def weight(name: str, E, PZ):
    if name == "00":
        return np.ones_like(E)
    if name == "02":
        return PZ**2 + 0.0 * E
    if name == "20":
        return E**2
    if name == "11":
        return E * PZ
    raise KeyError(name)


def gcl_functional(N: int, geo: dict, wname: str) -> np.ndarray:
    """Weights W (P,Z,pz,pp) such that the Gauss-Chebyshev-Lobatto approximation of Delta_w is sum W * deltaF(grid).

    int dx g(x) = int [g sqrt(1-x^2)]/sqrt(1-x^2) dx ~ (pi/n) sum'' g(x_k) sqrt(1-x_k^2);  n = N for rho_z (both end
    nodes dropped: they carry g sqrt = 0), n = N-1 for rho_par (node rho_par=-1 kept with the Lobatto half weight).
    """
    rz, rp = geo["rz"], geo["rp"]
    qz = (math.pi / N) * np.sqrt(1.0 - rz**2)
    qp = (math.pi / (N - 1)) * np.sqrt(1.0 - rp**2)
    qp[0] *= 0.5
    return qz[None, None, :, None] * qp[None, None, None, :] * geo["J"] * weight(wname, geo["E"], geo["PZ"])


# ----------------------------------------------------------------------------- restricted Chebyshev bases
def _cheb(n, x):
    return np.cos(n * np.arccos(np.clip(x, -1.0, 1.0)))


def tbar_matrix(direction: str, M: int, N: int) -> np.ndarray:
    """Matrix B[i, j] = (restricted Chebyshev polynomial j)(node i) for coefficient <-> grid value conversion.

    z and pz: T_n - 1 (n even), T_n - x (n odd), n = 2..M (resp. N); pp: T_n - 1, n = 1..N-1 (Polynomial docstrings).
    """
    if direction == "z":
        x = z_nodes(M)
        n = np.arange(2, M + 1)
    elif direction == "pz":
        x = nodes(N)[0]
        n = np.arange(2, N + 1)
    else:
        x = nodes(N)[1]
        n = np.arange(1, N)
        return _cheb(n[None, :], x[:, None]) - 1.0
    return _cheb(n[None, :], x[:, None]) - np.where(n[None, :] % 2 == 0, 1.0, x[:, None])


# ----------------------------------------------------------------------------- mpmath references for a smooth family
# deltaF(E, pz) = (k0 + k1 pz/T + k2 E pz/T^2 + k3 pz^2/T^2) exp(-E/T)
def family_np(ks, T, E, PZ):
    k0, k1, k2, k3 = ks
    return (k0 + k1 * PZ / T + k2 * E * PZ / T**2 + k3 * PZ**2 / T**2) * np.exp(-E / T)


def _family_poly_mp(ks, T, E, pz):
    """polynomial prefactor of the family; deltaF = prefactor * exp(-E/T)"""
    k0, k1, k2, k3 = ks
    return k0 + k1 * pz / T + k2 * E * pz / T**2 + k3 * pz * pz / T**2


def _family_mp(ks, T, E, pz):
    return _family_poly_mp(ks, T, E, pz) * mp.exp(-E / T)


def _weight_mp(name, E, pz, pp2):
    return {"00": 1, "02": pz * pz, "20": E * E, "11": E * pz, "perp": pp2}[name]


@lru_cache(maxsize=None)
def _gauss_legendre(n: int, dps: int):
    mp.mp.dps = dps + 10
    # coefficients of P_n by the exact three-term recurrence (k+1) P_{k+1} = (2k+1) x P_k - k P_{k-1}
    P0, P1 = [Fraction(1)], [Fraction(0), Fraction(1)]  # ascending powers
    for k in range(1, n):
        xP = [Fraction(0)] + P1
        P2 = [(Fraction(2 * k + 1) * xP[i] - (Fraction(k) * P0[i] if i < len(P0) else 0)) / (k + 1) for i in range(len(xP))]
        P0, P1 = P1, P2
    coeffs = [mp.mpf(c.numerator) / c.denominator for c in reversed(P1)]
    xs = sorted(mp.re(z) for z in mp.polyroots(coeffs, maxsteps=500, extraprec=200))
    # P_n'(x) = n (x P_n - P_{n-1}) / (x^2 - 1);  w = 2 / ((1 - x^2) P_n'(x)^2)
    dP = [n * (x * mp.legendre(n, x) - mp.legendre(n - 1, x)) / (x * x - 1) for x in xs]
    ws = [2 / ((1 - x * x) * d * d) for x, d in zip(xs, dP)]
    assert len({mp.nstr(x, 15) for x in xs}) == n, "Gauss-Legendre nodes not distinct"
    assert abs(sum(ws) - 2) < mp.mpf(10) ** (-dps), "Gauss-Legendre weights do not sum to 2"
    assert abs(sum(w * x**6 for x, w in zip(xs, ws)) - mp.mpf(2) / 7) < mp.mpf(10) ** (-dps)
    return tuple(xs), tuple(ws)


@lru_cache(maxsize=None)
def moment_ref(ks: tuple, T: float, m: float, name: str, dps: int = 20):
    """int d^3p/((2pi)^3 E) w deltaF in spherical coordinates (pz = p c): p^2 dp dc /(4 pi^2 E).

    At fixed p the angular integrand is a polynomial in c of degree <= 4 (E does not depend on c), integrated exactly by a
    6-point Gauss-Legendre rule (exact to degree 11) carried at mp precision; the radial integral by mp.quad (tanh-sinh).
    name in WEIGHTS or "perp" (weight p_par^2 = p^2 (1-c^2)).
    """
    xs, wq = _gauss_legendre(6, dps)
    mp.mp.dps = dps
    Tm, mm = mp.mpf(T), mp.mpf(m)
    km = tuple(mp.mpf(repr(k)) if not isinstance(k, int) else mp.mpf(k) for k in ks)

    def radial(p):
        E = mp.sqrt(mm * mm + p * p)
        s = mp.mpf(0)
        for c, w in zip(xs, wq):
            pz = p * c
            s += w * _weight_mp(name, E, pz, p * p * (1 - c * c)) * _family_poly_mp(km, Tm, E, pz)
        return p * p / (4 * mp.pi**2 * E) * s * mp.exp(-E / Tm)

    return mp.quad(radial, [0, Tm, 4 * Tm, mp.inf])


def moment_ref_cartesian(ks: tuple, T: float, m: float, name: str, dps: int = 15):
    """The same integral literally as in the property statement: dpz dpp pp/(4 pi^2 E) (slow; oracle self-check only)."""
    mp.mp.dps = dps
    Tm, mm = mp.mpf(T), mp.mpf(m)
    km = tuple(mp.mpf(repr(k)) if not isinstance(k, int) else mp.mpf(k) for k in ks)

    def f(pz, pp):
        E = mp.sqrt(mm * mm + pz * pz + pp * pp)
        return pp / (4 * mp.pi**2 * E) * _weight_mp(name, E, pz, pp * pp) * _family_mp(km, Tm, E, pz)

    return mp.quad(f, [-mp.inf, 0, mp.inf], [0, mp.inf])


# ----------------------------------------------------------------------------- stress tensor and Lorentz boost
def lorentz(v: float) -> np.ndarray:
    """Components in the wall frame = L @ components in the frame that moves with velocity v along +z w.r.t. the wall
    (a particle at rest in the moving frame, (1,0,0,0), has wall-frame four-velocity gamma (1,0,0,v))."""
    g = 1.0 / math.sqrt(1.0 - v * v)
    L = np.eye(4)
    L[0, 0] = g
    L[3, 3] = g
    L[0, 3] = g * v
    L[3, 0] = g * v
    return L


def tmunu_plasma(T00: float, T03: float, T33: float, Tperp: float) -> np.ndarray:
    """4x4 tensor int p^mu p^nu deltaF for an azimuthally symmetric deltaF, p = (E, px, py, pz):
    <px^2> = <py^2> = <p_par^2>/2, all components with a single px or py vanish."""
    T = np.zeros((4, 4))
    T[0, 0] = T00
    T[0, 3] = T[3, 0] = T03
    T[3, 3] = T33
    T[1, 1] = T[2, 2] = 0.5 * Tperp
    return T


def boost_tensor(Tpl: np.ndarray, v: float) -> np.ndarray:
    L = lorentz(v)
    return L @ Tpl @ L.T
