"""Reference model for C18 (InterpolatableFunction contract).  Shares no code with WallGo.

Contents
* the test functions F(kind, x) with analytic derivatives (these are the *user* functions that the
  WallGo objects under test wrap; they are not WallGo code);
* RefTable: the reference interpolation table = the abscissae of a state + the oracle's own F(x)
  on them + a scipy CubicSpline built by the oracle (not-a-knot, which is what "cubic
  interpolation" in WallGo's documentation resolves to: scipy's default) + the Lebesgue
  function of that spline (used to *derive* the comparison tolerance);
* the mode semantics (what an out-of-range entry must be for ERROR/NONE/CONSTANT/FUNCTION);
* the expected abscissae after newInterpolationTable / extendInterpolationTable / adaptive update;
* the documented accounting of direct evaluations (adaptive threshold).
"""
from __future__ import annotations

import numpy as np
from scipy.interpolate import CubicSpline

EPS = float(np.finfo(float).eps)

MODES = ("ERROR", "NONE", "CONSTANT", "FUNCTION")
LETTER = {"ERROR": "E", "NONE": "N", "CONSTANT": "C", "FUNCTION": "F"}

# number of return values per object kind
KINDS = {"s1": 1, "v2": 2, "v3": 3, "v4": 4, "s1nan": 1, "v2nan": 2}

# bounds on |f''''| per component on the explored x range [-2.5, 3.5]  (sin, cos(1.3x), x^2/2, exp(-x/2))
M4 = np.array([1.0, 1.3**4, 0.0, np.exp(1.25) / 16.0])
# bound on |f^(5)|, |f^(6)| over all components (1.3^6 = 4.83)
M56 = 5.0


def nan_zone(x: np.ndarray) -> np.ndarray:
    """Where the '...nan' kinds are undefined: an interior sub-interval and everything far to the left."""
    return ((x > 0.33) & (x < 0.52)) | (x < -0.42)


def _components(x: np.ndarray, order: int) -> list[np.ndarray]:
    if order == 0:
        return [np.sin(x), np.cos(1.3 * x), 0.5 * x * x, np.exp(-0.5 * x)]
    if order == 1:
        return [np.cos(x), -1.3 * np.sin(1.3 * x), x + 0.0, -0.5 * np.exp(-0.5 * x)]
    if order == 2:
        return [-np.sin(x), -1.69 * np.cos(1.3 * x), np.ones_like(x), 0.25 * np.exp(-0.5 * x)]
    raise ValueError(order)


def F(kind: str, x, order: int = 0):
    """f(x) (order 0) or its analytic derivative; shape x.shape (+ (k,) for vector kinds)."""
    x = np.asarray(x, dtype=float)
    k = KINDS[kind]
    comps = _components(x, order)[:k]
    if kind == "s1":
        return comps[0]
    if kind == "s1nan":
        return np.where(nan_zone(x), np.nan, comps[0])
    if kind == "v2nan":
        comps = [comps[0], np.where(nan_zone(x), np.nan, comps[1])]
    return np.stack(comps, axis=-1)


def rows(kind: str, x) -> np.ndarray:
    """F as a 2-D array (len(x), k) for a flat x."""
    x = np.asarray(x, dtype=float).ravel()
    return np.asarray(F(kind, x)).reshape(len(x), -1)


def finite_row(kind: str, x) -> np.ndarray:
    return np.all(np.isfinite(rows(kind, x)), axis=1)


# --------------------------------------------------------------------------- reference table
class RefTable:
    """Reference spline on the given abscissae with the oracle's own function values."""

    def __init__(self, kind: str, pts: np.ndarray):
        self.kind = kind
        self.k = KINDS[kind]
        self.pts = np.asarray(pts, dtype=float)
        self.vals = rows(kind, self.pts)
        self.rmin = float(self.pts[0])
        self.rmax = float(self.pts[-1])
        self.hmax = float(np.max(np.diff(self.pts)))
        self.vmax = max(1.0, float(np.max(np.abs(self.vals))))
        spl = CubicSpline(self.pts, self.vals, axis=0, extrapolate=True)
        leb = CubicSpline(self.pts, np.eye(len(self.pts)), axis=0, extrapolate=True)
        self.spl = [spl, spl.derivative(1), spl.derivative(2)]
        self.leb = [leb, leb.derivative(1), leb.derivative(2)]

    def lebesgue(self, x: np.ndarray, order: int = 0) -> np.ndarray:
        return np.sum(np.abs(self.leb[order](x)), axis=-1)

    def value(self, x: np.ndarray, order: int = 0):
        """(spline^(order)(x) as (m,k), tolerance (m,)).

        Tolerance derivation: the spline (derivative) at x is the linear functional sum_i L_i(x) v_i of the
        table values, so a perturbation dv of the values moves it by at most Lambda(x)*dv with
        Lambda = sum_i |L_i(x)| (computed here from the spline of the identity matrix).  The stored values may
        differ from F(abscissa) by the %.15g rounding of a write/read round trip of value and abscissa
        (<= 5e-15 (|v| + |f' x|) <= 2.5e-14 max|v| on the explored range; 1e-13 used = 4x that bound) and both
        splines are evaluated in floating point (64 eps).
        """
        x = np.asarray(x, dtype=float).ravel()
        val = np.asarray(self.spl[order](x)).reshape(len(x), -1)
        tol = self.lebesgue(x, order) * (1e-13 + 64 * EPS) * self.vmax
        return val, tol

    def accuracy_tol(self) -> np.ndarray:
        """|spline - f| <= K hmax^4 max|f''''| per component with K = 1 (the sharp constant of the complete
        spline is 5/384; not-a-knot end conditions and the mesh ratios <= 4 of the explored tables cost a modest
        factor, K = 1 leaves ~50x head-room), plus 1e-11 for the exactly reproduced polynomial component."""
        return self.hmax**4 * M4[: self.k] + 1e-11


def fd_step(order: int) -> float:
    """Step of helpers.derivative for epsilon=1e-16, scale=1, 4th-order scheme (documented default)."""
    return 1e-16 ** (1.0 / (order + 4))


def fd_tol(order: int, magnitude) -> np.ndarray:
    """Error bound of a 4th-order central finite difference of a function of size `magnitude`:
    rounding 64 eps sum|c_i| |f| / h^n (sum|c_i| = 3/2 resp. 16/3) + truncation h^4 M/30 resp. h^4 M/90."""
    h = fd_step(order)
    csum = 1.5 if order == 1 else 16.0 / 3.0
    trunc = h**4 * M56 / (30.0 if order == 1 else 90.0)
    return 64 * EPS * csum * np.asarray(magnitude, dtype=float) / h**order + trunc


# --------------------------------------------------------------------------- evaluation semantics
def fd_stencil_defined(kind: str, x: np.ndarray, order: int) -> np.ndarray:
    """True where f is defined on the whole 5-point stencil x + {-2..2} h of the finite-difference derivative
    (precondition of differentiating the function itself: next to the undefined zone the result is NaN by nature)."""
    h = fd_step(order)
    ok = np.ones(len(x), bool)
    for j in (-2, -1, 0, 1, 2):
        ok &= finite_row(kind, x + j * h * 1.0000001) & finite_row(kind, x + j * h * 0.9999999)
    return ok


def predict(kind: str, ref: RefTable | None, modes: tuple[str, str], x, order: int = 0) -> dict:
    """What evaluate (order 0) / derivative (order 1, 2) must return for the flat input x.

    ref None = no table (or interpolation switched off by the caller): everything is a direct evaluation.
    Returns {"raise": bool, "exp": (m,k), "tol": (m,), "cls": (m,) of 'in'|'lo'|'hi'|'direct', "direct": (m,) bool,
    "skip": (m,) bool = entries whose finite-difference stencil touches the zone where f is undefined (not compared)}
    'direct' marks the entries the contract sends to the underlying function (these count for the adaptive update).
    """
    x = np.asarray(x, dtype=float).ravel()
    m = len(x)
    k = KINDS[kind]
    exact = np.asarray(F(kind, x, order)).reshape(m, -1)
    if ref is None:
        # the function itself (8 eps |f|, |f| <= 5) or its finite-difference derivative
        tol = (8 * EPS * 5.0 if order == 0 else fd_tol(order, 5.0)) * np.ones(m)
        skip = ~fd_stencil_defined(kind, x, order) if order > 0 else np.zeros(m, bool)
        return {"raise": False, "exp": exact, "tol": tol, "cls": np.array(["direct"] * m), "direct": np.ones(m, bool), "skip": skip}
    lo = x < ref.rmin
    hi = x > ref.rmax
    cls = np.where(lo, "lo", np.where(hi, "hi", "in"))
    if (np.any(lo) and modes[0] == "ERROR") or (np.any(hi) and modes[1] == "ERROR"):
        return {"raise": True, "cls": cls, "direct": np.zeros(m, bool), "skip": np.zeros(m, bool)}
    sval, stol = ref.value(x, order)
    lam0 = ref.lebesgue(x, 0)
    exp = np.array(sval, dtype=float)
    tol = np.array(stol, dtype=float)
    direct = np.zeros(m, bool)
    skip = np.zeros(m, bool)
    for mask, mode, edge in ((lo, modes[0], ref.rmin), (hi, modes[1], ref.rmax)):
        if not np.any(mask):
            continue
        if mode == "NONE":  # re-evaluate the function itself
            exp[mask] = exact[mask]
            direct |= mask
            tol[mask] = 8 * EPS * 5.0 if order == 0 else fd_tol(order, 5.0)
            if order > 0:
                skip |= mask & ~fd_stencil_defined(kind, x, order)
        elif mode == "CONSTANT":  # the boundary value; its derivative vanishes
            ev, et = ref.value(np.array([edge]), 0)
            if order == 0:
                exp[mask] = ev[0]
                tol[mask] = et[0]
            else:
                exp[mask] = 0.0
                tol[mask] = fd_tol(order, np.max(np.abs(ev)))
        elif mode == "FUNCTION":  # the spline continued beyond its last interval
            if order > 0:
                # the code differentiates the extrapolated spline by finite differences: exact for a cubic up to
                # rounding of the spline values (eps * Lambda * vmax each) amplified by 1/h^n
                tol[mask] = stol[mask] + fd_tol(order, np.maximum(5.0, lam0[mask] * ref.vmax))
    return {"raise": False, "exp": exp, "tol": tol, "cls": cls, "direct": direct, "skip": skip}


# --------------------------------------------------------------------------- tables
def expected_newtable(kind: str, a: float, b: float, n: int) -> np.ndarray:
    pts = np.array([a + (b - a) * i / (n - 1) for i in range(n)]) if n > 1 else np.array([a])
    if n > 1:
        pts[-1] = b
    return pts[finite_row(kind, pts)]


def expected_extend(kind: str, pre_pts: np.ndarray | None, newMin: float, newMax: float, nMin: int, nMax: int):
    """(required abscissae, optional overshoot abscissa or None).

    Documented rule: nMin equally spaced new points on [newMin, rangeMin) and nMax on (rangeMax, newMax];
    existing rows stay; new rows with a non-finite component are left out individually.  One extra point one
    spacing above newMax is *tolerated* (np.arange end-point rounding; the property does not fix the count).
    """
    if pre_pts is None:
        return expected_newtable(kind, newMin, newMax, nMin + nMax), None
    rmin, rmax = float(pre_pts[0]), float(pre_pts[-1])
    # A side whose requested extension is of rounding size (e.g. back to a nominal end after a 15-digit write/read round
    # trip) cannot receive new, well separated abscissae: the only outcome compatible with "abscissae stay strictly
    # increasing and distinct" is that this side is left as it is.
    tiny = 1e-10 * max(1.0, abs(rmin), abs(rmax))
    left = np.array([newMin + i * (rmin - newMin) / nMin for i in range(nMin)]) if (rmin - newMin > tiny and nMin > 0) else np.array([])
    opt = None
    if newMax - rmax > tiny and nMax > 0:
        sp = (newMax - rmax) / nMax
        right = np.array([rmax + i * sp for i in range(1, nMax + 1)])
        o = rmax + (nMax + 1) * sp
        if finite_row(kind, [o])[0]:
            opt = float(o)
    else:
        right = np.array([])
    left = left[finite_row(kind, left)] if len(left) else left
    right = right[finite_row(kind, right)] if len(right) else right
    return np.concatenate((left, np.asarray(pre_pts, dtype=float), right)), opt


def match_abscissae(real: np.ndarray, required: np.ndarray, optional: float | None):
    """-> (ok, overshoot_used)."""
    real = np.asarray(real, dtype=float)

    def same(a, b):
        return len(a) == len(b) and bool(np.all(np.abs(a - b) <= 1e-12 * np.maximum(1.0, np.abs(b))))

    if same(real, required):
        return True, False
    if optional is not None and same(real, np.concatenate((required, [optional]))):
        return True, True
    return False, False


# --------------------------------------------------------------------------- adaptive accounting
def predict_pending(kind: str, count: int, pmin, pmax, thr: int, xdirect) -> dict:
    """One direct call on the points xdirect with adaptive interpolation on: every distinct point with a
    finite value is remembered; when the number remembered reaches the threshold the table is extended
    to cover [min, max] of the remembered points and the memory is cleared."""
    xd = np.unique(np.asarray(xdirect, dtype=float).ravel())
    xd = xd[finite_row(kind, xd)] if len(xd) else xd
    if len(xd) == 0:
        return {"count": count, "min": pmin, "max": pmax, "trigger": False}
    lo = float(np.min(xd)) if pmin is None else min(pmin, float(np.min(xd)))
    hi = float(np.max(xd)) if pmax is None else max(pmax, float(np.max(xd)))
    count += len(xd)
    if count >= thr:
        return {"count": 0, "min": None, "max": None, "trigger": True, "tmin": lo, "tmax": hi}
    return {"count": count, "min": lo, "max": hi, "trigger": False}
