"""Analytic equations of state used as oracles, and the WallGo.Thermodynamics objects
built from them (the same way the repository's own tests build theirs: a subclass that
overrides p/dp/ddp analytically; e, w, cs^2 then come from the real base class).

The oracle side (p, e, w, csq below) is plain Python and shares no code with WallGo.
"""
from __future__ import annotations

from dataclasses import dataclass

import numpy as np


@dataclass
class _Range:
    minPossibleTemperature: list
    maxPossibleTemperature: list


class EOS:
    """p_s(T) (high-T / symmetric, in front) and p_b(T) (low-T / broken, behind) + derivatives."""

    name = "eos"

    def p(self, ph: str, T):
        raise NotImplementedError

    def dp(self, ph: str, T):
        raise NotImplementedError

    def ddp(self, ph: str, T):
        raise NotImplementedError

    # derived, by the oracle's own algebra
    def w(self, ph, T):
        return T * self.dp(ph, T)

    def e(self, ph, T):
        return T * self.dp(ph, T) - self.p(ph, T)

    def csq(self, ph, T):
        return self.dp(ph, T) / (T * self.ddp(ph, T))

    def alpha_n(self, Tn):
        """alpha of the template convention at Tn: ((e_s-e_b) - (p_s-p_b)/cb^2)/(3 w_s)"""
        cb2 = self.csq("b", Tn)
        return ((self.e("s", Tn) - self.e("b", Tn)) - (self.p("s", Tn) - self.p("b", Tn)) / cb2) / (3 * self.w("s", Tn))

    def ident(self) -> str:
        return self.name

    def thermo(self, Tn: float, ranges=None):
        """WallGo.Thermodynamics whose p/dp/ddp are this EOS. ranges = dict(TMinHighT=.., TMaxHighT=.., TMinLowT=.., TMaxLowT=.., flagHigh=bool, flagLow=bool)."""
        import WallGo

        eos = self
        rg = dict(TMinHighT=1e-3 * Tn, TMaxHighT=1e3 * Tn, TMinLowT=1e-3 * Tn, TMaxLowT=1e3 * Tn, flagHigh=False, flagLow=False)
        if ranges:
            rg.update(ranges)

        class _Thermo(WallGo.Thermodynamics):
            def __init__(self):  # noqa: D401 - deliberately not calling the base constructor (as the repo's tests do)
                self.Tnucl = Tn
                self.freeEnergyHigh = _Range([rg["TMinHighT"], False], [rg["TMaxHighT"], rg["flagHigh"]])
                self.freeEnergyLow = _Range([rg["TMinLowT"], False], [rg["TMaxLowT"], rg["flagLow"]])
                self.TMinHighT, self.TMaxHighT = rg["TMinHighT"], rg["TMaxHighT"]
                self.TMinLowT, self.TMaxLowT = rg["TMinLowT"], rg["TMaxLowT"]

            def pHighT(self, T):
                return eos.p("s", T)

            def dpHighT(self, T):
                return eos.dp("s", T)

            def ddpHighT(self, T):
                return eos.ddp("s", T)

            def pLowT(self, T):
                return eos.p("b", T)

            def dpLowT(self, T):
                return eos.dp("b", T)

            def ddpLowT(self, T):
                return eos.ddp("b", T)

        return _Thermo()


class Template(EOS):
    """p_s = a+ T^mu/3 - eps, p_b = a- T^nu/3; parametrised at Tn by (alpha_n, psi_n, cb2, cs2), w_s(Tn)=wn."""

    def __init__(self, alN, psiN, cb2, cs2, Tn, wn=1.0):
        self.alN, self.psiN, self.cb2, self.cs2, self.Tn, self.wn = alN, psiN, cb2, cs2, Tn, wn
        self.mu = 1 + 1 / cs2
        self.nu = 1 + 1 / cb2
        # w_s = mu a+ T^mu /3  => a+ = 3 wn/(mu Tn^mu);  w_b = psiN wn at Tn
        self.ap = 3 * wn / (self.mu * Tn**self.mu)
        self.am = 3 * wn * psiN / (self.nu * Tn**self.nu)
        # alpha_n = ((e_s-e_b) - (p_s-p_b)/cb2)/(3 wn), e_s = w_s - p_s with p_s = p0 - eps
        p0s = self.ap * Tn**self.mu / 3
        pb = self.am * Tn**self.nu / 3
        es0 = wn - p0s
        eb = psiN * wn - pb
        # 3 wn al = (es0 + eps - eb) - (p0s - eps - pb)/cb2
        self.eps = (3 * wn * alN - (es0 - eb) + (p0s - pb) / cb2) / (1 + 1 / cb2)
        self.name = f"tmpl(al={alN:g},psi={psiN:g},cb2={cb2:.6g},cs2={cs2:.6g})"

    def p(self, ph, T):
        return self.ap * T**self.mu / 3 - self.eps if ph == "s" else self.am * T**self.nu / 3

    def dp(self, ph, T):
        return self.mu * self.ap * T ** (self.mu - 1) / 3 if ph == "s" else self.nu * self.am * T ** (self.nu - 1) / 3

    def ddp(self, ph, T):
        if ph == "s":
            return self.mu * (self.mu - 1) * self.ap * T ** (self.mu - 2) / 3
        return self.nu * (self.nu - 1) * self.am * T ** (self.nu - 2) / 3


class Bag(Template):
    """Bag model: template with cs2 = cb2 = 1/3 (critical temperature 1 when psi, eps=1-psi in units a+/3=1)."""

    def __init__(self, psi, Tn):
        # p_s = T^4 - (1-psi), p_b = psi T^4  in units where a+/3 = 1  => alpha_n = (1-psi)/(3 Tn^4) * ... computed below
        self.psi = psi
        w_s = 4 * Tn**4
        al = (4.0 / 3.0) * (1 - psi) / w_s  # ((e_s-e_b) - 3(p_s-p_b))/(3w) = 4 eps/(3 w)
        super().__init__(al, psi, 1 / 3, 1 / 3, Tn, wn=w_s)
        self.name = f"bag(psi={psi:g})"


class TwoStep(EOS):
    """Polynomial two-step model of tests/test_Hydrodynamics.py (Tc = 1)."""

    def __init__(self, ab, asym, musq):
        self.ab, self.a_s, self.musq = ab, asym, musq
        self.name = f"twostep(ab={ab:g},as={asym:g},mu2={musq:g})"

    def p(self, ph, T):
        if ph == "s":
            return T**4 + (self.ab - self.a_s + self.a_s * T**2 - self.musq) ** 2 - self.musq**2
        return T**4 + (self.ab * T**2 - self.musq) ** 2 - self.musq**2

    def dp(self, ph, T):
        if ph == "s":
            return 4 * T**3 + 4 * self.a_s * T * (self.ab - self.a_s + self.a_s * T**2 - self.musq)
        return 4 * T**3 + 4 * self.ab * T * (self.ab * T**2 - self.musq)

    def ddp(self, ph, T):
        if ph == "s":
            return 12 * T**2 + 8 * self.a_s**2 * T**2 + 4 * self.a_s * (self.ab - self.a_s + self.a_s * T**2 - self.musq)
        return 12 * T**2 + 8 * self.ab**2 * T**2 + 4 * self.ab * (self.ab * T**2 - self.musq)


class Quad(EOS):
    """p_ph = a T^4 + b T^2 + c in each phase (massive-particle corrections): temperature-dependent sound speeds that are
    physical wherever 2 a T^2 + b > 0. args = (a_s, b_s, c_s, a_b, b_b, c_b). TwoStep is the special case c_b = 0, ..."""

    def __init__(self, a_s, b_s, c_s, a_b, b_b, c_b):
        self.co = {"s": (a_s, b_s, c_s), "b": (a_b, b_b, c_b)}
        self.name = f"quad(s={a_s:g},{b_s:g},{c_s:g};b={a_b:g},{b_b:g},{c_b:g})"

    def p(self, ph, T):
        a, b, c = self.co[ph]
        return a * T**4 + b * T**2 + c

    def dp(self, ph, T):
        a, b, c = self.co[ph]
        return 4 * a * T**3 + 2 * b * T

    def ddp(self, ph, T):
        a, b, c = self.co[ph]
        return 12 * a * T**2 + 2 * b


class Scaled(EOS):
    """The same physics in other units: T -> s T, p -> s^4 p."""

    def __init__(self, base: EOS, s: float):
        self.base, self.s = base, s
        self.name = f"{base.name}*units{s:g}"

    def p(self, ph, T):
        return self.s**4 * self.base.p(ph, T / self.s)

    def dp(self, ph, T):
        return self.s**3 * self.base.dp(ph, T / self.s)

    def ddp(self, ph, T):
        return self.s**2 * self.base.ddp(ph, T / self.s)


def gamma2(v):
    return 1.0 / (1.0 - v * v)


def lorentz_mu(xi, v):
    return (xi - v) / (1.0 - xi * v)


def fluxes(eos: EOS, vp, vm, Tp, Tm):
    """(energy flux +, energy flux -, momentum flux +, momentum flux -) in the wall frame."""
    wp, wm = eos.w("s", Tp), eos.w("b", Tm)
    return (
        wp * gamma2(vp) * vp,
        wm * gamma2(vm) * vm,
        wp * gamma2(vp) * vp * vp + eos.p("s", Tp),
        wm * gamma2(vm) * vm * vm + eos.p("b", Tm),
    )
