"""Reference code for C10 (thermodynamic consistency and smooth extrapolation of the EOS).

Nothing here calls WallGo. Two pieces:

* `weights(offsets, n)` / `stencil(k0, n)`: the unique 5-point finite-difference weights for the n-th
  derivative on five offsets (arbitrary floats taken exactly / the integers k0..k0+4), solved in exact
  rational arithmetic, with the constants that enter the error bound
      |D^n f(x) - f^(n)(x)| <= R * max|f^(5)|  +  S * E_f ,
  R = sum_i |c_i| |o_i|^5 / 5!  (Taylor remainders of the five samples; the stencil is exact
  through degree 4), S = sum_i |c_i|, E_f = bound on the absolute error of one sample.
  `place` chooses the step and the first offset so that all five points stay in a given interval.
* `AnalyticEOS(model, phase)`: p, dp/dT, d2p/dT2 of one phase of an analytic model
  (vmc.models) from closed forms: p = -V(phi*(T), T); envelope theorem dp = -dV/dT at phi*;
  d2p = -V_TT + V_phiT^T H^-1 V_phiT (implicit differentiation of grad V = 0).  Third
  derivative and the slope of cs^2 are finite differences of these closed forms - they are
  only used inside tolerances (bounds on the local slope), never as expected values.
"""
from __future__ import annotations

import math
from fractions import Fraction
from functools import lru_cache

import numpy as np


# ------------------------------------------------------------------ finite-difference stencils
@lru_cache(maxsize=None)
def stencil(k0: int, n: int):
    """-> (offsets tuple, weights (floats, for h=1), R, S) for the n-th derivative, offsets k0..k0+4."""
    offs = [Fraction(k0 + i) for i in range(5)]
    m = 5
    # sum_i c_i o_i^k = k! delta_{k,n}, k = 0..4  (Vandermonde, Gauss elimination in Fractions)
    A = [[o**k for o in offs] + [Fraction(math.factorial(n) if k == n else 0)] for k in range(m)]
    for col in range(m):
        piv = next(r for r in range(col, m) if A[r][col] != 0)
        A[col], A[piv] = A[piv], A[col]
        A[col] = [a / A[col][col] for a in A[col]]
        for r in range(m):
            if r != col and A[r][col] != 0:
                f = A[r][col]
                A[r] = [a - f * b for a, b in zip(A[r], A[col])]
    c = [A[i][m] for i in range(m)]
    # self-check: exact on monomials of degree <= 4
    for k in range(m):
        assert sum(ci * o**k for ci, o in zip(c, offs)) == (math.factorial(n) if k == n else 0)
    R = sum(abs(ci) * abs(o) ** 5 for ci, o in zip(c, offs)) / math.factorial(5)
    S = sum(abs(ci) for ci in c)
    return tuple(int(o) for o in offs), tuple(float(ci) for ci in c), float(R), float(S)


def weights(offsets, n: int):
    """Weights c_i (absolute units) of the unique 5-point formula sum_i c_i f(x + o_i) for the n-th derivative on
    the given float offsets o_i, which are taken EXACTLY (Fraction(float)), so that no abscissa-rounding term
    enters the error bound:  |sum c_i f_i - f^(n)(x)| <= R max|f^(5)| + S E_f,
    R = sum |c_i| |o_i|^5 / 5!, S = sum |c_i|.  Returns (c (floats), R, S)."""
    offs = [Fraction(float(o)) for o in offsets]
    m = len(offs)
    assert m == 5 and len(set(offs)) == 5
    A = [[o**k for o in offs] + [Fraction(math.factorial(n) if k == n else 0)] for k in range(m)]
    for col in range(m):
        piv = next(r for r in range(col, m) if A[r][col] != 0)
        A[col], A[piv] = A[piv], A[col]
        A[col] = [a / A[col][col] for a in A[col]]
        for r in range(m):
            if r != col and A[r][col] != 0:
                f = A[r][col]
                A[r] = [a - f * b for a, b in zip(A[r], A[col])]
    c = [A[i][m] for i in range(m)]
    R = sum(abs(ci) * abs(o) ** 5 for ci, o in zip(c, offs)) / math.factorial(5)
    S = sum(abs(ci) for ci in c)
    return [float(ci) for ci in c], float(R), float(S)


def place(T: float, lo: float, hi: float, hmax: float):
    """Step h and first offset k0 such that the five points T + (k0..k0+4) h lie in [lo, hi]
    (as central as possible). Requires lo <= T <= hi. Returns (h, k0)."""
    L = hi - lo
    # an integer k0 with lo <= T + k0 h and T + (k0+4) h <= hi exists for every T in [lo, hi] iff L/h - 4 >= 1
    h = min(hmax, L / 5.001)
    if not (h > 0):
        return 0.0, -2
    kmin = math.ceil((lo - T) / h)
    kmax = math.floor((hi - T) / h) - 4
    k0 = min(max(-2, kmin), kmax)
    k0 = min(max(k0, -4), 0)
    return h, k0


# ------------------------------------------------------------------ analytic equation of state
class AnalyticEOS:
    def __init__(self, am, phase: str):
        self.am = am
        self.phase = phase

    def exists(self, T: float) -> bool:
        return bool(self.am.is_minimum(self.phase, float(T)))

    def loc(self, T: float):
        return self.am.phase(self.phase, float(T))

    def p(self, T: float) -> float:
        return float(-self.am.V(self.loc(T), float(T)))

    def dp(self, T: float) -> float:
        return float(-self.am.dVdT(self.loc(T), float(T)))

    def ddp(self, T: float) -> float:
        phi = self.loc(T)
        g = np.asarray(self.am.dgraddT(phi, float(T)), float)
        H = np.asarray(self.am.hess(phi, float(T)), float)
        return float(-self.am.d2VdT2(phi, float(T)) + g @ np.linalg.solve(H, g))

    def csq(self, T: float) -> float:
        return self.dp(T) / (T * self.ddp(T))

    def hess_norm(self, T: float) -> float:
        return float(np.max(np.abs(np.linalg.eigvalsh(self.am.hess(self.loc(T), float(T))))))

    # slopes for tolerances only ------------------------------------------------------
    def _fd(self, f, T: float) -> float:
        """First derivative of f at T by a central (or, next to the end of existence, one-sided)
        difference with relative step 1e-4. Accuracy ~1e-6 relative: good enough for a bound."""
        h = 1e-4 * T
        a, b = T - h, T + h
        if not self.exists(a):
            a = T
        if not self.exists(b):
            b = T
        if a == b:
            return float("nan")
        return (f(b) - f(a)) / (b - a)

    def d3p(self, T: float) -> float:
        return self._fd(self.ddp, T)

    def dcsq(self, T: float) -> float:
        return self._fd(self.csq, T)
