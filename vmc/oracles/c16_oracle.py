"""Reference (mpmath, 50 digits) for the spectral polynomial calculus of WallGo.polynomial / WallGo.grid.

Nothing here imports WallGo.  Everything is expressed through ONE representation: a polynomial of
degree <= K on [-1, 1] is its vector a[0..K] of *unrestricted* Chebyshev coefficients,
P(x) = sum_n a_n T_n(x).  Every basis function WallGo knows (cardinal function of a kept node,
restricted Chebyshev function) is first turned into such a vector; values, derivatives and
weighted integrals then come from the textbook recurrences / closed-form moments.

Conventions (taken from the documentation of Grid/Polynomial, not from their code):
  direction z : K = M,   full nodes j = 0..M,   interior keeps 1..M-1   (P(-1) = P(+1) = 0)
  direction pz: K = N,   full nodes j = 0..N,   interior keeps 1..N-1   (P(-1) = P(+1) = 0)
  direction pp: K = N-1, full nodes j = 0..N-1, interior keeps 0..N-2   (P(+1) = 0)
  nodes x_j = -cos(pi j / K)  (Gauss-Chebyshev-Lobatto)
  cardinal function of node j: Lagrange polynomial through ALL K+1 nodes (so it vanishes at dropped ends)
  restricted Chebyshev functions: endpoints kept: T_n, n = 0..K;
      'full'    (z, pz interior): T_n - T_{n mod 2}, n = 2..K;   'partial' (pp interior): T_n - 1, n = 1..K
"""
from __future__ import annotations

import functools
import math

import mpmath as mp
import numpy as np

DPS = 50
mp.mp.dps = DPS

DIRECTIONS = ("z", "pz", "pp")


# ------------------------------------------------------------------------------ index sets
def K_of(M: int, N: int, direction: str) -> int:
    return {"z": M, "pz": N, "pp": N - 1}[direction]


def kept_indices(K: int, direction: str, endpoints: bool) -> list[int]:
    if endpoints:
        return list(range(K + 1))
    if direction in ("z", "pz"):
        return list(range(1, K))
    return list(range(0, K))  # pp: x = -1 kept, x = +1 dropped


def restriction_of(direction: str, endpoints: bool):
    if endpoints:
        return None
    return "full" if direction in ("z", "pz") else "partial"


def cheb_orders(K: int, direction: str, endpoints: bool) -> list[int]:
    r = restriction_of(direction, endpoints)
    if r is None:
        return list(range(K + 1))
    if r == "full":
        return list(range(2, K + 1))
    return list(range(1, K + 1))


# ------------------------------------------------------------------------------ Chebyshev toolbox (mp)
def exact_nodes(K: int) -> list:
    mp.mp.dps = DPS
    return [-mp.cos(mp.pi * j / K) for j in range(K + 1)]


def cheb_T(K: int, x) -> list:
    """[T_0(x) .. T_K(x)] by the three-term recurrence."""
    x = mp.mpf(x)
    out = [mp.mpf(1), x]
    for _ in range(2, K + 1):
        out.append(2 * x * out[-1] - out[-2])
    return out[: K + 1]


def cheb_dT(K: int, x) -> list:
    """[T_0'(x) .. T_K'(x)], T_n' = n U_{n-1}, U by recurrence (valid at x = +-1 too)."""
    x = mp.mpf(x)
    U = [mp.mpf(1), 2 * x]
    for _ in range(2, K + 1):
        U.append(2 * x * U[-1] - U[-2])
    return [mp.mpf(0)] + [n * U[n - 1] for n in range(1, K + 1)]


def moment(d: int):
    """int_{-1}^{1} x^d / sqrt(1-x^2) dx = pi * C(d, d/2) / 2^d (d even), 0 (d odd)."""
    if d % 2:
        return mp.mpf(0)
    return mp.pi * math.comb(d, d // 2) / mp.mpf(2) ** d


def moment_T(n: int, k: int):
    """int x^k T_n(x) / sqrt(1-x^2) dx = pi 2^-k C(k, (k-n)/2) if k >= n and k-n even, else 0."""
    if k < n or (k - n) % 2:
        return mp.mpf(0)
    return mp.pi * math.comb(k, (k - n) // 2) / mp.mpf(2) ** k


# weight families  w(x) = x^k g(x) / sqrt(1-x^2);  g as a list of (coefficient, power of x)
G_FAMILIES = {
    "one": [(1, 0)],            # interior z/pz: w = x^k / sqrt(1-x^2)
    "onepx": [(1, 0), (1, 1)],  # interior pp:   w = x^k sqrt((1+x)/(1-x))   (finite at the kept end x=-1)
    "omx2": [(1, 0), (-1, 2)],  # endpoints kept: w = x^k sqrt(1-x^2)        (finite at both ends)
}


def g_family(direction: str, endpoints: bool) -> str:
    if endpoints:
        return "omx2"
    return "one" if direction in ("z", "pz") else "onepx"


def g_value(fam: str, x):
    return sum(c * x**p for c, p in G_FAMILIES[fam])


def integral(a: list, k: int, fam: str):
    """int_{-1}^{1} P(x) x^k g(x) / sqrt(1-x^2) dx for P = sum a_n T_n (closed form)."""
    tot = mp.mpf(0)
    for c, p in G_FAMILIES[fam]:
        for n, an in enumerate(a):
            if an != 0:
                tot += c * an * moment_T(n, k + p)
    return tot


def value(a: list, x):
    T = cheb_T(len(a) - 1, x)
    return mp.fsum(an * t for an, t in zip(a, T))


def dvalue(a: list, x):
    dT = cheb_dT(len(a) - 1, x)
    return mp.fsum(an * t for an, t in zip(a, dT))


def degree(a: list) -> int:
    d = 0
    for n, an in enumerate(a):
        if abs(an) > mp.mpf(10) ** (-(DPS - 12)):
            d = n
    return d


def restricted_vector(K: int, n: int, restriction) -> list:
    a = [mp.mpf(0)] * (K + 1)
    a[n] += 1
    if restriction == "full":
        a[n % 2] -= 1
    elif restriction == "partial":
        a[0] -= 1
    return a


def lagrange_vectors(nodes: list) -> list[list]:
    """Unrestricted Chebyshev coefficients of the Lagrange polynomials through `nodes` (mp numbers):
    column j of the inverse of V[i][n] = T_n(x_i).  Verified against the product formula below."""
    K = len(nodes) - 1
    V = mp.matrix(K + 1, K + 1)
    for i, x in enumerate(nodes):
        T = cheb_T(K, x)
        for n in range(K + 1):
            V[i, n] = T[n]
    Vi = mp.inverse(V)
    return [[Vi[n, j] for n in range(K + 1)] for j in range(K + 1)]


def lagrange_product(nodes: list, j: int, x):
    """Product formula of the cardinal function (independent route, used to cross-check lagrange_vectors)."""
    x = mp.mpf(x)
    out = mp.mpf(1)
    for m, xm in enumerate(nodes):
        if m != j:
            out *= (x - xm) / (nodes[j] - xm)
    return out


def gcl_weights(K: int, kept: list[int]) -> list:
    """Gauss-Chebyshev-Lobatto weights pi/K (pi/2K at the two ends), restricted to kept nodes."""
    return [mp.pi / K / (2 if j in (0, K) else 1) for j in kept]


# ------------------------------------------------------------------------------ one axis, everything
OFFGRID = (-0.95, -0.62, -0.3, -0.07, 0.0, 0.2, 0.45, 0.7, 0.93)  # 9 fixed points (0.0 is a node for even K: fine)


class Axis:
    """All reference data for one (K, direction, endpoints) and one concrete float node vector."""

    def __init__(self, K: int, direction: str, endpoints: bool, xfull: tuple):
        mp.mp.dps = DPS
        self.K, self.direction, self.endpoints = K, direction, endpoints
        self.xfull = tuple(float(v) for v in xfull)
        assert len(self.xfull) == K + 1
        self.kept = kept_indices(K, direction, endpoints)
        self.orders = cheb_orders(K, direction, endpoints)
        self.restriction = restriction_of(direction, endpoints)
        self.n = len(self.kept)
        assert len(self.orders) == self.n
        self.fam = g_family(direction, endpoints)
        xs = [mp.mpf(v) for v in self.xfull]  # the float nodes, exactly
        self.xs = xs
        lag = lagrange_vectors(xs)
        # self-check (oracle vs oracle): product formula at two off-grid points
        for j in (0, K // 2, K):
            for x in (mp.mpf("0.3"), mp.mpf("-0.85")):
                assert abs(value(lag[j], x) - lagrange_product(xs, j, x)) < mp.mpf(10) ** (-(DPS - 15)), "oracle self-check"
        self.vec = {
            "Cardinal": [lag[j] for j in self.kept],
            "Chebyshev": [restricted_vector(K, n, self.restriction) for n in self.orders],
        }
        # classification objects: cardinal functions through the EXACT nodes
        self.xexact = exact_nodes(K)
        lagx = lagrange_vectors(self.xexact)
        self.vec_exact = {"Cardinal": [lagx[j] for j in self.kept], "Chebyshev": self.vec["Chebyshev"]}
        self._cache = {}

    # -- matrices as float64 ------------------------------------------------------
    def embed(self, basis: str) -> np.ndarray:
        """(K+1, n): unrestricted Chebyshev coefficients of each basis function."""
        key = ("embed", basis)
        if key not in self._cache:
            self._cache[key] = np.array([[float(a[m]) for a in self.vec[basis]] for m in range(self.K + 1)])
        return self._cache[key]

    def c2t_mp(self):
        """n x n: restricted Chebyshev coefficients of the cardinal functions (column b = cardinal b)."""
        if "c2t" not in self._cache:
            R = [[self.vec["Cardinal"][b][n] for b in range(self.n)] for n in self.orders]
            # self-check: the restricted expansion reproduces the function (dropped T_0/T_1 parts are implied by the zeros)
            for b in range(self.n):
                rec = [mp.mpf(0)] * (self.K + 1)
                for row, n in enumerate(self.orders):
                    rv = restricted_vector(self.K, n, self.restriction)
                    for m in range(self.K + 1):
                        rec[m] += R[row][b] * rv[m]
                err = max(abs(rec[m] - self.vec["Cardinal"][b][m]) for m in range(self.K + 1))
                assert err < mp.mpf(10) ** (-(DPS - 15)), "oracle self-check: restricted expansion"
            self._cache["c2t"] = R
        return self._cache["c2t"]

    def c2t(self) -> np.ndarray:
        return np.array([[float(v) for v in row] for row in self.c2t_mp()])

    def t2c(self) -> np.ndarray:
        """n x n: value of restricted Chebyshev function (column) at kept float node (row)."""
        if "t2c" not in self._cache:
            self._cache["t2c"] = np.array(
                [[float(value(a, self.xs[i])) for a in self.vec["Chebyshev"]] for i in self.kept])
        return self._cache["t2c"]

    def values(self, basis: str, pts) -> np.ndarray:
        """(npts, n) basis function values at float points."""
        key = ("values", basis, tuple(float(x) for x in pts))
        if key not in self._cache:
            self._cache[key] = np.array([[float(value(a, mp.mpf(float(x)))) for a in self.vec[basis]] for x in pts])
        return self._cache[key]

    def deriv(self, basis: str) -> np.ndarray:
        """(K+1, n): derivative of each basis function at every full float node."""
        key = ("deriv", basis)
        if key not in self._cache:
            self._cache[key] = np.array([[float(dvalue(a, x)) for a in self.vec[basis]] for x in self.xs])
        return self._cache[key]

    def l1(self, basis: str) -> np.ndarray:
        """(n,) sum_n |a_n| : rigorous bound of max |basis function| on [-1,1]."""
        return np.array([float(mp.fsum(abs(v) for v in a)) for a in self.vec[basis]])

    # -- integration ----------------------------------------------------------------
    def integral(self, basis: str, b: int, k: int) -> float:
        return float(integral(self.vec[basis][b], k, self.fam))

    def in_class(self, basis: str, b: int, k: int) -> bool:
        """COMPUTED exactness: does the kept-node Gauss-Chebyshev-Lobatto rule on the exact nodes reproduce
        int P x^k g / sqrt(1-x^2) for this basis function?  (50-digit arithmetic, threshold 1e-35 relative to pi.)"""
        a = self.vec_exact[basis][b]
        W = gcl_weights(self.K, self.kept)
        q = mp.fsum(w * value(a, self.xexact[i]) * self.xexact[i] ** k * g_value(self.fam, self.xexact[i])
                    for w, i in zip(W, self.kept))
        return abs(q - integral(a, k, self.fam)) < mp.mpf(10) ** (-(DPS - 15))

    def class_table(self, basis: str, kmax: int) -> list[list[bool]]:
        key = ("class", basis, kmax)
        if key not in self._cache:
            # value tables at exact nodes once
            W = gcl_weights(self.K, self.kept)
            xe = [self.xexact[i] for i in self.kept]
            ge = [g_value(self.fam, x) for x in xe]
            tab = []
            for a in self.vec_exact[basis]:
                pv = [value(a, x) for x in xe]
                row = []
                for k in range(kmax + 1):
                    q = mp.fsum(w * p * x**k * g for w, p, x, g in zip(W, pv, xe, ge))
                    row.append(bool(abs(q - integral(a, k, self.fam)) < mp.mpf(10) ** (-(DPS - 15))))
                tab.append(row)
            self._cache[key] = tab
        return self._cache[key]

    def integrals(self, basis: str, kmax: int) -> np.ndarray:
        key = ("int", basis, kmax)
        if key not in self._cache:
            self._cache[key] = np.array([[float(integral(a, k, self.fam)) for k in range(kmax + 1)] for a in self.vec[basis]])
        return self._cache[key]

    def weight(self, k: int) -> np.ndarray:
        """float64 weight array on the kept nodes, w_i = x_i^k g(x_i) / sqrt(1-x_i^2), with the analytic limit 0
        at kept end nodes (g vanishes there faster than the square root).  Written so that WallGo's own factor
        sqrt(1-x_i^2) cancels the same floating-point expression."""
        x = np.array([self.xfull[i] for i in self.kept])
        g = np.array([float(sum(c * xi**p for c, p in G_FAMILIES[self.fam])) for xi in x])
        s = np.sqrt(1 - x**2)
        w = np.zeros_like(x)
        ok = s > 0
        w[ok] = x[ok] ** k * g[ok] / s[ok]
        return w

    def min_gap(self) -> float:
        return float(min(self.xs[i + 1] - self.xs[i] for i in range(self.K)))


@functools.lru_cache(maxsize=None)
def axis(K: int, direction: str, endpoints: bool, xfull: tuple) -> Axis:
    return Axis(K, direction, endpoints, xfull)


@functools.lru_cache(maxsize=None)
def exactness_degree(K: int) -> int:
    """Largest D such that the full (K+1)-node Gauss-Chebyshev-Lobatto rule integrates x^d/sqrt(1-x^2) exactly for
    every d <= D -- found by computation (it must come out as 2K-1; the check asserts that it does)."""
    mp.mp.dps = DPS
    xs = exact_nodes(K)
    W = gcl_weights(K, list(range(K + 1)))
    D = -1
    for d in range(0, 2 * K + 3):
        q = mp.fsum(w * x**d for w, x in zip(W, xs))
        if abs(q - moment(d)) < mp.mpf(10) ** (-(DPS - 15)):
            D = d
        else:
            break  # first monomial the rule gets wrong ends the class
    return D


def nodes_float_reference(K: int) -> np.ndarray:
    return np.array([float(v) for v in exact_nodes(K)])
