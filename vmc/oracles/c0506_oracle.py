"""Reference code shared by the checks C05 (LTE wall velocity) and C06 (admissible,
correctly classified matchings).  Nothing here calls WallGo: the equation of state is
vmc.oracles.eos (analytic p, e, w, c_s^2), the flow ahead of the wall is the xi-integrator
of vmc.oracles.hydro, the junction conditions are written out below.

Conventions: phase 's' = high-T phase in front of the wall (+), 'b' = low-T phase behind (-);
all velocities are positive wall-frame fluid speeds.
"""
from __future__ import annotations

import numpy as np
from scipy.optimize import brentq, minimize_scalar
from scipy.optimize import root as sp_root

from . import hydro as OH
from .eos import gamma2

EPS = float(np.finfo(float).eps)


# --------------------------------------------------------------------------------------
# entropy mismatch
# --------------------------------------------------------------------------------------
def mismatch(vp, vm, Tp, Tm) -> float:
    """m = T+ gamma+ - T- gamma-.  (Entropy flux s gamma v with s = w/T, divided by the conserved
    energy flux w gamma^2 v, is 1/(T gamma): entropy is conserved across the wall iff m = 0.)"""
    return float(Tp * np.sqrt(gamma2(vp)) - Tm * np.sqrt(gamma2(vm)))


# --------------------------------------------------------------------------------------
# deflagration / hybrid: local solve of the two junction conditions, exact matching near a guess
# --------------------------------------------------------------------------------------
def vm_behind(eos, vw, Tm) -> float:
    """Fluid speed behind the wall: vw for a deflagration, the local sound speed for a hybrid."""
    return float(min(vw, np.sqrt(max(eos.csq("b", Tm), 0.0))))


def junction_local(eos, vw, vp, Tp0, Tm0):
    """Solve energy- and momentum-flux continuity for (T+, T-) at given vw, v+ by Newton iteration
    (hybr) started at (Tp0, Tm0). Returns (Tp, Tm, vm) or None."""

    def F(x):
        Tp, Tm = x
        if Tp <= 0 or Tm <= 0:
            return [1e3, 1e3]
        vm = vm_behind(eos, vw, Tm)
        wp, wm = eos.w("s", Tp), eos.w("b", Tm)
        e1, e2 = wp * gamma2(vp) * vp, wm * gamma2(vm) * vm
        return [(e1 - e2) / e1, ((e1 * vp + eos.p("s", Tp)) - (e2 * vm + eos.p("b", Tm))) / wp]

    sol = sp_root(F, [Tp0, Tm0], method="hybr", options={"xtol": 1e-14})
    if np.max(np.abs(sol.fun)) > 1e-11 or not (sol.x[0] > 0 and sol.x[1] > 0):
        return None
    Tp, Tm = float(sol.x[0]), float(sol.x[1])
    return Tp, Tm, vm_behind(eos, vw, Tm)


def state_of(eos, vw, vp, Tp0, Tm0, rtol=1e-9):
    """(Tp, Tm, vm, Tn_ahead, m) of the junction solution at (vw, v+) near the guess, with the
    temperature ahead of the shock from the oracle's own integration. None if no local solution.
    rtol = local error control of the 8th-order integrator (1e-9 reproduces the 1e-11 result to
    ~1e-14 relative on the lattice; 1e-11 costs up to 10 s per call at slow walls)."""
    j = junction_local(eos, vw, vp, Tp0, Tm0)
    if j is None:
        return None
    Tp, Tm, vm = j
    sh = OH.shock_Tn(eos, vw, vp, Tp, rtol=rtol)
    if sh["kind"] == "incomplete":
        return None
    return dict(vp=float(vp), vm=vm, Tp=Tp, Tm=Tm, Tn=float(sh["Tn"]), m=mismatch(vp, vm, Tp, Tm), kind=sh["kind"])


def polish(eos, Tn, vw, vp0, Tp0, Tm0):
    """Exact deflagration/hybrid matching at wall velocity vw (temperature ahead of the shock == Tn to
    ~1e-11) obtained by refining an approximate one: bracket in v+ around vp0, brentq.
    Returns dict(vp, vm, Tp, Tm, m, Tn_err) or None (guess too far from an exact matching)."""

    def G(vp):
        s = state_of(eos, vw, vp, Tp0, Tm0)
        return np.nan if s is None else s["Tn"] - Tn

    g0 = G(vp0)
    if not np.isfinite(g0):
        return None
    if g0 == 0.0:
        a = b = vp0
    else:
        a = b = None
        for h in (1e-7, 1e-6, 1e-5, 1e-4, 1e-3, 1e-2):
            lo, hi = vp0 * (1 - h), min(vp0 * (1 + h), 0.5 * (vp0 + 1.0))
            glo, ghi = G(lo), G(hi)
            if np.isfinite(glo) and glo * g0 < 0:
                a, b = lo, vp0
                break
            if np.isfinite(ghi) and ghi * g0 < 0:
                a, b = vp0, hi
                break
        if a is None:
            return None
    try:
        vp = a if a == b else brentq(G, a, b, xtol=1e-14, rtol=4 * EPS)
    except Exception:
        return None
    s = state_of(eos, vw, vp, Tp0, Tm0)
    if s is None or abs(s["Tn"] - Tn) > 1e-9 * Tn:
        return None
    s["Tn_err"] = (s["Tn"] - Tn) / Tn
    return s


def partials(eos, Tn, vw, st, h=1e-5):
    """Finite-difference partial derivatives of (m, Tn_ahead) with respect to (vw, v+) around the exact
    matching `st`, and the two combinations the C05 tolerance needs:
       dm/dvw at fixed nucleation temperature, and dm/dTn at fixed wall velocity.
    Returns None if a neighbouring state could not be solved or changes branch (deflagration<->hybrid kink)."""
    vp, Tp, Tm = st["vp"], st["Tp"], st["Tm"]
    hyb = st["vm"] < vw * (1 - 1e-12)

    def S(vw_, vp_):
        s = state_of(eos, vw_, vp_, Tp, Tm)
        if s is None or (s["vm"] < vw_ * (1 - 1e-12)) != hyb:
            return None
        return s

    a, b = S(vw, vp * (1 + h)), S(vw, vp * (1 - h))
    c, d = S(vw * (1 + h), vp), S(vw * (1 - h), vp)
    if None in (a, b, c, d):
        return None
    m_vp = (a["m"] - b["m"]) / (2 * h * vp)
    T_vp = (a["Tn"] - b["Tn"]) / (2 * h * vp)
    m_vw = (c["m"] - d["m"]) / (2 * h * vw)
    T_vw = (c["Tn"] - d["Tn"]) / (2 * h * vw)
    if T_vp == 0:
        return None
    # temperature sensitivities of m at fixed velocities (error of the 2x2 temperature solve)
    m_lnTp = Tp * np.sqrt(gamma2(vp))
    m_lnTm = Tm * np.sqrt(gamma2(st["vm"]))
    out = dict(m_vp=m_vp, Tn_vp=T_vp, m_vw=m_vw, Tn_vw=T_vw, dm_dvw=m_vw - m_vp * T_vw / T_vp, dm_dTn=m_vp / T_vp,
               m_lnTp=m_lnTp, m_lnTm=m_lnTm)
    # the same two combinations for the temperatures themselves (C06: velocity at which T+- reaches a tabulated maximum)
    for q in ("Tp", "Tm"):
        q_vp = (a[q] - b[q]) / (2 * h * vp)
        q_vw = (c[q] - d[q]) / (2 * h * vw)
        out[f"d{q}_dvw"] = q_vw - q_vp * T_vw / T_vp
        out[f"d{q}_dTn"] = q_vp / T_vp
        out[f"{q}_vp"] = q_vp
    return out


# --------------------------------------------------------------------------------------
# detonations and the Chapman-Jouguet point
# --------------------------------------------------------------------------------------
def _det_parts(eos, Tn, Tm):
    ps, es = eos.p("s", Tn), eos.e("s", Tn)
    pb, eb = eos.p("b", Tm), eos.e("b", Tm)
    return ps, es, pb, eb


def det_vp2(eos, Tn, Tm) -> float:
    """v+^2 of the detonation with T+ = Tn and temperature Tm behind, from the two junction conditions:
    v+ v- = (p_s-p_b)/(e_s-e_b),  v+/v- = (e_b+p_s)/(e_s+p_b)."""
    ps, es, pb, eb = _det_parts(eos, Tn, Tm)
    return (ps - pb) * (eb + ps) / ((es - eb) * (es + pb))


def det_vm2(eos, Tn, Tm) -> float:
    ps, es, pb, eb = _det_parts(eos, Tn, Tm)
    return (ps - pb) * (es + pb) / ((es - eb) * (eb + ps))


def det_vp2_rounding(eos, Tn, Tm) -> float:
    """Relative rounding bound of det_vp2 in double precision: each of the four factors is a sum of two
    terms, 64 eps sum|terms| / |factor| per factor."""
    ps, es, pb, eb = _det_parts(eos, Tn, Tm)
    tot = 0.0
    for (x, y, sgn) in ((ps, pb, -1), (eb, ps, 1), (es, eb, -1), (es, pb, 1)):
        tot += (abs(x) + abs(y)) / abs(x + sgn * y)
    return 64 * EPS * tot


def chapman_jouguet(eos, Tn, Thi_factor=10.0):
    """Oracle's Chapman-Jouguet velocity: the minimum over T- of the detonation v+ at T+ = Tn.
    Detonations exist for T- > T_e with e_b(T_e) = e_s(Tn) (v+ -> infinity there); v+ has its minimum at T_J.
    Global scan (no assumption of a single minimum) followed by a bounded refinement.
    Returns dict(vJ, TJ, Te, curv = d^2 v+/dT-^2 at TJ, n_minima) or None."""
    es = eos.e("s", Tn)
    Thi = Thi_factor * Tn

    def de(T):
        return eos.e("b", T) - es

    if de(Tn) >= 0:
        Te = Tn
    elif de(Thi) <= 0:
        return None
    else:
        Te = brentq(de, Tn, Thi, xtol=1e-15 * Tn, rtol=4 * EPS)
    grid = Te + (Thi - Te) * np.linspace(0, 1, 4001)[1:] ** 2  # denser near T_e where v+ falls steeply
    vals = np.array([det_vp2(eos, Tn, t) for t in grid])
    ok = np.isfinite(vals) & (vals > 0)
    if not ok.any():
        return None
    vals = np.where(ok, vals, np.inf)
    i = int(np.argmin(vals))
    if i == 0 or i == len(grid) - 1:
        return None
    nmin = int(np.sum((vals[1:-1] < vals[:-2]) & (vals[1:-1] < vals[2:])))
    res = minimize_scalar(lambda t: det_vp2(eos, Tn, t), bounds=(grid[i - 1], grid[i + 1]), method="bounded",
                          options={"xatol": 1e-10 * Tn})
    TJ = float(res.x)
    vJ = float(np.sqrt(det_vp2(eos, Tn, TJ)))
    h = 1e-3 * TJ
    f = [np.sqrt(det_vp2(eos, Tn, TJ + k * h)) for k in (-1, 0, 1)]
    curv = (f[0] - 2 * f[1] + f[2]) / h**2
    return dict(vJ=vJ, TJ=TJ, Te=float(Te), curv=float(curv), n_minima=nmin)


def detonation(eos, Tn, vw, cj):
    """Weak detonation at wall velocity vw > vJ: T- in (T_e, T_J) with v+(T-) = vw. Returns dict(Tm, vm, g)
    with g = v-^2 - c_b^2(T-) (> 0 on the weak branch, 0 at the Chapman-Jouguet point)."""
    if vw <= cj["vJ"]:
        return None

    def f(T):
        return det_vp2(eos, Tn, T) - vw * vw

    lo = cj["Te"] + 1e-12 * (cj["TJ"] - cj["Te"])
    # v+ -> infinity towards T_e: move the lower end up until f > 0 is representable
    if not f(lo) > 0:
        return None
    Tm = brentq(f, lo, cj["TJ"], xtol=1e-15 * Tn, rtol=4 * EPS)
    vm2 = det_vm2(eos, Tn, Tm)
    return dict(Tm=float(Tm), vm=float(np.sqrt(vm2)), g=float(vm2 - eos.csq("b", Tm)))


def det_g_of_Tm(eos, Tn, Tm) -> float:
    return float(det_vm2(eos, Tn, Tm) - eos.csq("b", Tm))
