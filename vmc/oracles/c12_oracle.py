"""Independent reference code for C12 (Boltzmann solution reflects physics, not discretisation).

Nothing here imports WallGo.  Everything is written from the definitions:

* the Gauss-Lobatto grids and the three compactification maps,
* the Lorentz boost of a velocity,
* the kinematic coefficients of the source term of the linearised Boltzmann equation,
  S = (f'_eq/T) (dchi/dxi) [ P_w P_pl gamma_pl^2 dv/dchi + P_w E_pl (dT/dchi)/T + 1/2 (dm^2/dchi) u_w.u_pl ],
  returned separately per profile kind so that the harness can combine them with *its own*
  derivative of the profile (closed form, spectral, or 3-point finite difference),
* the Chebyshev (Lagrange) differentiation matrix on the Lobatto points,
* 3-point Lagrange finite-difference weights on a non-uniform grid,
* the restricted Chebyshev basis matrices used to convert coefficients to grid values,
* background profiles that are polynomials in chi, with closed-form first and third derivatives
  (the velocity is a polynomial in the wall frame; after the boost it is a rational function whose
  derivatives are written out by the chain rule).
"""
from __future__ import annotations

import numpy as np

EPS = np.finfo(float).eps


# ----------------------------------------------------------------------------- grid
class OGrid:
    """Own copy of the collocation grid: chi_a = -cos(pi a/M), rz_b = -cos(pi b/N), rp_c = -cos(pi c/(N-1))."""

    def __init__(self, M: int, N: int, L: float, T0: float):
        self.M, self.N, self.L, self.T0 = M, N, float(L), float(T0)
        self.chiFull = -np.cos(np.pi * np.arange(0, M + 1) / M)
        self.chiFull[0], self.chiFull[-1] = -1.0, 1.0
        self.rzFull = -np.cos(np.pi * np.arange(0, N + 1) / N)
        self.rzFull[0], self.rzFull[-1] = -1.0, 1.0
        self.rpFull = -np.cos(np.pi * np.arange(0, N) / (N - 1))
        self.rpFull[0], self.rpFull[-1] = -1.0, 1.0
        self.chi = self.chiFull[1:-1]
        self.rz = self.rzFull[1:-1]
        self.rp = self.rpFull[:-1]
        # xi = L chi / sqrt(1-chi^2),  pz = 2 T0 atanh(rz),  pp = -T0 log((1-rp)/2)
        self.pz = 2.0 * self.T0 * np.arctanh(self.rz)
        self.pp = -self.T0 * np.log((1.0 - self.rp) / 2.0)
        self.dchidxi = (1.0 - self.chi**2) ** 1.5 / self.L
        self.drzdpz = (1.0 - self.rz**2) / (2.0 * self.T0)
        self.dpzdrz = 1.0 / self.drzdpz
        self.dppdrp = self.T0 / (1.0 - self.rp)


def boost(v, u):
    """Velocity v seen from a frame moving with velocity u (1-d relativistic addition)."""
    return (v - u) / (1.0 - v * u)


# ----------------------------------------------------------------------------- profiles
class Poly:
    """Polynomial in chi given by ascending coefficients, with exact derivatives."""

    def __init__(self, coeffs):
        self.c = np.array(coeffs, dtype=float)

    def __call__(self, x, k: int = 0):
        c = self.c
        for _ in range(k):
            c = c[1:] * np.arange(1, len(c)) if len(c) > 1 else np.zeros(1)
        x = np.asarray(x, dtype=float)
        out = np.zeros_like(x)
        for a in c[::-1]:
            out = out * x + a
        return out

    def absval(self, x, k: int = 0):
        """sum_j |c_j x^j| for the k-th derivative (rounding scale of a Horner evaluation)."""
        c = self.c
        for _ in range(k):
            c = c[1:] * np.arange(1, len(c)) if len(c) > 1 else np.zeros(1)
        x = np.abs(np.asarray(x, dtype=float))
        out = np.zeros_like(x)
        for a in np.abs(c)[::-1]:
            out = out * x + a
        return out


# Profile alphabet.  Wall-frame quantities, all polynomials in chi of degree <= 3 (<= 6 for m^2),
# so that the spectral derivative is exact for every M >= 6 used here.
T_CONST = Poly([100.0])
T_VAR = Poly([100.0, 4.0, -3.0, 1.5])  # 100 (1 + 0.04 chi - 0.03 chi^2 + 0.015 chi^3)
V_CONST = Poly([-0.55])
V_VAR = Poly([-0.55, 0.06, -0.03, 0.02])
# a second, different "other" background for the history exploration
T_OTHER = Poly([90.0, -5.0, 2.0])
V_OTHER = Poly([-0.40, -0.05, 0.04])
F1_CONST = Poly([60.0])
F2_CONST = Poly([25.0])
F1_VAR = Poly([45.0, -40.0, -5.0, 4.0])  # roughly a kink from ~76 to ~4
F2_VAR = Poly([20.0, 12.0, 3.0])
F1_OTHER = Poly([30.0, -25.0, 2.0])
F2_OTHER = Poly([10.0, 5.0, -2.0])

BACKGROUNDS = {
    #            T        v        phi1      phi2
    "homog": (T_CONST, V_CONST, F1_CONST, F2_CONST),
    "T": (T_VAR, V_CONST, F1_CONST, F2_CONST),
    "v": (T_CONST, V_VAR, F1_CONST, F2_CONST),
    "field": (T_CONST, V_CONST, F1_VAR, F2_VAR),
    "all": (T_VAR, V_VAR, F1_VAR, F2_VAR),
    "other": (T_OTHER, V_OTHER, F1_OTHER, F2_OTHER),
}

# particle alphabet: name -> (statistics sign (+1 boson, -1 fermion), m^2 = a phi1^2 + b phi2^2)
PARTICLES = {
    "top": (-1, 0.5, 0.0),
    "W": (+1, 0.2, 0.1),
}
PARTICLE_SETS = {"f": ["top"], "b": ["W"], "fb": ["top", "W"]}


class Background:
    """Closed-form description of one background: T, v (wall frame and plasma frame), m^2 per particle."""

    def __init__(self, kind: str):
        self.kind = kind
        self.T, self.vWall, self.f1, self.f2 = BACKGROUNDS[kind]
        self.vMid = 0.5 * (float(self.vWall(-1.0)) + float(self.vWall(1.0)))

    # plasma-frame velocity and its derivatives by the chain rule on g(w) = (w-m)/(1-w m)
    def vPlasma(self, x, k: int = 0):
        m = self.vMid
        w = self.vWall(x)
        d = 1.0 - w * m
        if k == 0:
            return (w - m) / d
        g1 = (1.0 - m * m) / d**2
        w1 = self.vWall(x, 1)
        if k == 1:
            return g1 * w1
        g2 = 2.0 * m * (1.0 - m * m) / d**3
        g3 = 6.0 * m * m * (1.0 - m * m) / d**4
        w2, w3 = self.vWall(x, 2), self.vWall(x, 3)
        if k == 2:
            return g2 * w1**2 + g1 * w2
        if k == 3:
            return g3 * w1**3 + 3.0 * g2 * w1 * w2 + g1 * w3
        raise ValueError(k)

    def vWallPlasma(self):
        """Wall velocity in the plasma frame (the wall is at rest in the wall frame)."""
        return boost(0.0, self.vMid)

    def msq(self, name: str, x, k: int = 0):
        _, a, b = PARTICLES[name]
        f1, f2 = self.f1, self.f2
        if k == 0:
            return a * f1(x) ** 2 + b * f2(x) ** 2
        if k == 1:
            return 2 * a * f1(x) * f1(x, 1) + 2 * b * f2(x) * f2(x, 1)
        if k == 3:  # (f^2)''' = 2 f f''' + 6 f' f''
            return a * (2 * f1(x) * f1(x, 3) + 6 * f1(x, 1) * f1(x, 2)) + b * (
                2 * f2(x) * f2(x, 3) + 6 * f2(x, 1) * f2(x, 2)
            )
        raise ValueError(k)


# ----------------------------------------------------------------------------- source coefficients
def dfeq(x, s):
    """d f_eq / d x for f_eq = 1/(exp(x) - s):  -1/(4 sinh^2(x/2)) (boson), -1/(4 cosh^2(x/2)) (fermion)."""
    x = np.asarray(x, dtype=float)
    h = np.where(np.asarray(s) > 0, np.sinh(0.5 * x), np.cosh(0.5 * x))
    return -1.0 / (4.0 * h * h)


def source_coeffs(g: OGrid, bg: Background, names: list[str]):
    """Arrays A_v, A_T, A_m of shape (P, M-1, N-1, N-1) with
    source = A_v dv/dchi + A_T dT/dchi + A_m dm^2/dchi   (derivatives at the interior chi points)."""
    chi = g.chi
    T = bg.T(chi)[None, :, None, None]
    v = bg.vPlasma(chi)[None, :, None, None]
    vw = bg.vWallPlasma()
    msq = np.array([bg.msq(n, chi) for n in names])[:, :, None, None]
    stat = np.array([PARTICLES[n][0] for n in names])[:, None, None, None]
    pz = g.pz[None, None, :, None]
    pp = g.pp[None, None, None, :]
    E = np.sqrt(msq + pz**2 + pp**2)
    gw = 1.0 / np.sqrt(1.0 - vw * vw)
    Pw = gw * (pz - vw * E)
    gp = 1.0 / np.sqrt(1.0 - v * v)
    Ep = gp * (E - v * pz)
    Pp = gp * (pz - v * E)
    uu = gw * gp * (vw - v)
    pref = dfeq(Ep / T, stat) / T * g.dchidxi[None, :, None, None]
    A_v = pref * Pw * Pp * gp**2
    A_T = pref * Pw * Ep / T
    A_m = pref * 0.5 * uu
    shape = (len(names), g.M - 1, g.N - 1, g.N - 1)
    return tuple(np.broadcast_to(a, shape).copy() for a in (A_v, A_T, A_m))


# ----------------------------------------------------------------------------- derivative matrices
def lagrange_diff_matrix(x: np.ndarray) -> np.ndarray:
    """D_ij = l_j'(x_i) for the Lagrange polynomials on the nodes x, via barycentric weights."""
    n = len(x)
    dx = x[:, None] - x[None, :]
    np.fill_diagonal(dx, 1.0)
    w = 1.0 / np.prod(dx, axis=1)
    D = (w[None, :] / w[:, None]) / dx
    np.fill_diagonal(D, 0.0)
    D[np.arange(n), np.arange(n)] = -np.sum(D, axis=1)
    return D


def fd3_matrix(x: np.ndarray) -> np.ndarray:
    """Second-order (3-point) finite-difference first-derivative matrix on a non-uniform grid:
    central Lagrange weights in the interior, one-sided 3-point rows at the two ends."""
    n = len(x)
    D = np.zeros((n, n))
    for i in range(n):
        j0 = min(max(i - 1, 0), n - 3)
        idx = [j0, j0 + 1, j0 + 2]
        for j in idx:
            others = [k for k in idx if k != j]
            a, b = others
            # l_j'(x_i) = ((x_i - a) + (x_i - b)) / ((x_j - a)(x_j - b))
            D[i, j] = ((x[i] - x[a]) + (x[i] - x[b])) / ((x[j] - x[a]) * (x[j] - x[b]))
    return D


def cheb_T(n, x):
    return np.cos(np.asarray(n) * np.arccos(np.clip(x, -1.0, 1.0)))


def basis_matrix(basis: str, direction: str, g: OGrid) -> np.ndarray:
    """K_{point, index}: value at interior grid point of basis function `index`.
    Cardinal: identity.  Chebyshev: restricted polynomials vanishing at the dropped end points,
    z/pz: T_n - (1 | x) for n = 2..size (n even | odd);   pp: T_n - 1 for n = 1..N-1."""
    if direction == "z":
        x, n = g.chi, np.arange(2, g.M + 1)
    elif direction == "pz":
        x, n = g.rz, np.arange(2, g.N + 1)
    else:
        x, n = g.rp, np.arange(1, g.N)
    if basis == "Cardinal":
        return np.identity(len(x))
    T = cheb_T(n[None, :], x[:, None])
    if direction == "pp":
        return T - 1.0
    return T - np.where(n[None, :] % 2 == 0, 1.0, x[:, None])


def to_grid_values(deltaF: np.ndarray, basisM: str, basisN: str, g: OGrid):
    """Convert coefficients (P, M-1, N-1, N-1) in (basisM, basisN, basisN) to values on the grid.
    Also returns the rounding scale sum |K K K| |coeff|."""
    Kz, Kpz, Kpp = basis_matrix(basisM, "z", g), basis_matrix(basisN, "pz", g), basis_matrix(basisN, "pp", g)
    val = np.einsum("ai,bj,ck,pijk->pabc", Kz, Kpz, Kpp, deltaF, optimize=True)
    scale = np.einsum("ai,bj,ck,pijk->pabc", np.abs(Kz), np.abs(Kpz), np.abs(Kpp), np.abs(deltaF), optimize=True)
    return val, scale


# ----------------------------------------------------------------------------- collision operators
def collision_cardinal(kind: str, P: int, N: int) -> np.ndarray:
    """Synthetic non-singular collision operators on the momentum grid (all four momentum indices in the
    cardinal basis), shape (P, N-1, N-1, P, N-1, N-1); the matrix (a,alpha,beta) x (b,j,k).

    relax: kappa * identity  (relaxation-time approximation), kappa = 1.
    dense: FIXED integer-valued, strictly diagonally dominant (hence non-singular, condition number < 7)
           tensor times 2^-k; no entry is random: off-diagonal = ((7a+3al+5be+11b+13j+2k+al*j+be*k) mod 7) - 3,
           diagonal = 4 n + ((a+al+be) mod 3), n = P (N-1)^2.
    """
    n1 = N - 1
    n = P * n1 * n1
    if kind == "relax":
        return np.identity(n).reshape(P, n1, n1, P, n1, n1) * 1.0
    if kind == "dense":
        a, al, be, b, j, k = np.ix_(*(np.arange(s) for s in (P, n1, n1, P, n1, n1)))
        off = ((7 * a + 3 * al + 5 * be + 11 * b + 13 * j + 2 * k + al * j + be * k) % 7) - 3
        C = off.astype(float).reshape(n, n)
        ia, ial, ibe = np.unravel_index(np.arange(n), (P, n1, n1))
        C[np.arange(n), np.arange(n)] = 4 * n + ((ia + ial + ibe) % 3)
        scale = 2.0 ** (-int(np.ceil(np.log2(4 * n))))  # power of two: entries stay exactly representable
        return (C * scale).reshape(P, n1, n1, P, n1, n1)
    raise ValueError(kind)


def collision_in_basis(Ccard: np.ndarray, basisN: str, g: OGrid) -> np.ndarray:
    """Representation acting on coefficients in basisN: C[a,al,be,b,j,k] = sum_{j',k'} Ccard[..,j',k'] K_pz[j',j] K_pp[k',k]."""
    Kpz, Kpp = basis_matrix(basisN, "pz", g), basis_matrix(basisN, "pp", g)
    return np.einsum("xyzbmn,mj,nk->xyzbjk", Ccard, Kpz, Kpp, optimize=True)
