"""Independent hydrodynamics oracle: self-similar flow integrated in the similarity
variable xi (WallGo integrates in the fluid velocity v), junction conditions written out
directly, own matching solver. Shares no code with WallGo.
"""
from __future__ import annotations

import numpy as np
from scipy.integrate import solve_ivp
from scipy.optimize import brentq

from .eos import EOS, gamma2, lorentz_mu


def _rhs(eos: EOS, ph: str):
    def f(xi, y):
        v, T = y
        mu = lorentz_mu(xi, v)
        cs2 = eos.csq(ph, T)
        dv = 2 * v / xi / (gamma2(v) * (1 - v * xi) * (mu * mu / cs2 - 1))
        dT = T * gamma2(v) * mu * dv
        return [dv, dT]

    return f


def shock_profile(eos: EOS, vw, vp, Tp, rtol=1e-10, dense=False):
    """Integrate the compression wave in front of the wall from xi=vw outwards until the
    shock condition mu(xi,v)*xi = cs_s^2(T) or until the flow has decayed to the acoustic
    limit. Returns dict(xi_sh, v_sh, T_sh, kind, sol)."""
    v0 = lorentz_mu(vw, vp)  # plasma-frame fluid velocity just in front of the wall
    if v0 <= 0:
        return dict(xi_sh=np.sqrt(eos.csq("s", Tp)), v_sh=0.0, T_sh=Tp, kind="no-flow", sol=None)
    cs2 = eos.csq("s", Tp)
    if lorentz_mu(vw, v0) * vw >= cs2:
        # wall itself is the shock front (vp*vw >= cs^2: no room for a compression wave)
        return dict(xi_sh=vw, v_sh=v0, T_sh=Tp, kind="wall-is-shock", sol=None)

    def ev_shock(xi, y):
        v, T = y
        return lorentz_mu(xi, v) * xi - eos.csq("s", T)

    ev_shock.terminal = True
    ev_shock.direction = 1

    def ev_small(xi, y):
        return y[0] - 1e-9 * v0

    ev_small.terminal = True
    ev_small.direction = -1
    sol = solve_ivp(_rhs(eos, "s"), [vw, 1.0 - 1e-12], [v0, Tp], events=[ev_shock, ev_small], rtol=rtol, atol=0,
                    method="DOP853", dense_output=dense)
    if sol.status == 1 and len(sol.t_events[0]):
        xi_sh = float(sol.t_events[0][0])
        v_sh, T_sh = (float(x) for x in sol.y_events[0][0])
        kind = "shock"
    elif sol.status == 1:
        xi_sh = float(sol.t_events[1][0])
        v_sh, T_sh = (float(x) for x in sol.y_events[1][0])
        kind = "acoustic"
    else:
        xi_sh, v_sh, T_sh = float(sol.t[-1]), float(sol.y[0, -1]), float(sol.y[1, -1])
        # a weak compression wave decays towards the acoustic limit xi -> c_s, v -> 0 where the ODE is singular and the
        # integrator stalls; if the flow has already decayed by six orders of magnitude this IS the acoustic end
        kind = "acoustic" if (sol.status == -1 and 0 <= v_sh < 1e-6 * v0) else "incomplete"
    return dict(xi_sh=xi_sh, v_sh=v_sh, T_sh=T_sh, kind=kind, sol=sol)


def shock_Tn(eos: EOS, vw, vp, Tp, rtol=1e-10):
    """Temperature of the plasma at rest in front of the shock obtained by energy-flux
    conservation across the front; also the momentum-flux residual there.
    Returns dict(Tn, mom_res_rel, xi_sh, kind)."""
    pr = shock_profile(eos, vw, vp, Tp, rtol)
    xi, v, T = pr["xi_sh"], pr["v_sh"], pr["T_sh"]
    if pr["kind"] in ("acoustic", "no-flow"):
        return dict(Tn=T, mom_res_rel=0.0, xi_sh=xi, kind=pr["kind"])
    vin = xi  # shock frame: unperturbed plasma flows in with xi
    vout = lorentz_mu(xi, v)
    flux = eos.w("s", T) * gamma2(vout) * vout

    def g(tn):
        return eos.w("s", tn) * gamma2(vin) * vin - flux

    lo, hi = T, T
    # Tn < T_sh (compression heats the plasma)
    for _ in range(200):
        lo *= 0.9
        if g(lo) < 0:
            break
    tn = brentq(g, lo, hi, xtol=1e-15 * T, rtol=1e-15)
    mom_in = eos.w("s", tn) * gamma2(vin) * vin * vin + eos.p("s", tn)
    mom_out = eos.w("s", T) * gamma2(vout) * vout * vout + eos.p("s", T)
    return dict(Tn=tn, mom_res_rel=abs(mom_in - mom_out) / abs(eos.w("s", tn)), xi_sh=xi, kind=pr["kind"])


def kappa(eos: EOS, vw, vp, vm, Tp, Tm, Tn, alN, rtol=1e-10):
    """Efficiency factor 4/(vw^3 alN w_n) * int xi^2 v^2 gamma^2 w dxi over the oracle's own
    profile: compression wave in front (symmetric phase) + rarefaction wave behind (broken)."""
    wn = eos.w("s", Tn)
    tot = 0.0
    parts = {}
    # absolute tolerance of the running integral: 1e-14 of its natural scale (unit covariant)
    iatol = 1e-14 * vw**3 * wn
    # compression wave
    v0 = lorentz_mu(vw, vp)
    if v0 > 1e-14:
        def f(xi, y):
            v, T, I = y
            dv, dT = _rhs(eos, "s")(xi, [v, T])
            return [dv, dT, xi * xi * v * v * gamma2(v) * eos.w("s", T)]

        def ev_shock(xi, y):
            return lorentz_mu(xi, y[0]) * xi - eos.csq("s", y[1])

        ev_shock.terminal = True
        ev_shock.direction = 1

        def ev_small(xi, y):
            return y[0] - 1e-9 * v0

        ev_small.terminal = True
        if lorentz_mu(vw, v0) * vw < eos.csq("s", Tp):
            sol = solve_ivp(f, [vw, 1 - 1e-12], [v0, Tp, 0.0], events=[ev_shock, ev_small], rtol=rtol, atol=[0, 0, iatol], method="DOP853")
            parts["shock"] = float(sol.y[2, -1])
            tot += parts["shock"]
    # rarefaction wave behind the wall: from xi = vw down to xi = cs_b where v -> 0
    vb = lorentz_mu(vw, vm)
    if vb > 1e-14:
        jouguet = abs(vm * vm - eos.csq("b", Tm)) < 1e-6  # hybrid: the wave starts at mu = c_b where d(xi)/dv = 0
        if not jouguet:
            def fb(xi, y):
                v, T, I = y
                dv, dT = _rhs(eos, "b")(xi, [v, T])
                return [dv, dT, xi * xi * v * v * gamma2(v) * eos.w("b", T)]

            def ev_small_b(xi, y):
                return y[0] - 1e-9 * vb

            ev_small_b.terminal = True
            sol = solve_ivp(fb, [vw, 1e-6], [vb, Tm, 0.0], events=[ev_small_b], rtol=rtol, atol=[0, 0, iatol], method="DOP853")
            parts["rarefaction"] = -float(sol.y[2, -1])  # integrating towards smaller xi
        else:
            # the xi-form is singular at the start; use the fluid velocity as the independent variable there
            def fv(v, y):
                xi, T, I = y
                mu = lorentz_mu(xi, v)
                dxi = xi * gamma2(v) * (1 - v * xi) * (mu * mu / eos.csq("b", T) - 1) / (2 * v)
                return [dxi, T * gamma2(v) * mu, xi * xi * v * v * gamma2(v) * eos.w("b", T) * dxi]

            sol = solve_ivp(fv, [vb, 1e-9 * vb], [vw, Tm, 0.0], rtol=rtol, atol=[0, 0, iatol], method="DOP853")
            parts["rarefaction"] = -float(sol.y[2, -1])  # xi decreases along the integration
        tot += parts["rarefaction"]
    return 4 * tot / (vw**3 * alN * wn), parts


def junction_residuals(eos: EOS, vp, vm, Tp, Tm):
    """Relative energy- and momentum-flux mismatch across the wall."""
    wp, wm = eos.w("s", Tp), eos.w("b", Tm)
    e1, e2 = wp * gamma2(vp) * vp, wm * gamma2(vm) * vm
    m1, m2 = wp * gamma2(vp) * vp * vp + eos.p("s", Tp), wm * gamma2(vm) * vm * vm + eos.p("b", Tm)
    se = max(abs(e1), abs(e2))
    sm = max(wp * gamma2(vp) * vp * vp + abs(eos.p("s", Tp)), wm * gamma2(vm) * vm * vm + abs(eos.p("b", Tm)))
    return abs(e1 - e2) / se, abs(m1 - m2) / sm, (e1, e2, m1, m2)


def solve_wall_given_vp(eos: EOS, vw, vp, Tguess, Tlo, Thi):
    """Given vw and vp solve the two junction conditions for (Tp, Tm) with v- = min(vw, cs_b(Tm)).
    Strategy independent of WallGo: eliminate Tp by a 1-D root in Tp for each Tm (energy flux),
    then a 1-D root in Tm for the momentum flux. Returns (Tp, Tm, vm) or None."""

    def vm_of(Tm):
        return min(vw, np.sqrt(max(eos.csq("b", Tm), 0.0)))

    def Tp_of(Tm):
        vm = vm_of(Tm)
        target = eos.w("b", Tm) * gamma2(vm) * vm

        def g(Tp):
            return eos.w("s", Tp) * gamma2(vp) * vp - target

        a, b = Tlo, Thi
        ga, gb = g(a), g(b)
        if not (ga < 0 < gb):
            return None
        return brentq(g, a, b, xtol=1e-14 * Tguess, rtol=1e-15)

    def h(Tm):
        Tp = Tp_of(Tm)
        if Tp is None:
            return np.nan
        vm = vm_of(Tm)
        return (eos.w("s", Tp) * gamma2(vp) * vp * vp + eos.p("s", Tp)) - (eos.w("b", Tm) * gamma2(vm) * vm * vm + eos.p("b", Tm))

    # scan for sign changes of h on a log grid around the guess
    grid = Tguess * np.exp(np.linspace(np.log(Tlo / Tguess), np.log(Thi / Tguess), 241))
    vals = np.array([h(t) for t in grid])
    roots = []
    for i in range(len(grid) - 1):
        a, b = vals[i], vals[i + 1]
        if np.isfinite(a) and np.isfinite(b) and a * b < 0:
            Tm = brentq(h, grid[i], grid[i + 1], xtol=1e-14 * Tguess, rtol=1e-15)
            Tp = Tp_of(Tm)
            roots.append((Tp, Tm, vm_of(Tm)))
    return roots


def solve_matching(eos: EOS, Tn, vw, vJ, ngrid=40, nT=81):
    """Oracle's own search for an exact deflagration/hybrid matching at wall velocity vw < vJ:
    for every v+ on a grid solve the two junction conditions for (T+,T-) (all roots), integrate the
    compression wave and cross the shock; look for v+ where the temperature ahead equals Tn.
    Returns dict(vp, vm, Tp, Tm, Tn_err) or None if no exact matching was found on the grid."""
    if vw > vJ:
        return None
    xs = np.concatenate([np.geomspace(1e-3, 0.2, ngrid // 3, endpoint=False), np.linspace(0.2, 0.9995, ngrid - ngrid // 3)])
    rows = []
    for x in xs:
        vp = vw * x
        try:
            roots = _junction_roots(eos, vw, vp, Tn, nT)
        except Exception:
            roots = []
        out = []
        for (Tp, Tm, vm) in roots:
            if Tp is None or not (Tp > 0 and Tm > 0):
                continue
            try:
                d = shock_Tn(eos, vw, vp, Tp, rtol=1e-9)["Tn"] - Tn
            except Exception:
                continue
            out.append((Tp, Tm, vm, d))
        rows.append((vp, out))
    for (vpa, ra), (vpb, rb) in zip(rows[:-1], rows[1:]):
        if not ra or len(ra) != len(rb):
            continue
        for (a, b) in zip(ra, rb):
            if a[3] * b[3] <= 0:
                Tm_guess = 0.5 * (a[1] + b[1])

                def F(vp):
                    rts = _junction_roots(eos, vw, vp, Tn, nT)
                    rts = [q for q in rts if q[0] is not None]
                    if not rts:
                        return np.nan
                    q = min(rts, key=lambda q: abs(q[1] - Tm_guess))
                    return shock_Tn(eos, vw, vp, q[0], rtol=1e-10)["Tn"] - Tn

                try:
                    fa, fb = F(vpa), F(vpb)
                    if not (np.isfinite(fa) and np.isfinite(fb)) or fa * fb > 0:
                        continue
                    vp = brentq(F, vpa, vpb, xtol=1e-13, rtol=1e-12)
                except Exception:
                    continue
                rts = [q for q in _junction_roots(eos, vw, vp, Tn, nT) if q[0] is not None]
                q = min(rts, key=lambda q: abs(q[1] - Tm_guess))
                return dict(vp=float(vp), vm=float(q[2]), Tp=float(q[0]), Tm=float(q[1]), Tn_err=float(F(vp) / Tn))
    return None


def _junction_roots(eos, vw, vp, Tn, nT):
    """all (Tp, Tm, vm) solving both junction conditions for given vw, vp; T in [0.3, 3] Tn"""
    Tlo, Thi = 0.3 * Tn, 3.0 * Tn

    def vm_of(Tm):
        return min(vw, np.sqrt(max(eos.csq("b", Tm), 0.0)))

    def Tp_of(Tm):
        vm = vm_of(Tm)
        target = eos.w("b", Tm) * gamma2(vm) * vm

        def g(Tp):
            return eos.w("s", Tp) * gamma2(vp) * vp - target

        if not (g(Tlo * 0.2) < 0 < g(Thi * 5)):
            return None
        return brentq(g, Tlo * 0.2, Thi * 5, xtol=1e-14 * Tn, rtol=1e-15)

    def h(Tm):
        Tp = Tp_of(Tm)
        if Tp is None:
            return np.nan
        vm = vm_of(Tm)
        return ((eos.w("s", Tp) * gamma2(vp) * vp * vp + eos.p("s", Tp)) - (eos.w("b", Tm) * gamma2(vm) * vm * vm + eos.p("b", Tm))) / eos.w("s", Tn)

    grid = np.geomspace(Tlo, Thi, nT)
    vals = np.array([h(t) for t in grid])
    roots = []
    for i in range(len(grid) - 1):
        a, b = vals[i], vals[i + 1]
        if np.isfinite(a) and np.isfinite(b) and a * b < 0:
            Tm = brentq(h, grid[i], grid[i + 1], xtol=1e-14 * Tn, rtol=1e-15)
            roots.append((Tp_of(Tm), Tm, vm_of(Tm)))
    return roots
