"""Analytic polynomial models with closed-form phases, used as oracles and as WallGo models.

Families
* QuarticZ2(mu2, c, Lam, a): V = sum_i 1/2 (mu2_i + c_i T^2) phi_i^2 + 1/4 sum_ij Lam_ij phi_i^2 phi_j^2 - a T^4
  (xsm2 = the two-field potential of SingletStandardModel_Z2_Simple; xsm3 adds a third coupled field).
  Phase with support S: phi_S^2 = u = -Lam_SS^-1 M_S, V = 1/4 M_S.u - a T^4, everything linear in T^2.
* Cubic1(D, E, lam, T0, a): V = D (T^2 - T0^2) phi^2 - E T phi^3 + lam phi^4/4 - a T^4  (one field, fold at T1).
Wrappers: Scaled(model, s) (units), Relabel(model, perm, signs, shift) (hyperoctahedral group + translation).

All functions broadcast: phi has shape (..., nf), T broadcastable against phi[..., 0].
"""
from __future__ import annotations

import itertools

import numpy as np


class AnalyticModel:
    nf: int
    name: str = "model"

    def V(self, phi, T):
        raise NotImplementedError

    def dVdT(self, phi, T):
        raise NotImplementedError

    def grad(self, phi, T):  # (..., nf)
        raise NotImplementedError

    def hess(self, phi, T):  # (..., nf, nf)
        raise NotImplementedError

    def dgraddT(self, phi, T):  # (..., nf)
        raise NotImplementedError

    def d2VdT2(self, phi, T):
        raise NotImplementedError

    def phase_names(self):
        raise NotImplementedError

    def phase(self, name, T):
        """location of the named phase at temperature T (array (nf,)) or None if it does not exist as a minimum"""
        raise NotImplementedError

    # convenient derived quantities --------------------------------------------------
    def p(self, name, T):
        return -self.V(self.phase(name, T), T)

    def is_minimum(self, name, T):
        loc = self.phase(name, T)
        if loc is None:
            return False
        return bool(np.all(np.linalg.eigvalsh(self.hess(loc, T)) > 0))

    def field_scale(self):
        raise NotImplementedError

    def temperature_scale(self):
        raise NotImplementedError


class QuarticZ2(AnalyticModel):
    def __init__(self, mu2, c, Lam, a, name="quarticZ2"):
        self.mu2 = np.asarray(mu2, float)
        self.c = np.asarray(c, float)
        self.Lam = np.asarray(Lam, float)
        assert np.allclose(self.Lam, self.Lam.T)
        self.a = float(a)
        self.nf = len(self.mu2)
        self.name = name

    def M(self, T):
        T = np.asarray(T, float)
        return self.mu2 + self.c * T[..., None] ** 2

    def V(self, phi, T):
        phi = np.asarray(phi, float)
        T = np.asarray(T, float)
        u = phi**2
        quad = 0.5 * np.sum(self.M(T) * u, axis=-1)
        quart = 0.25 * np.einsum("...i,ij,...j->...", u, self.Lam, u)
        return quad + quart - self.a * T**4

    def dVdT(self, phi, T):
        phi = np.asarray(phi, float)
        T = np.asarray(T, float)
        return T * np.sum(self.c * phi**2, axis=-1) - 4 * self.a * T**3

    def d2VdT2(self, phi, T):
        phi = np.asarray(phi, float)
        T = np.asarray(T, float)
        return np.sum(self.c * phi**2, axis=-1) - 12 * self.a * T**2

    def grad(self, phi, T):
        phi = np.asarray(phi, float)
        u = phi**2
        return phi * (self.M(T) + np.einsum("ij,...j->...i", self.Lam, u))

    def dgraddT(self, phi, T):
        phi = np.asarray(phi, float)
        T = np.asarray(T, float)
        return 2 * T[..., None] * self.c * phi

    def hess(self, phi, T):
        phi = np.asarray(phi, float)
        u = phi**2
        diag = self.M(T) + np.einsum("ij,...j->...i", self.Lam, u)
        H = 2 * self.Lam * phi[..., :, None] * phi[..., None, :]
        idx = np.arange(self.nf)
        H[..., idx, idx] += diag
        return H

    # phases -------------------------------------------------------------------------
    def phase_names(self):
        out = []
        for k in range(0, self.nf + 1):
            for S in itertools.combinations(range(self.nf), k):
                out.append("S" + "".join(str(i) for i in S))
        return out

    @staticmethod
    def _support(name):
        return [int(ch) for ch in name[1:]]

    def u_of(self, name, T):
        S = self._support(name)
        if not S:
            return np.zeros(0)
        return -np.linalg.solve(self.Lam[np.ix_(S, S)], self.M(np.asarray(T, float))[S])

    def phase(self, name, T):
        S = self._support(name)
        u = self.u_of(name, T)
        if np.any(u <= 0):
            return None
        loc = np.zeros(self.nf)
        loc[S] = np.sqrt(u)
        return loc

    def offsupport_curvature(self, name, T):
        """curvatures M_k + sum_j Lam_kj u_j of the directions outside the support"""
        S = self._support(name)
        u = self.u_of(name, T)
        K = [k for k in range(self.nf) if k not in S]
        M = self.M(np.asarray(T, float))
        return {k: float(M[k] + (self.Lam[k, S] @ u if S else 0.0)) for k in K}

    def spinodals(self, name):
        """Temperatures (sorted) at which the phase stops being a minimum: off-support curvature
        crossing zero ('subcritical' instability) or a support field reaching zero ('merge')."""
        S = self._support(name)
        out = []
        # everything is linear in tau = T^2: q(tau) = q0 + q1 tau
        def lin(fun):
            f0, f1 = fun(0.0), fun(1.0)
            return f0, f1 - f0

        K = [k for k in range(self.nf) if k not in S]
        for k in K:
            q0, q1 = lin(lambda tau: self.offsupport_curvature(name, np.sqrt(tau))[k])
            if q1 != 0 and -q0 / q1 > 0:
                out.append((float(np.sqrt(-q0 / q1)), "instability", k))
        for i, s in enumerate(S):
            q0, q1 = lin(lambda tau: self.u_of(name, np.sqrt(tau))[i])
            if q1 != 0 and -q0 / q1 > 0:
                out.append((float(np.sqrt(-q0 / q1)), "merge", s))
        return sorted(out)

    def Tc(self, nameA, nameB):
        """Critical temperatures where V_A = V_B (closed form: quadratic in tau=T^2 difference)."""
        def dV(tau):
            T = np.sqrt(tau)
            return 0.25 * (self.M(T)[self._support(nameA)] @ self.u_of(nameA, T) if self._support(nameA) else 0.0) - 0.25 * (
                self.M(T)[self._support(nameB)] @ self.u_of(nameB, T) if self._support(nameB) else 0.0
            )

        # dV is a quadratic polynomial in tau: fit exactly from three points
        t = np.array([0.0, 1.0, 2.0])
        co = np.polyfit(t, [dV(x) for x in t], 2)
        roots = np.roots(co)
        return sorted(float(np.sqrt(r.real)) for r in roots if abs(r.imag) < 1e-12 * max(1, abs(r.real)) and r.real > 0)

    def field_scale(self):
        return None

    def temperature_scale(self):
        return None


def xsm2(muh2=-7812.5, lh=0.12910, mus2=-12832.0, ls=1.0, lhs=0.9, ch=0.4373, cs=0.4, a=107.75 * np.pi**2 / 90):
    """Two-field Z2 potential of SingletStandardModel_Z2_Simple:
    V = 1/2 (muh2 + ch T^2) v^2 + lh/4 v^4 + 1/2 (mus2 + cs T^2) x^2 + ls/4 x^4 + lhs/4 v^2 x^2 - a T^4."""
    Lam = np.array([[lh, lhs / 2], [lhs / 2, ls]])
    m = QuarticZ2([muh2, mus2], [ch, cs], Lam, a, name=f"xsm2(muh2={muh2:g},lh={lh:g},mus2={mus2:g},ls={ls:g},lhs={lhs:g},ch={ch:g},cs={cs:g})")
    return m


def xsm3(**kw):
    """xsm2 plus a third field y that is non-zero (together with x) in the high-T phase: phases S0 and S12."""
    base = xsm2(**kw)
    ly, lsy, lhy = 0.8, 0.3, 1.1
    muy2, cy = -6000.0, 0.35
    Lam = np.zeros((3, 3))
    Lam[:2, :2] = base.Lam
    Lam[2, 2] = ly
    Lam[1, 2] = Lam[2, 1] = lsy / 2
    Lam[0, 2] = Lam[2, 0] = lhy / 2
    return QuarticZ2(list(base.mu2) + [muy2], list(base.c) + [cy], Lam, base.a, name="xsm3")


class Cubic1(AnalyticModel):
    nf = 1

    def __init__(self, D, E, lam, T0, a):
        self.D, self.E, self.lam, self.T0, self.a = D, E, lam, T0, a
        self.name = f"cubic1(D={D:g},E={E:g},lam={lam:g},T0={T0:g},a={a:g})"

    def V(self, phi, T):
        f = np.asarray(phi, float)[..., 0]
        T = np.asarray(T, float)
        return self.D * (T**2 - self.T0**2) * f**2 - self.E * T * f**3 + self.lam * f**4 / 4 - self.a * T**4

    def dVdT(self, phi, T):
        f = np.asarray(phi, float)[..., 0]
        T = np.asarray(T, float)
        return 2 * self.D * T * f**2 - self.E * f**3 - 4 * self.a * T**3

    def d2VdT2(self, phi, T):
        f = np.asarray(phi, float)[..., 0]
        T = np.asarray(T, float)
        return 2 * self.D * f**2 - 12 * self.a * T**2

    def grad(self, phi, T):
        f = np.asarray(phi, float)[..., 0]
        T = np.asarray(T, float)
        return (2 * self.D * (T**2 - self.T0**2) * f - 3 * self.E * T * f**2 + self.lam * f**3)[..., None]

    def dgraddT(self, phi, T):
        f = np.asarray(phi, float)[..., 0]
        T = np.asarray(T, float)
        return (4 * self.D * T * f - 3 * self.E * f**2)[..., None]

    def hess(self, phi, T):
        f = np.asarray(phi, float)[..., 0]
        T = np.asarray(T, float)
        return (2 * self.D * (T**2 - self.T0**2) - 6 * self.E * T * f + 3 * self.lam * f**2)[..., None, None]

    def phase_names(self):
        return ["sym", "brk"]

    def phase(self, name, T):
        if name == "sym":
            return np.zeros(1) if T > self.T0 else None
        disc = 9 * self.E**2 * T**2 - 8 * self.lam * self.D * (T**2 - self.T0**2)
        if disc <= 0:
            return None
        return np.array([(3 * self.E * T + np.sqrt(disc)) / (2 * self.lam)])

    def Tc(self):
        return self.T0 / np.sqrt(1 - self.E**2 / (self.lam * self.D))

    def T1(self):
        """fold: the broken minimum ceases to exist above T1"""
        return self.T0 / np.sqrt(1 - 9 * self.E**2 / (8 * self.lam * self.D))

    def spinodals(self, name):
        if name == "sym":
            return [(self.T0, "merge", 0)]
        return [(self.T1(), "fold", 0)]


class Spectator(AnalyticModel):
    """base model + one extra field b (appended last) that sits at b = 0 in every phase:
    V = V_base(a) + 1/2 (m2 + c T^2) b^2 + 1/4 kappa |a|^2 b^2 + 1/4 lb b^4, all parameters positive. The phases, pressures
    and spinodals are those of the base model; the extra field only tests code that reduces over fields (C08: a relabelling
    can put the field that does NOT change between the phases first)."""

    def __init__(self, base: AnalyticModel, m2, c, kappa, lb):
        self.b, self.nf = base, base.nf + 1
        self.m2, self.c, self.kappa, self.lb = m2, c, kappa, lb
        self.name = f"{base.name}+spectator(m2={m2:g},c={c:g},kappa={kappa:g},lb={lb:g})"

    def _split(self, phi):
        phi = np.asarray(phi, float)
        return phi[..., :-1], phi[..., -1]

    def _mb2(self, a, T):
        return self.m2 + self.c * np.asarray(T, float) ** 2 + 0.5 * self.kappa * np.sum(a * a, axis=-1)

    def V(self, phi, T):
        a, b = self._split(phi)
        return self.b.V(a, T) + 0.5 * self._mb2(a, T) * b**2 + 0.25 * self.lb * b**4

    def dVdT(self, phi, T):
        a, b = self._split(phi)
        return self.b.dVdT(a, T) + self.c * np.asarray(T, float) * b**2

    def d2VdT2(self, phi, T):
        a, b = self._split(phi)
        return self.b.d2VdT2(a, T) + self.c * b**2

    def grad(self, phi, T):
        a, b = self._split(phi)
        ga = self.b.grad(a, T) + 0.5 * self.kappa * a * (b**2)[..., None]
        gb = self._mb2(a, T) * b + self.lb * b**3
        ga, gb = np.broadcast_arrays(ga, gb[..., None])
        return np.concatenate([ga, gb[..., :1]], axis=-1)

    def dgraddT(self, phi, T):
        a, b = self._split(phi)
        da = self.b.dgraddT(a, T)
        db = 2 * self.c * np.asarray(T, float) * b
        da, db = np.broadcast_arrays(da, db[..., None])
        return np.concatenate([da, db[..., :1]], axis=-1)

    def hess(self, phi, T):
        a, b = self._split(phi)
        Hb = self.b.hess(a, T)
        n = self.b.nf
        shape = np.broadcast_shapes(Hb.shape[:-2], b.shape)
        H = np.zeros(shape + (n + 1, n + 1))
        H[..., :n, :n] = Hb + 0.5 * self.kappa * (b**2)[..., None, None] * np.eye(n)
        H[..., :n, n] = self.kappa * a * b[..., None]
        H[..., n, :n] = H[..., :n, n]
        H[..., n, n] = self._mb2(a, T) + 3 * self.lb * b**2
        return H

    def phase_names(self):
        return self.b.phase_names()

    def phase(self, name, T):
        loc = self.b.phase(name, T)
        return None if loc is None else np.concatenate([loc, [0.0]])

    def spinodals(self, name):
        return self.b.spinodals(name)

    def field_scale(self):
        return self.b.field_scale()

    def temperature_scale(self):
        return self.b.temperature_scale()


class Scaled(AnalyticModel):
    """Same physics in other units: fields and T multiplied by s, V by s^4."""

    def __init__(self, base: AnalyticModel, s: float):
        self.b, self.s, self.nf = base, float(s), base.nf
        self.name = f"{base.name}*units{s:g}"

    def V(self, phi, T):
        return self.s**4 * self.b.V(np.asarray(phi, float) / self.s, np.asarray(T, float) / self.s)

    def dVdT(self, phi, T):
        return self.s**3 * self.b.dVdT(np.asarray(phi, float) / self.s, np.asarray(T, float) / self.s)

    def d2VdT2(self, phi, T):
        return self.s**2 * self.b.d2VdT2(np.asarray(phi, float) / self.s, np.asarray(T, float) / self.s)

    def grad(self, phi, T):
        return self.s**3 * self.b.grad(np.asarray(phi, float) / self.s, np.asarray(T, float) / self.s)

    def dgraddT(self, phi, T):
        return self.s**2 * self.b.dgraddT(np.asarray(phi, float) / self.s, np.asarray(T, float) / self.s)

    def hess(self, phi, T):
        return self.s**2 * self.b.hess(np.asarray(phi, float) / self.s, np.asarray(T, float) / self.s)

    def phase_names(self):
        return self.b.phase_names()

    def phase(self, name, T):
        loc = self.b.phase(name, T / self.s)
        return None if loc is None else loc * self.s

    def spinodals(self, name):
        return [(t * self.s, k, i) for (t, k, i) in self.b.spinodals(name)]


class Relabel(AnalyticModel):
    """phi' = G phi + shift with G a signed permutation: phi'_i = signs[i] * phi_{perm[i]} + shift[i]."""

    def __init__(self, base: AnalyticModel, perm, signs, shift):
        self.b, self.nf = base, base.nf
        self.perm = list(perm)
        self.signs = np.asarray(signs, float)
        self.shift = np.asarray(shift, float)
        self.G = np.zeros((self.nf, self.nf))
        for i, p in enumerate(self.perm):
            self.G[i, p] = self.signs[i]
        self.name = f"{base.name}|perm={self.perm},signs={[int(s) for s in self.signs]},shift={[float(x) for x in self.shift]}"

    def to_base(self, phi):
        phi = np.asarray(phi, float)
        return (phi - self.shift) @ self.G  # G^T (phi' - t) as row-vector product

    def from_base(self, phi):
        return np.asarray(phi, float) @ self.G.T + self.shift

    def V(self, phi, T):
        return self.b.V(self.to_base(phi), T)

    def dVdT(self, phi, T):
        return self.b.dVdT(self.to_base(phi), T)

    def d2VdT2(self, phi, T):
        return self.b.d2VdT2(self.to_base(phi), T)

    def grad(self, phi, T):
        return self.b.grad(self.to_base(phi), T) @ self.G.T

    def dgraddT(self, phi, T):
        return self.b.dgraddT(self.to_base(phi), T) @ self.G.T

    def hess(self, phi, T):
        H = self.b.hess(self.to_base(phi), T)
        return np.einsum("ia,...ab,jb->...ij", self.G, H, self.G)

    def phase_names(self):
        return self.b.phase_names()

    def phase(self, name, T):
        loc = self.b.phase(name, T)
        return None if loc is None else self.from_base(loc)

    def spinodals(self, name):
        return self.b.spinodals(name)


def hyperoctahedral(n):
    """All signed permutations of n fields: (perm, signs)."""
    for perm in itertools.permutations(range(n)):
        for signs in itertools.product((1, -1), repeat=n):
            yield list(perm), list(signs)


# ------------------------------------------------------------------------- WallGo side
def make_potential(am: AnalyticModel, record=None):
    """A fresh WallGo.EffectivePotential subclass instance evaluating am.V."""
    import WallGo
    from WallGo import Fields

    class _Pot(WallGo.EffectivePotential):
        fieldCount = am.nf
        effectivePotentialError = 1e-15

        def evaluate(self, fields, temperature):
            f = Fields(fields)
            T = np.asarray(temperature, dtype=float)
            comps = [np.asarray(f.getField(i)) for i in range(am.nf)]
            # broadcast field components (npoints,) against T (possibly (k, npoints))
            phi = np.stack(np.broadcast_arrays(*[c + 0 * T for c in comps]), axis=-1)
            Tb = np.broadcast_to(T, phi.shape[:-1])
            if record is not None:
                record.append((np.array(phi), np.array(Tb)))
            return am.V(phi, Tb)

    return _Pot()


def make_model(am: AnalyticModel):
    """A fresh WallGo.GenericModel (own class, so the class-level particle list is not shared)."""
    import WallGo

    pot = make_potential(am)

    class _Model(WallGo.GenericModel):
        fieldCount = am.nf

        def __init__(self):
            self.potential = pot

        def getEffectivePotential(self):
            return self.potential

    return _Model()
