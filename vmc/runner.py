"""Runner for the bounded-exhaustive checks:  ./check <ID> [--tier quick|thorough] [--replay f]

Exit codes: 0 = property held on everything explored (known findings are printed as
KNOWN-FINDING lines), 1 = at least one violation not listed in known_findings.json
(VIOLATION lines printed), 2 = harness error (the check itself could not decide; never
mistaken for a pass, never printed as a VIOLATION).
"""
from __future__ import annotations

import argparse
import hashlib
import importlib
import json
import os
import re
import sys
import time
import traceback
import warnings

VERIF = os.path.dirname(os.path.dirname(os.path.abspath(__file__)))
OUT = os.environ.get("VERIF_OUT") or VERIF  # evidence/replays of mutant runs go elsewhere


def bootstrap_wallgo() -> str:
    """Put the tree under test first on sys.path and make sure it is the one imported."""
    src = os.environ.get("WALLGO_SRC", "/repo/src")
    src = os.path.abspath(src)
    if src in sys.path:
        sys.path.remove(src)
    sys.path.insert(0, src)
    import WallGo  # noqa: E402

    where = os.path.abspath(WallGo.__file__)
    if not where.startswith(src + os.sep):
        raise RuntimeError(f"WallGo imported from {where}, expected under {src}")
    return src


class Ctx:
    """Collects verdicts of one run and turns them into evidence / exit status."""

    def __init__(self, prop: str, tier: str, seed: int, level: str):
        self.prop = prop
        self.tier = tier
        self.seed = seed
        self.level = level
        self.t0 = time.time()
        self.evaluations = 0  # executions of real code (cases run)
        self.relations = 0  # oracle relations evaluated
        self.case_ids: set[str] = set()
        self.nontrivial: set[str] = set()
        self.inadmissible = 0
        self.tags: dict[str, int] = {}
        self.sections: dict[str, dict] = {}
        self.violations: list[dict] = []  # {key, case, relation, detail, params, section}
        self.harness_errors: list[dict] = []
        self.samples: list = []
        self.margin = 0.0
        self.margin_case = None
        self.states = 0
        self.transitions = 0
        self.traces = 0
        self.extra: dict = {}
        self.caps: list[str] = []
        self.exhaustive = None
        self.rule = ""
        self.assumptions: list[str] = []

    # -- recording -----------------------------------------------------------------
    def record(self, section: str, res: dict, params=None) -> None:
        """res: {id, verdict, tags, relations, margin, violations:[{relation, detail}], nontrivial, detail}"""
        cid = f"{section}/{res['id']}"
        sec = self.sections.setdefault(
            section, {"cases": 0, "ok": 0, "violation": 0, "inadmissible": 0, "harness-error": 0, "relations": 0}
        )
        sec["cases"] += 1
        self.evaluations += 1
        self.case_ids.add(cid)
        verdict = res.get("verdict", "ok")
        sec[verdict] = sec.get(verdict, 0) + 1
        nrel = int(res.get("relations", 0))
        sec["relations"] += nrel
        self.relations += nrel
        for t in res.get("tags", []) or []:
            self.tags[t] = self.tags.get(t, 0) + 1
        if verdict == "inadmissible":
            self.inadmissible += 1
        elif res.get("nontrivial", True) and verdict in ("ok", "violation"):
            self.nontrivial.add(cid)
        m = res.get("margin")
        if m is not None and m == m and m > self.margin:
            self.margin = float(m)
            self.margin_case = cid + (("::" + str(res["margin_at"])) if res.get("margin_at") else "")
        if verdict == "violation":
            for v in res.get("violations", []) or [{"relation": "unspecified", "detail": res.get("detail")}]:
                self.violations.append(
                    {
                        "key": f"{cid}::{v['relation']}",
                        "case": cid,
                        "section": section,
                        "relation": v["relation"],
                        "detail": v.get("detail"),
                        "params": params if params is not None else res.get("params"),
                    }
                )
        elif verdict == "harness-error":
            self.harness_errors.append({"case": cid, "detail": res.get("detail")})
        if len(self.samples) < 6 and verdict == "ok" and (sec["cases"] in (1, 7)):
            self.samples.append({"case": cid, "params": params, "tags": res.get("tags"), "detail": res.get("detail")})

    def run_lattice(self, section: str, cases: list[dict], fn, timeout: float = 600.0, procs: int | None = None):
        """Run fn(params) on every case (16 workers), record every verdict. Returns results."""
        from . import lattice

        results = lattice.run_cases(fn, cases, timeout=timeout, procs=procs)
        for params, res in zip(cases, results):
            self.record(section, res, params)
        return results

    def add_bfs(self, states: int, transitions: int, traces: int | None = None) -> None:
        self.states += int(states)
        self.transitions += int(transitions)
        self.traces += int(traces if traces is not None else transitions)

    def note(self, key: str, value) -> None:
        self.extra[key] = value

    def cap(self, text: str) -> None:
        self.caps.append(text)

    # -- finishing -----------------------------------------------------------------
    def finish(self) -> int:
        known = load_known_findings()
        listed = {}
        prefixes = []
        regexes = []
        for f in known.get("findings", []):
            if f.get("property") != self.prop:
                continue
            for k in f.get("keys", []):
                listed[k] = f
            for k in f.get("key_prefixes", []):  # one prefix = one specific failing input (case + sub-point)
                prefixes.append((k, f))
            for k in f.get("key_regex", []):  # an input REGION + a signature computed by the check (see the finding's text)
                regexes.append((re.compile(k), f))
        new, old = [], {}
        for v in self.violations:
            f = listed.get(v["key"])
            if f is None:
                for k, pf in prefixes:
                    if v["key"].startswith(k):
                        f = pf
                        break
            if f is None:
                for rx, pf in regexes:
                    if rx.search(v["key"]):
                        f = pf
                        break
            if f is None:
                new.append(v)
            else:
                old.setdefault(f["id"], (f, []))[1].append(v["key"])
        for fid, (f, keys) in sorted(old.items()):
            print(f"KNOWN-FINDING: property={self.prop} {f['id']}: {f['what']} ({len(keys)} listed case(s) reproduced)")
        replay_dir = os.path.join(OUT, "replays", self.prop)
        if os.path.isdir(replay_dir) and not getattr(self, "only", None):  # stale replays of earlier runs would mislead
            for fn in os.listdir(replay_dir):
                if fn.endswith(".json"):
                    os.remove(os.path.join(replay_dir, fn))
        if old and not getattr(self, "only", None):  # which listed keys this run reproduced (tools/prune_findings.py)
            os.makedirs(replay_dir, exist_ok=True)
            with open(os.path.join(replay_dir, f"known_{self.tier}.txt"), "w") as fh:
                for fid, (f, keys) in sorted(old.items()):
                    for k in sorted(keys):
                        fh.write(f"{fid}\t{k}\n")
        printed = 0
        for v in new:
            os.makedirs(replay_dir, exist_ok=True)
            h = hashlib.sha1(v["key"].encode()).hexdigest()[:16]
            path = os.path.join(replay_dir, f"{h}.json")
            with open(path, "w") as fh:
                json.dump({"property": self.prop, **v}, fh, indent=1, default=_jsonable)
            if printed < 40:
                print(f"VIOLATION property={self.prop} replay={path}")
                print(f"  case={v['case']} relation={v['relation']} detail={_short(v['detail'])}")
                printed += 1
        if len(new) > printed:
            print(f"  ... and {len(new) - printed} further violations (replay files written)")
        for h in self.harness_errors[:20]:
            print(f"HARNESS-ERROR property={self.prop} case={h['case']} detail={_short(h['detail'], 600)}")
        self.write_evidence(len(new), len(self.violations) - len(new))
        wall = time.time() - self.t0
        print(
            f"[{self.prop}] tier={self.tier} cases={self.evaluations} distinct_nontrivial={len(self.nontrivial)} "
            f"relations={self.relations} states={self.states} transitions={self.transitions} "
            f"inadmissible={self.inadmissible} max_margin={self.margin:.3g} violations={len(new)} "
            f"known={len(self.violations) - len(new)} harness_errors={len(self.harness_errors)} wall={wall:.1f}s"
        )
        if new:
            return 1
        if self.harness_errors:
            return 2
        return 0

    def write_evidence(self, nviol: int, nknown: int) -> None:
        cov = {
            "evaluations": self.evaluations,
            "distinct_nontrivial": len(self.nontrivial),
            "rule": self.rule,
            "samples": self.samples[:6],
            "relations_evaluated": self.relations,
            "inadmissible": self.inadmissible,
            "sections": self.sections,
            "branch_tags": dict(sorted(self.tags.items())),
            "max_margin_residual_over_tolerance": self.margin,
            "max_margin_case": self.margin_case,
            "caps_hit": self.caps,
            "known_findings_reproduced": nknown,
            "harness_errors": len(self.harness_errors),
        }
        if self.exhaustive is not None:
            cov["exhaustive"] = bool(self.exhaustive)
        if self.level == "model_checking" or self.states:
            cov["states"] = self.states
            cov["transitions"] = self.transitions
            cov["traces_validated_against_impl"] = self.traces
        cov.update(self.extra)
        ev = {
            "property_id": self.prop,
            "tier": self.tier,
            "seed": self.seed,
            "level": self.level,
            "coverage": cov,
            "assumptions": self.assumptions,
            "wall_s": round(time.time() - self.t0, 2),
            "violations": nviol,
        }
        os.makedirs(os.path.join(OUT, "evidence"), exist_ok=True)
        tmp = os.path.join(OUT, "evidence", f".{self.prop}.json.tmp")
        with open(tmp, "w") as fh:
            json.dump(ev, fh, indent=1, default=_jsonable)
        os.replace(tmp, os.path.join(OUT, "evidence", f"{self.prop}.json"))


def _jsonable(o):
    import numpy as np

    if isinstance(o, np.ndarray):
        return o.tolist()
    if isinstance(o, (np.floating,)):
        return float(o)
    if isinstance(o, (np.integer,)):
        return int(o)
    if isinstance(o, (np.bool_,)):
        return bool(o)
    if isinstance(o, complex):
        return [o.real, o.imag]
    if isinstance(o, (set, frozenset, tuple)):
        return list(o)
    return repr(o)


def _short(x, n=300):
    s = x if isinstance(x, str) else json.dumps(x, default=_jsonable)
    return s if len(s) <= n else s[:n] + "..."


def load_known_findings() -> dict:
    p = os.path.join(VERIF, "known_findings.json")
    if not os.path.exists(p):
        return {"findings": [], "fixed": []}
    with open(p) as fh:
        return json.load(fh)


def main(argv=None) -> int:
    ap = argparse.ArgumentParser()
    ap.add_argument("prop")
    ap.add_argument("--tier", default=os.environ.get("VERIF_TIER", "quick"), choices=["quick", "thorough"])
    ap.add_argument("--replay", default=None)
    ap.add_argument("--only", default=None, help="restrict to one section (debugging)")
    args = ap.parse_args(argv)
    seed = int(os.environ.get("VERIF_SEED", "0") or 0)
    warnings.filterwarnings("ignore")
    try:
        import numpy as np

        np.seterr(all="ignore")
        src = bootstrap_wallgo()
        mod = importlib.import_module(f"vmc.checks.{args.prop.lower()}")
    except Exception:
        traceback.print_exc()
        print(f"HARNESS-ERROR property={args.prop} could not set up the check")
        return 2
    ctx = Ctx(args.prop, args.tier, seed, getattr(mod, "LEVEL", "exploration"))
    ctx.rule = getattr(mod, "RULE", "")
    ctx.assumptions = list(getattr(mod, "ASSUMPTIONS", []))
    ctx.note("wallgo_src", src)
    ctx.only = args.only
    if args.replay:
        with open(args.replay) as fh:
            rep = json.load(fh)
        try:
            res = mod.replay(rep)
        except Exception:
            traceback.print_exc()
            return 2
        bad = [v for v in (res.get("violations") or []) if v["relation"] == rep.get("relation") or True]
        print(json.dumps(res, indent=1, default=_jsonable))
        if res.get("verdict") == "violation" and bad:
            print(f"VIOLATION property={args.prop} replay={os.path.abspath(args.replay)}")
            return 1
        return 0
    try:
        mod.run(ctx)
    except Exception:
        traceback.print_exc()
        ctx.harness_errors.append({"case": "<run>", "detail": traceback.format_exc()[-1500:]})
    return ctx.finish()


if __name__ == "__main__":
    sys.exit(main())
