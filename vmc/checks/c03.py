"""C03 - the matched flow reaches the nucleation temperature ahead of the wall.

(L) same EOS x Tn x units x tolerance x velocity lattice as C02. Oracle: independent
integrator in the similarity variable xi (vmc.oracles.hydro), energy-flux jump at the
shock front solved for the temperature ahead; momentum-flux jump for constant-c_s EOS;
efficiency factor from the oracle's own profile.
"""
from __future__ import annotations

import logging

import numpy as np
from scipy.optimize import root as sp_root

from ..lattice import Rel
from ..oracles import hydro as OH
from ..oracles.eos import gamma2
from . import hydrolattice as HL
from .c02 import _resid_vec, flux_tolerance

LEVEL = "exploration"
RULE = (
    "full cross product EOS x Tn x units x solver tolerance {tight, default} x 16 wall velocities (see C02); for every "
    "returned deflagration/hybrid matching the oracle integrates dv/dxi, dT/dxi from the wall to the shock and crosses it; "
    "detonations: T+ == Tn, v+ == vw exactly; efficiency factor on every velocity vs the oracle's own kinetic-energy integral. "
    "Non-trivial = at least one deflagration/hybrid matching with an actual shock (kind 'shock' or 'acoustic') was checked."
)
ASSUMPTIONS = [
    "matchings that violate the junction conditions (C02, known finding D9) are not 'matched flows': skipped here and tagged skipped-nonconserved",
    "Tn tolerance = 8*(rtol+atol/v+)*|dlnTn/dlnv+| (brentq on v+) + 30*rtol (RK45 shock integration, brentq on Tn), floor 1e-10",
    "momentum-flux clause only for EOS with constant c_s ahead of the wall (bag, template)",
    "efficiency factor: relative tolerance 100*rtol + 3e-5 (RK45 tolerance + Simpson rule over 400 uniform samples of the dense output)",
]


def _oracle_Tn_of_vp(eos, vw, vp, Tp0, Tm0, branch):
    """Temperature ahead of the shock as a function of v+ near the returned solution (local Newton on the
    oracle's junction equations starting from the returned temperatures)."""

    def vm_of(Tm):
        return min(vw, np.sqrt(max(eos.csq("b", Tm), 0.0))) if branch == "hybrid" else vw

    def F(x):
        Tp, Tm = x
        vm = vm_of(Tm)
        wp, wm = eos.w("s", Tp), eos.w("b", Tm)
        e1, e2 = wp * gamma2(vp) * vp, wm * gamma2(vm) * vm
        return [(e1 - e2) / e1, ((e1 * vp + eos.p("s", Tp)) - (e2 * vm + eos.p("b", Tm))) / wp]

    sol = sp_root(F, [Tp0, Tm0], method="hybr", options={"xtol": 1e-14})
    if not sol.success and np.max(np.abs(sol.fun)) > 1e-10:
        return None
    return OH.shock_Tn(eos, vw, vp, sol.x[0], rtol=1e-8)["Tn"]  # only used for a finite-difference conditioning (h = 1e-5)


def case_eos(c: dict) -> dict:
    logging.disable(logging.CRITICAL)
    r = Rel(c["id"])
    eos, Tn = HL.build_eos(c)
    adm = HL.admissible(eos, Tn)
    if adm:
        return r.result(inadmissible=adm)
    tol = HL.TIGHT if c["tol"] == "tight" else HL.DEFAULT
    try:
        hyd, th = HL.make_hydro(eos, Tn, tol)
    except Exception as ex:
        return r.result(inadmissible="Hydrodynamics could not be constructed: " + repr(ex)[:120])
    const_cs = c["kind"] in ("bag", "template")
    alN = eos.alpha_n(Tn)
    nshock = 0
    for name, v in HL.velocity_lattice(hyd, eos, Tn):
        try:
            vp, vm, Tp, Tm = hyd.findMatching(v)
        except Exception:
            r.tag("raised")
            continue
        if vp is None or not all(np.isfinite([float(vp), float(vm), float(Tp), float(Tm)])):
            r.tag("none")
            continue
        vp, vm, Tp, Tm = float(vp), float(vm), float(Tp), float(Tm)
        branch = HL.branch_of(hyd, eos, v, Tm)
        if branch == "detonation":
            r.tag("detonation")
            r.true(f"{name}:detonation-Tp==Tn", Tp == Tn, Tp=Tp, Tn=Tn)
            r.true(f"{name}:detonation-vp==vw", vp == v, vp=vp, vw=v)
        else:
            res = _resid_vec(eos, vp, vm, Tp, Tm)
            if max(res) > flux_tolerance(eos, branch, tol, v, vp, vm, Tp, Tm):
                if name in ("vmin", "slow1", "slow2", "v0.05", "v0.1"):
                    # slow walls: the region in which known finding D9 (C02) is identified generically - not judged again here
                    r.tag("skipped-nonconserved")
                    continue
                # elsewhere the returned numbers are what the caller integrates from (e.g. the template approximation returned
                # silently for a hybrid next to vJ): the flow that starts there has to reach Tn all the same
                r.tag("nonconserved-matching-judged")
            sh = OH.shock_Tn(eos, v, vp, Tp, rtol=max(1e-10, 0.01 * tol["rtol"]))  # oracle 100x tighter than the solver under test
            r.tag(f"{branch}-{sh['kind']}")
            if sh["kind"] == "incomplete":
                r.true(f"{name}:oracle-integration-complete", False, **sh)
                continue
            nshock += 1
            # conditioning of Tn w.r.t. the shooting variable v+
            h = 1e-5
            a = _oracle_Tn_of_vp(eos, v, vp * (1 + h), Tp, Tm, branch)
            b = _oracle_Tn_of_vp(eos, v, vp * (1 - h), Tp, Tm, branch)
            S = abs(a - b) / (2 * h * Tn) if (a is not None and b is not None) else 50.0
            t = (8 * (tol["rtol"] + tol["atol"] / vp) * S + 30 * tol["rtol"]) * Tn + 1e-10 * Tn
            if sh["kind"] == "acoustic":
                t += 1e-7 * Tn  # the code stops its own integration at the absolute fluid velocity 1e-8 and crosses a front there
            r.close(f"{name}:shock-reaches-Tn", sh["Tn"], Tn, t, vw=v, vp=vp, Tp=Tp / Tn, kind=sh["kind"], xi_sh=sh["xi_sh"], S=S, branch=branch)
            if const_cs and sh["kind"] == "shock":
                # momentum flux across the front, relative to w_n: limited by the same Tn accuracy
                r.close(f"{name}:shock-momentum-flux", sh["mom_res_rel"], 0.0, 40 * t / Tn + 1e-9, vw=v, xi_sh=sh["xi_sh"])
        # efficiency factor vs the oracle's own profile
        if name in ("v0.1", "v0.3", "cb-", "cb+", "hyb-mid", "vJ-", "vJ+", "det-mid", "v0.9", "v0.4", "v0.2"):
            if branch != "detonation" and max(_resid_vec(eos, vp, vm, Tp, Tm)) > 1e-6:
                continue
            try:
                k_code = float(hyd.efficiencyFactor(v))
            except Exception as ex:
                r.true(f"{name}:kappa-no-exception", False, error=repr(ex)[:200], vw=v)
                continue
            k_or, parts = OH.kappa(eos, v, vp, vm, Tp, Tm, Tn, alN, rtol=max(1e-10, 0.01 * tol["rtol"]))
            kt = (100 * tol["rtol"] + 3e-5) * abs(k_or) + 1e-12  # ODE tolerance + Simpson rule on 400 uniform samples (worst measured 7e-6, at the sonic start of a hybrid's rarefaction wave)
            r.close(f"{name}:kappa", k_code, k_or, kt, vw=v, parts=parts, branch=branch)
            r.tag("kappa-" + branch)
    return r.result(nontrivial=nshock > 0)


def cases(tier: str) -> list[dict]:
    out = []
    for c in HL.eos_lattice(tier):
        for tol in ("tight", "default"):
            d = dict(c)
            d["tol"] = tol
            d["id"] = c["id"] + ",tol=" + tol
            out.append(d)
    return out


def case_solveHydroShock(c: dict) -> dict:
    """Direct calls of solveHydroShock on a lattice of (vw, v+, T+) not tied to a matching:
    the function's contract alone (temperature ahead of the shock for given wall-side state)."""
    logging.disable(logging.CRITICAL)
    r = Rel(c["id"])
    eos, Tn = HL.build_eos(c)
    adm = HL.admissible(eos, Tn)
    if adm:
        return r.result(inadmissible=adm)
    tol = HL.TIGHT
    try:
        hyd, th = HL.make_hydro(eos, Tn, tol)
    except Exception as ex:
        return r.result(inadmissible="Hydrodynamics could not be constructed: " + repr(ex)[:120])
    n = 0
    for vw in (0.1, 0.3, 0.5, 0.6):
        for frac in (0.5, 0.8, 0.95):
            for tp in (1.0, 1.1, 1.3):
                vp, Tp = vw * frac, tp * Tn
                sh = OH.shock_Tn(eos, vw, vp, Tp, rtol=1e-11)
                if sh["kind"] != "shock":
                    r.tag("direct-" + sh["kind"])
                    continue
                try:
                    got = hyd.solveHydroShock(vw, vp, Tp)
                except Exception as ex:
                    r.tag("direct-raised")
                    continue
                n += 1
                r.tag("direct-shock")
                r.close(f"solveHydroShock(vw={vw},vp={frac}vw,Tp={tp}Tn)", got, sh["Tn"], 100 * tol["rtol"] * Tn, xi_sh=sh["xi_sh"])
    return r.result(nontrivial=n > 0)


def direct_cases(tier):
    out = []
    for c in HL.eos_lattice(tier):
        if c["s"] != 1.0:
            continue
        d = dict(c)
        out.append(d)
    return out


SECTIONS = {"eos": (cases, case_eos), "direct": (direct_cases, case_solveHydroShock)}


def run(ctx) -> None:
    for name, (gen, fn) in SECTIONS.items():
        if ctx.only and ctx.only != name:
            continue
        ctx.run_lattice(name, gen(ctx.tier), fn, timeout=1200)


def replay(rep: dict) -> dict:
    return SECTIONS[rep["section"]][1](rep["params"])
