"""C11 - a traced phase is one genuine minimum, tabulated only where it exists.

(L) `trace`   : lattice model x phase x start T x requested range x dT x rTol x paranoid x units,
                one real `FreeEnergy.tracePhase` per case, the table checked row by row against analytic
                gradient / Hessian / closed-form minima / closed-form spinodal temperatures.
(L) `firststep`: the same with phaseTracerFirstStep given (documented "in units of dT").
(L) `tc`      : `Thermodynamics.findCriticalTemperature` on two traced phases vs the closed-form T_c.
(L) `inttemp` : the starting temperature given as a Python int (same physics, other Python type).
(H) `history` : BFS over re-trace histories {A: trace(range A), B: trace(wider range B), C: trace(range A, other dT)}
                on ONE FreeEnergy object, depth <= 2 (quick) / 4 (thorough); the table after every history
                must satisfy the same invariants.

Oracle = vmc.models (closed forms); nothing here calls findLocalMinimum / tracePhase to produce expected values.
"""
from __future__ import annotations

import logging

import numpy as np

from .. import bfs as BFS
from .. import models as MD
from ..lattice import Rel, with_ids

LEVEL = "model_checking"
RULE = (
    "trace: cross product (model, phase) x start {near Tc, near each subcritical spinodal} x requested range "
    "{inside existence, past upper spinodal, past lower spinodal, both - those that exist for the phase} x "
    "dT {0.02,0.1,0.5}*DeltaT x rTol {1e-4,1e-6,1e-8} x paranoid {T,F} x units {1e-2,1,1e2}; quick = all "
    "(model,phase,start,range) combinations x an orthogonal L9 array of (dT,rTol,units) x paranoid; thorough = full "
    "product plus a second parameter point per family. firststep: phaseTracerFirstStep=0.1 on 2 starts x 3 units. One case = one tracePhase call; "
    "non-trivial = a table was produced; distinct = distinct case id. history: every sequence of <= depth re-trace "
    "operations from a 3-letter alphabet on one object per initial configuration, states merged by a digest of "
    "(table, min/maxPossibleTemperature). tc: (pair of phases) x range x dT x rTol x paranoid x units."
)
ASSUMPTIONS = [
    "gradient tolerance: |grad V|_inf <= 10 * rTol * T0^3 (T0 = starting temperature). rTol*T0^3 is the acceptance "
    "criterion tracePhase itself applies (freeEnergy.py:366-367); 10 = one decade for norm choice / solver slack",
    "Hessian positive definite up to the rounding bound of WallGo's own 4th-order finite-difference Hessian "
    "(64*eps*1.5*max|V|/dH^2*nf, dH = fieldScale*1e-15^(1/6)) because the spinodal test is evaluated with that Hessian",
    "position tolerance = 2*sqrt(nf)*gradTol/lambda_min(exact Hessian) where the Hessian stays >= lambda_min/2 on that ball "
    "(checked at 2*nf points); rows where this conditioning argument does not apply are not compared in position",
    "interpolated mid-point tolerance = |cubic spline through the EXACT minima at the same knots - exact minimum| "
    "+ sum_j |l_j(T)| * rowTolerance_j (l_j = cardinal splines of the knots); i.e. the inherent error of a cubic "
    "spline on the tracer's own knots is not charged to the tracer",
    "a spinodal is 'inside the request' only if it is a fold or a subcritical instability (closed form); requested ranges "
    "stay >= 5% away from continuous ('merge') bifurcations",
    "overshoot slack past a spinodal: 10*rTol*T_s + gradTol/|d(grad)/dT| (fold) or HessianTol/|d lambda/dT| (instability)",
    "a trace that stops by a spinodal must stop within one maximal step dT of it (the step that crosses it is the one rejected)",
    "history section: genuineness/flag/consistency relations are evaluated against the request clipped by the object's "
    "own min/maxPossibleTemperature; what the property says about the USER's request is a separate relation (history-honours-request-*)",
    "a trace that needs more than CALL_CAP = 200000 potential evaluations (28x the largest count on the unchanged tree) counts as "
    "not terminating (relation trace-completes); this replaces a wall-clock timeout by a deterministic bound",
    "findCriticalTemperature must return T_c if T_c lies inside the common usable range by more than dT, must raise "
    "WallGoError if T_c lies outside it; in between either outcome is accepted",
]

EPS = np.finfo(float).eps
KGRAD = 10.0  # see ASSUMPTIONS[0]
DELTA_T = 10.0  # temperatureVariationScale in base units (of order Tc - Tn for the models below)
FSCALE = 10.0  # fieldValueVariationScale in base units (as in the WallGo singlet example)
VEFF_ERR = 1e-15  # effectivePotentialError of vmc.models.make_potential


# ============================================================================ catalogue
def _q3():
    """xsm2 plus a third Z2 field y; the phase S1 = (0,x,0) has a subcritical instability on BOTH sides:
    h-direction below 89.0006 (as in xsm2) and y-direction above 130 (closed form, see spinodals())."""
    b = MD.xsm2()
    Lam = np.zeros((3, 3))
    Lam[:2, :2] = b.Lam
    Lam[2, 2] = 1.0
    Lam[1, 2] = Lam[2, 1] = 1.5
    Lam[0, 2] = Lam[2, 0] = 0.3
    # y curvature in S1: muy2 + cy T^2 + 1.5 (12832 - 0.4 T^2) = (muy2 + 19248) - 0.4 T^2  -> zero at T = 130
    return MD.QuarticZ2(list(b.mu2) + [-12488.0], list(b.c) + [0.2], Lam, b.a, name="q3")


def base_model(key: str) -> MD.AnalyticModel:
    if key == "xsm2":
        return MD.xsm2()
    if key == "xsm2b":  # second parameter point (thorough tier)
        return MD.xsm2(muh2=-7000.0, lh=0.125, mus2=-11000.0, ls=0.9, lhs=0.85, ch=0.42, cs=0.38)
    if key == "cubic1":
        return MD.Cubic1(D=0.15, E=0.067, lam=0.1, T0=80.0, a=35.0)
    if key == "cubic1b":
        return MD.Cubic1(D=0.2, E=0.08, lam=0.12, T0=60.0, a=20.0)
    if key == "q3":
        return _q3()
    raise KeyError(key)


def phase_spec(key: str, phase: str) -> dict:
    """Closed-form description of one phase in base units: subcritical spinodals (lo/hi), continuous
    bifurcations (kept 5% away), reference temperature, and the temperatures the lattice is built from."""
    m = base_model(key)
    lo = hi = None  # (T, kind) of fold / subcritical instability below / above the phase
    lo_merge = hi_merge = None
    if isinstance(m, MD.Cubic1):
        tref = float(m.Tc())
        if phase == "brk":
            hi = (float(m.T1()), "fold")
        else:
            lo_merge = float(m.T0)
    else:
        # a phase exists as a minimum between the spinodals adjacent to a temperature where it is one
        tprobe = {"S0": 100.0, "S1": 100.0}[phase]
        assert m.is_minimum(phase, tprobe), (key, phase)
        S = m._support(phase)
        for (t, kind, _k) in m.spinodals(phase):
            if kind == "instability":
                # subcritical (the minimum really ceases to exist, no new minimum branches off continuously):
                # effective quartic of the unstable direction after eliminating the support fields is negative
                eff4 = m.Lam[_k, _k] - m.Lam[_k, S] @ np.linalg.solve(m.Lam[np.ix_(S, S)], m.Lam[S, _k])
                assert eff4 < 0, (key, phase, _k, eff4)
                if t < tprobe and (lo is None or t > lo[0]):
                    lo = (float(t), kind)
                if t > tprobe and (hi is None or t < hi[0]):
                    hi = (float(t), kind)
            else:
                if t < tprobe:
                    lo_merge = float(t) if lo_merge is None else max(lo_merge, float(t))
                else:
                    hi_merge = float(t) if hi_merge is None else min(hi_merge, float(t))
        tcs = [t for t in m.Tc("S0", "S1") if (lo is None or t > lo[0]) and (hi is None or t < hi[0])]
        tref = float(tcs[0]) if tcs else 0.5 * ((lo[0] if lo else 80.0) + (hi[0] if hi else 130.0))
    sp = {"lo": lo, "hi": hi, "tref": tref}
    sp["in_hi"] = hi[0] * (1 - 0.004) if hi else min(1.25 * tref, 0.95 * hi_merge if hi_merge else np.inf)
    sp["in_lo"] = lo[0] * (1 + 0.004) if lo else max(0.75 * tref, 1.05 * lo_merge if lo_merge else 0.0)
    sp["out_hi"] = hi[0] * 1.05 if hi else None
    sp["out_lo"] = lo[0] * 0.95 if lo else None
    if hi and hi_merge:
        assert sp["out_hi"] < 0.95 * hi_merge
    if lo and lo_merge:
        assert sp["out_lo"] > 1.05 * lo_merge
    starts = {"Tc": min(max(0.96 * tref, sp["in_lo"] * 1.01), sp["in_hi"] * 0.99)}
    if hi:
        starts["spinhi"] = hi[0] * (1 - 0.008)
    if lo:
        starts["spinlo"] = lo[0] * (1 + 0.008)
    sp["starts"] = starts
    ranges = {"inside": (sp["in_lo"], sp["in_hi"])}
    if hi:
        ranges["pastupper"] = (sp["in_lo"], sp["out_hi"])
    if lo:
        ranges["pastlower"] = (sp["out_lo"], sp["in_hi"])
    if hi and lo:
        ranges["both"] = (sp["out_lo"], sp["out_hi"])
    sp["ranges"] = ranges
    return sp


PHASES_QUICK = [("xsm2", "S0"), ("xsm2", "S1"), ("cubic1", "brk"), ("cubic1", "sym"), ("q3", "S1")]
PHASES_EXTRA = [("xsm2b", "S0"), ("xsm2b", "S1"), ("cubic1b", "brk")]
DTF = [0.02, 0.1, 0.5]
RTOL = [1e-4, 1e-6, 1e-8]
UNITS = [1e-2, 1.0, 1e2]
# orthogonal array L9(3^3): every pair of (dT, rTol, units) levels occurs exactly once
L9 = [(0, 0, 0), (0, 1, 1), (0, 2, 2), (1, 0, 1), (1, 1, 2), (1, 2, 0), (2, 0, 2), (2, 1, 0), (2, 2, 1)]


def trace_cases(tier: str) -> list[dict]:
    out = []

    def add(key, phase, start, rng, dtf, rtol, par, s, first):
        cid = f"{key}/{phase},start={start},range={rng},dT={dtf:g},rTol={rtol:g},par={'T' if par else 'F'},s={s:g}"
        if first is not None:
            cid += f",first={first:g}"
        out.append({"id": cid, "model": key, "phase": phase, "start": start, "range": rng, "dTf": dtf,
                    "rTol": rtol, "paranoid": par, "s": s, "first": first})

    for (key, phase) in PHASES_QUICK + (PHASES_EXTRA if tier == "thorough" else []):
        sp = phase_spec(key, phase)
        for start in sp["starts"]:
            for rng in list(sp["ranges"]) + (["from-start", "to-start"] if start == "Tc" else []):
                if tier == "quick":
                    combos = [(DTF[a], RTOL[b], UNITS[c]) for (a, b, c) in L9]
                    firsts = [None]
                else:
                    combos = [(d, r, s) for d in DTF for r in RTOL for s in UNITS]
                    firsts = [None]
                for (dtf, rtol, s) in combos:
                    for par in (True, False):
                        for first in firsts:
                            add(key, phase, start, rng, dtf, rtol, par, s, first)
    return with_ids(out)


# ============================================================================ oracle helpers
def sum_abs_terms(am: MD.AnalyticModel, phi, T):
    """sum of |terms| of V (for the rounding bound of one evaluation of V)."""
    if isinstance(am, MD.Scaled):
        return am.s**4 * sum_abs_terms(am.b, np.asarray(phi, float) / am.s, np.asarray(T, float) / am.s)
    phi = np.asarray(phi, float)
    T = np.asarray(T, float)
    if isinstance(am, MD.Cubic1):
        f = np.abs(phi[..., 0])
        return abs(am.D) * (T**2 + am.T0**2) * f**2 + abs(am.E) * T * f**3 + abs(am.lam) * f**4 / 4 + abs(am.a) * T**4
    u = phi**2
    quad = 0.5 * np.sum((np.abs(am.mu2) + np.abs(am.c) * T[..., None] ** 2) * u, axis=-1)
    quart = 0.25 * np.einsum("...i,ij,...j->...", u, np.abs(am.Lam), u)
    return quad + quart + abs(am.a) * T**4


def exact_phase_rows(am, name, T):
    """exact minimum at each T (nan rows where the phase does not exist as a critical point)."""
    out = np.full((len(T), am.nf), np.nan)
    for i, t in enumerate(T):
        loc = am.phase(name, float(t))
        if loc is not None:
            out[i] = loc
    return out


def lam_min(am, phi, T):
    return np.linalg.eigvalsh(am.hess(phi, T))[..., 0]


def pos_tolerance(am, ex, T, gtol):
    """Allowed distance between a point with |grad V|_inf <= gtol and the exact minimum ex (one row), or None
    if the conditioning argument does not apply.  If H >= lam/2 on the ball B(ex, r) then any point of the
    ball with |grad|_2 <= sqrt(nf) gtol lies within sqrt(nf) gtol / (lam/2) of ex; we take r = that number and
    verify H >= lam/2 at the 2 nf points ex +- r e_k (e_k eigenvectors of H(ex))."""
    H = am.hess(ex, T)
    w, v = np.linalg.eigh(H)
    if not (w[0] > 0):
        return None
    r = 2.0 * np.sqrt(am.nf) * gtol / w[0]
    for k in range(am.nf):
        for sg in (1.0, -1.0):
            if np.linalg.eigvalsh(am.hess(ex + sg * r * v[:, k], T))[0] < 0.5 * w[0]:
                return None
    return float(r)


def hessian_tolerance(am, s, vmax):
    """rounding bound of WallGo's finite-difference Hessian (stencil sum|c| = 1.4167 -> 1.5), see ASSUMPTIONS[1]."""
    dH = FSCALE * s * VEFF_ERR ** (1.0 / 6.0)
    return 64 * EPS * 1.5 * vmax / dH**2 * am.nf


def spinodal_slack(am, name, Ts, kind, gtol, htol, rTol):
    """How far past the closed-form spinodal temperature a row may lie and still satisfy the row criteria."""
    slack = 10 * rTol * Ts
    if kind == "fold":
        loc = am.phase(name, Ts * (1 - 1e-9))
        slack += gtol / abs(float(am.dgraddT(loc, Ts)[0]))
    else:
        h = 1e-4 * Ts

        def soft(t):
            return float(lam_min(am, am.phase(name, t), t))

        slack += htol / abs((soft(Ts + h) - soft(Ts - h)) / (2 * h))
    return slack


# ============================================================================ driving WallGo
class RunawayTrace(Exception):
    """tracePhase used more potential evaluations than CALL_CAP (deterministic stand-in for 'does not terminate')."""


CALL_CAP = 200_000  # largest count observed on the unchanged tree over the thorough lattice: see evidence note `max_veff_calls`


def budgeted(pot):
    """Count calls of pot.evaluate on this instance; abort a trace that exceeds CALL_CAP."""
    orig = pot.evaluate
    pot.c11_calls = 0

    def evaluate(fields, temperature):
        pot.c11_calls += 1
        if pot.c11_calls > CALL_CAP:
            raise RunawayTrace(f"more than {CALL_CAP} potential evaluations")
        return orig(fields, temperature)

    pot.evaluate = evaluate
    return pot


def build_free_energy(am, name, Tstart, s, jitter=1.03):
    import WallGo

    logging.disable(logging.CRITICAL)
    pot = budgeted(MD.make_potential(am))
    loc = am.phase(name, float(Tstart))
    assert loc is not None and am.is_minimum(name, float(Tstart))
    # The potential object has been in use before under ANOTHER configuration of its derivative scales (the same parameters looked
    # at in other units, 1e4 x larger numbers) and is then configured for this run, as the documentation of configureDerivatives /
    # setupThermodynamicsHydrodynamics asks for whenever something changes. Nothing of the earlier configuration may survive.
    pot.configureDerivatives(
        WallGo.VeffDerivativeSettings(temperatureVariationScale=float(1e4 * DELTA_T * s), fieldValueVariationScale=[float(1e4 * FSCALE * s)] * am.nf)
    )
    try:
        pot.findLocalMinimum(WallGo.Fields(loc * jitter), float(Tstart))
    except Exception:  # noqa: BLE001 - what the earlier use returned is not this run's business
        pass
    pot.configureDerivatives(
        WallGo.VeffDerivativeSettings(temperatureVariationScale=float(DELTA_T * s), fieldValueVariationScale=[float(FSCALE * s)] * am.nf)
    )
    fe = WallGo.FreeEnergy(pot, Tstart, WallGo.Fields(loc * jitter))  # guess 3% off (zero components stay zero)
    fe.disableAdaptiveInterpolation()  # as WallGoManager.initTemperatureRange does
    return fe


def table_of(fe):
    T = np.asarray(fe._interpolationPoints, dtype=float)
    Y = np.asarray(fe._interpolationValues, dtype=float)
    return T, Y[:, :-1], Y[:, -1]


# ============================================================================ the invariants
def _ratio(r: Rel, name: str, ratio: float, **detail) -> bool:
    """relation 'ratio = residual/tolerance <= 1' with the bookkeeping of lattice.Rel.close (margin of passing relations only)."""
    r.n += 1
    ratio = float(ratio)
    if ratio <= 1.0:
        if ratio > r.margin:
            r.margin, r.margin_at = ratio, name
        return True
    r.viol.append({"relation": name, "detail": {"ratio": ratio, **detail}})
    return False


def check_table(r: Rel, am, name, fe, *, T0, rTol, dT, s, req, eff, spin, prefix="", user_cov=True, clipped=(False, False)):
    """All C11 relations on the table currently held by `fe`.
    req = (TMin, TMax) the user asked for; eff = the request after clipping by the object's previous limits
    (== req for a fresh object); spin = {'lo': (T,kind)|None, 'hi': ...} in the units of am.
    clipped = (lower, upper): the effective end was set by the object's history, not by the user."""
    import WallGo

    T, Phi, Vst = table_of(fe)
    n = len(T)
    P = prefix
    r.true(P + "rows-sorted", n >= 2 and np.all(np.diff(T) > 0), n=n)
    if n < 2:
        return
    gtol = KGRAD * rTol * T0**3
    # -- every row: stationary, stable, V consistent -----------------------------------------
    g = am.grad(Phi, T)
    # tolerance: the tracer's own acceptance criterion rTol*T0^3 times KGRAD
    i = int(np.argmax(np.max(np.abs(g), axis=1)))
    r.close(P + "rows-grad", float(np.max(np.abs(g[i]))), 0.0, gtol, T=float(T[i]), row=Phi[i].tolist(), rel_to_T0cubed=float(np.max(np.abs(g[i])) / T0**3))
    lam = lam_min(am, Phi, T)
    vmax = float(np.max(sum_abs_terms(am, Phi, T)))
    htol = hessian_tolerance(am, s, vmax)
    j = int(np.argmin(lam))
    # tolerance: rounding bound of the finite-difference Hessian the spinodal test uses
    _ratio(r, P + "rows-hessian-pd", max(0.0, -float(lam[j]) / htol), lam_min=float(lam[j]), tol=htol, T=float(T[j]), row=Phi[j].tolist())
    # stored V is V(row): exact up to rounding of one evaluation, 64 eps sum|terms|
    dv = np.abs(Vst - am.V(Phi, T)) / (64 * EPS * sum_abs_terms(am, Phi, T))
    k = int(np.argmax(dv))
    r.close(P + "rows-storedV", float(Vst[k]), float(am.V(Phi[k], T[k])), float(64 * EPS * sum_abs_terms(am, Phi[k], T[k])), T=float(T[k]))
    # -- same branch: distance to the closed-form minimum, where the conditioning argument applies --------------
    ex = exact_phase_rows(am, name, T)
    rowtol = np.full(n, np.nan)
    illrow = np.zeros(n, dtype=bool)
    worst, wi, ncmp = 0.0, None, 0
    for q in range(n):
        if np.isnan(ex[q, 0]):
            continue
        pt = pos_tolerance(am, ex[q], T[q], gtol)
        dev = float(np.max(np.abs(Phi[q] - ex[q])))
        if pt is None:
            rowtol[q] = dev  # ill-conditioned row (next to a spinodal): not judged in position, see ASSUMPTIONS[3]
            illrow[q] = True
            continue
        rowtol[q] = pt
        ncmp += 1
        if dev / pt > worst:
            worst, wi = dev / pt, q
    r.detail[P + "rows_compared_in_position"] = ncmp
    if wi is None:
        _ratio(r, P + "rows-on-branch", 0.0)
    else:
        _ratio(r, P + "rows-on-branch", worst, T=float(T[wi]), row=Phi[wi].tolist(), exact=ex[wi].tolist(), tol=float(rowtol[wi]))
    # -- continuity: |dphi| <= 3 max|dphi/dT| dT + position noise of the two rows -----------------------------------
    H = am.hess(Phi, T)
    rhs = am.dgraddT(Phi, T)
    slope = np.empty(n)
    noise = np.empty(n)
    for q in range(n):
        try:
            slope[q] = float(np.max(np.abs(np.linalg.solve(H[q], -rhs[q]))))
        except np.linalg.LinAlgError:
            slope[q] = np.inf
        noise[q] = 2.0 * np.sqrt(am.nf) * gtol / lam[q] if lam[q] > 0 else np.inf
    jump = np.max(np.abs(np.diff(Phi, axis=0)), axis=1)
    allow = 3.0 * np.maximum(slope[:-1], slope[1:]) * np.diff(T) + noise[:-1] + noise[1:]
    ratio = np.where(np.isfinite(allow), jump / np.where(allow > 0, allow, 1.0), 0.0)
    ratio = np.where((allow == 0) & (jump == 0), 0.0, ratio)
    q = int(np.argmax(ratio))
    _ratio(r, P + "rows-continuity", float(ratio[q]), T=[float(T[q]), float(T[q + 1])], rows=[Phi[q].tolist(), Phi[q + 1].tolist()], allowed=float(allow[q]))
    # -- interpolated mid-points vs exact minimum ----------------------------------------------------------------
    from scipy.interpolate import CubicSpline

    Tm = 0.5 * (T[:-1] + T[1:])
    exm = exact_phase_rows(am, name, Tm)
    usable = ~np.isnan(exm[:, 0])
    missing = np.isnan(ex[:, 0])  # rows past the closed-form end of the phase (judged by the end relations below)
    if np.any(missing):
        ex = np.where(missing[:, None], Phi, ex)
        rowtol = np.where(missing, 0.0, rowtol)
        usable &= ~(missing[:-1] | missing[1:])
    if n >= 4 and np.any(usable):
        W = np.abs(CubicSpline(T, np.eye(n), axis=0)(Tm))  # |cardinal splines| at the mid-points
        spec = np.abs(CubicSpline(T, ex, axis=0)(Tm) - exm)  # inherent spline error on these knots (fields)
        vex = am.V(ex, T)
        specV = np.abs(CubicSpline(T, vex)(Tm) - am.V(exm, Tm))
        lmax = np.linalg.eigvalsh(am.hess(ex, T))[..., -1]
        # V(row) - V(exact) <= lam_max * delta^2 (stationary point; factor 2 for the variation of H) + rounding
        rowtolV = lmax * rowtol**2 + 64 * EPS * sum_abs_terms(am, ex, T)
        # relation: err <= spec + budget, budget = sum_j |l_j| rowtol_j (+ rounding floor). It is evaluated as
        # max(0, err - spec)/budget <= 1 so that the recorded margin is the share of the ROW budget that is used
        # (err ~ spec by construction when the rows are accurate).
        # mid-points whose budget comes (by more than 10%) from rows that could not be judged in position are not judged either
        usable &= (W @ np.where(illrow, rowtol, 0.0)) <= 0.1 * (W @ rowtol)
        r.detail[P + "midpoints_judged"] = int(np.sum(usable))
        budF = (W @ rowtol)[:, None] + 64 * EPS * (np.abs(exm) + T0)
        budV = W @ rowtolV + 64 * EPS * sum_abs_terms(am, np.where(np.isnan(exm), 0.0, exm), Tm)
        tolF = spec + budF
        tolV = specV + budV
        try:
            val = fe(Tm)
            gotF = np.asarray(val.fieldsAtMinimum, dtype=float).reshape(len(Tm), am.nf)
            gotV = np.asarray(val.veffValue, dtype=float).reshape(len(Tm))
            rF = np.where(usable[:, None], np.maximum(0.0, np.abs(gotF - exm) - spec) / budF, 0.0)
            rV = np.where(usable, np.maximum(0.0, np.abs(gotV - am.V(exm, Tm)) - specV) / budV, 0.0)
            a = int(np.argmax(np.max(rF, axis=1)))
            b = int(np.argmax(rV))
            _ratio(r, P + "mid-fields", float(np.max(rF)), T=float(Tm[a]), got=gotF[a].tolist(), exact=exm[a].tolist(), tol=tolF[a].tolist())
            _ratio(r, P + "mid-V", float(np.max(rV)), T=float(Tm[b]), got=float(gotV[b]), exact=float(am.V(exm[b], Tm[b])), tol=float(tolV[b]))
            # metric only: interpolation error in units of rTol*max(|phi0|,T0) (what `phaseTracerTol` is documented to mean)
            sc = rTol * max(float(np.max(np.abs(ex[int(np.argmin(np.abs(T - T0)))]))), T0)
            r.detail[P + "interp_err_over_rTol_scale"] = float(np.max(np.where(usable[:, None], np.abs(gotF - exm), 0.0)) / sc)
        except Exception as e:  # evaluating inside the table must work
            r.true(P + "mid-evaluable", False, error=repr(e)[:300])
    else:
        r.tag("mid-skipped")
    # -- the two ends --------------------------------------------------------------------------------------
    limits = {"lower": fe.minPossibleTemperature, "upper": fe.maxPossibleTemperature}
    for side, sg in (("lower", -1.0), ("upper", +1.0)):
        Tend = float(T[0] if side == "lower" else T[-1])
        want = float(eff[0] if side == "lower" else eff[1])
        userwant = float(req[0] if side == "lower" else req[1])
        sp = spin["lo" if side == "lower" else "hi"]
        lim, flag = float(limits[side][0]), bool(limits[side][1])
        was_clipped = clipped[0 if side == "lower" else 1]
        inside = sp is not None and (sp[0] > want if side == "lower" else sp[0] < want)
        # documented safety margin: the usable range ends 2 dT inside the table (freeEnergy.py:417-420)
        r.close(P + f"{side}-margin-2dT", lim, Tend - sg * 2 * dT, 64 * EPS * (abs(Tend) + 2 * dT))
        if inside:
            Ts, kind = sp
            slack = spinodal_slack(am, name, Ts, kind, gtol, htol, rTol)
            over = sg * (Tend - Ts)  # > 0: the table extends past the spinodal
            _ratio(r, P + f"{side}-stops-before-spinodal", max(0.0, over / slack), T_end=Tend, T_spinodal=Ts, slack=slack, kind=kind,
                   row_end=(Phi[0] if side == "lower" else Phi[-1]).tolist())
            r.true(P + f"{side}-flag-true", flag is True, flag=flag, T_end=Tend, T_spinodal=Ts)
            if not was_clipped:
                # the step that crosses the spinodal is the one rejected, so the last row is within max_step of it
                r.true(P + f"{side}-reaches-spinodal", -over <= dT * (1 + 1e-9), T_end=Tend, T_spinodal=Ts, dT=dT)
            r.tag(f"{side}:{kind}-inside-request", f"{side}:stopped-flagged" if flag else f"{side}:not-flagged")
        else:
            # "covers": the table reaches the (effective) end of the request; rounding of one addition allowed
            tolT = 64 * EPS * abs(want)
            r.close(P + f"{side}-covers-request", max(0.0, sg * (want - Tend)), 0.0, tolT, T_end=Tend, requested=want)
            if not was_clipped:
                r.true(P + f"{side}-flag-false", flag is False, flag=flag, T_end=Tend, requested=want)
            r.tag(f"{side}:no-spinodal-in-request")
        if user_cov and was_clipped:
            # The object's history (limits left by an earlier trace), not physics, shortened the request.
            # Literal reading of the property for the USER's request: a spinodal inside it -> stop there, flagged;
            # otherwise cover it, not flagged.
            user_spin = sp is not None and (sp[0] > userwant if side == "lower" else sp[0] < userwant)
            if user_spin:
                ok = flag
            else:
                ok = (not flag) and sg * (Tend - userwant) >= -64 * EPS * abs(userwant)
            r.true(P + f"history-honours-request-{side}", ok, T_end=Tend, requested=userwant, effective=want, flag=flag,
                   spinodal_inside_user_request=bool(user_spin))
            r.tag(f"{side}:clipped-by-history")
        # tabulated only where it exists: evaluating outside the table is refused
        Tout = Tend + sg * 1e-3 * dT
        try:
            fe(Tout)
            r.true(P + f"{side}-outside-raises", False, T=Tout)
        except WallGo.WallGoError:
            r.true(P + f"{side}-outside-raises", True)
        except Exception as e:
            r.true(P + f"{side}-outside-raises", False, T=Tout, error=repr(e)[:200])
    r.detail[P + "n_rows"] = n
    r.detail[P + "T_range"] = [float(T[0]), float(T[-1])]


def _setup(p):
    base = base_model(p["model"])
    s = float(p["s"])
    am = MD.Scaled(base, s)
    sp = phase_spec(p["model"], p["phase"])
    T0 = float(sp["starts"][p["start"]] * s)
    if p["range"] == "from-start":  # the starting temperature IS the lower end of the requested range (no downward trace at all)
        req = (T0, float(sp["in_hi"] * s))
    elif p["range"] == "to-start":  # ... the upper end
        req = (float(sp["in_lo"] * s), T0)
    else:
        req = tuple(float(x * s) for x in sp["ranges"][p["range"]])
    spin = {k: ((sp[k][0] * s, sp[k][1]) if sp[k] else None) for k in ("lo", "hi")}
    return am, sp, s, T0, req, spin


def case_trace(p: dict) -> dict:
    r = Rel(p["id"])
    am, sp, s, T0, req, spin = _setup(p)
    dT = float(p["dTf"] * DELTA_T * s)
    fe = build_free_energy(am, p["phase"], T0, s)
    r.tag(f"model:{p['model']}/{p['phase']}", f"start:{p['start']}", f"range:{p['range']}", "paranoid" if p["paranoid"] else "not-paranoid", f"units:{s:g}")
    try:
        fe.tracePhase(req[0], req[1], dT, rTol=float(p["rTol"]), paranoid=bool(p["paranoid"]), phaseTracerFirstStep=p.get("first"))
    except Exception as e:
        span = min(req[1], spin["hi"][0] if spin["hi"] else np.inf) - max(req[0], spin["lo"][0] if spin["lo"] else 0.0)
        if isinstance(e, AssertionError) and "Temperature range negative" in str(e) and span < 6 * dT:
            # documented precondition: the table must be wider than the two 2*dT safety margins
            # (plus one step at each end that may be given up to a spinodal); WallGo asks to decrease dT
            return r.result(nontrivial=False, inadmissible="range<4dT(+2dT)")
        # the phase exists at T0 and the arguments are legal: a table must be returned
        r.true("trace-completes", False, error=f"{type(e).__name__}: {str(e)[:300]}")
        r.tag(f"trace-raised:{type(e).__name__}")
        return r.result(nontrivial=False)
    r.true("trace-completes", True)
    r.detail["veff_calls"] = int(fe.effectivePotential.c11_calls)
    check_table(r, am, p["phase"], fe, T0=T0, rTol=float(p["rTol"]), dT=dT, s=s, req=req, eff=req, spin=spin)
    if p.get("first") is not None:
        # documented: starting step "in units of the maximum step size dT" (freeEnergy.py:274-275, config.py:115-120);
        # RK45 never enlarges its first trial step, so the first accepted step is at most first*dT
        T, _, _ = table_of(fe)
        k = int(np.argmin(np.abs(T - T0)))
        if k + 1 < len(T):
            r.true("first-step-in-units-of-dT", float(T[k + 1] - T[k]) <= p["first"] * dT * (1 + 1e-12),
                   first_step_taken=float(T[k + 1] - T[k]), documented_max=p["first"] * dT)
    return r.result()


# ============================================================================ phaseTracerFirstStep
def firststep_cases(tier: str) -> list[dict]:
    out = []
    for s in UNITS:
        for start in ("Tc", "spinhi"):
            cid = f"xsm2/S0,start={start},range=inside,dT=0.02,rTol=1e-06,par=T,s={s:g},first=0.1"
            out.append({"id": cid, "model": "xsm2", "phase": "S0", "start": start, "range": "inside", "dTf": 0.02,
                        "rTol": 1e-6, "paranoid": True, "s": s, "first": 0.1})
    return with_ids(out)


# ============================================================================ int starting temperature
def inttemp_cases(tier: str) -> list[dict]:
    # same physics as trace cases, but the starting temperature handed over as a Python int
    out = []
    for (s, Tint) in ((1.0, 100), (1e-2, 1), (1e2, 10000)):
        for par in (True, False):
            out.append({"id": f"xsm2/S0,Tstart=int({Tint}),par={'T' if par else 'F'},s={s:g}", "s": s, "Tint": Tint, "paranoid": par})
    return with_ids(out)


def case_inttemp(p: dict) -> dict:
    r = Rel(p["id"])
    s = float(p["s"])
    am = MD.Scaled(base_model("xsm2"), s)
    sp = phase_spec("xsm2", "S0")
    T0 = int(p["Tint"])
    assert float(T0) == 100.0 * s
    req = (sp["in_lo"] * s, sp["in_hi"] * s)
    dT = 0.1 * DELTA_T * s
    fe = build_free_energy(am, "S0", T0, s)
    try:
        fe.tracePhase(req[0], req[1], dT, rTol=1e-6, paranoid=bool(p["paranoid"]))
    except Exception as e:
        r.true("trace-completes", False, error=f"{type(e).__name__}: {str(e)[:300]}")
        return r.result(nontrivial=False)
    T, Phi, Vst = table_of(fe)
    k = int(np.argmin(np.abs(T - T0)))
    r.tag("int-start")
    # stored V is V(row): exact up to rounding of one evaluation
    r.close("start-row-storedV", float(Vst[k]), float(am.V(Phi[k], T[k])), float(64 * EPS * sum_abs_terms(am, Phi[k], T[k])), T=float(T[k]), row=Phi[k].tolist())
    dv = np.abs(Vst - am.V(Phi, T)) / (64 * EPS * sum_abs_terms(am, Phi, T))
    r.true("all-rows-storedV", float(np.max(dv)) <= 1.0, worst=float(np.max(dv)), T=float(T[int(np.argmax(dv))]))
    return r.result()


# ============================================================================ critical temperature
TC_PAIRS = {  # key -> (model, low-T phase, high-T phase)
    "xsm2": ("xsm2", "S0", "S1"),
    "cubic1": ("cubic1", "brk", "sym"),
}


def tc_cases(tier: str) -> list[dict]:
    out = []
    for key in TC_PAIRS:
        for rng in ("inside", "wide"):
            if tier == "quick":
                combos = [(DTF[a], RTOL[b], UNITS[c]) for (a, b, c) in L9]
            else:
                combos = [(d, r, s) for d in DTF for r in RTOL for s in UNITS]
            for (dtf, rtol, s) in combos:
                for par in (True, False):
                    out.append({"id": f"{key},range={rng},dT={dtf:g},rTol={rtol:g},par={'T' if par else 'F'},s={s:g}",
                                "pair": key, "range": rng, "dTf": dtf, "rTol": rtol, "paranoid": par, "s": s})
    return with_ids(out)


def _v_tolerance_at(am, name, fe, Tq, gtol):
    """tolerance of the tabulated free energy of one phase at temperature Tq (same construction as mid-V)."""
    from scipy.interpolate import CubicSpline

    T, Phi, _ = table_of(fe)
    ex = exact_phase_rows(am, name, T)
    if np.any(np.isnan(ex[:, 0])) or len(T) < 4:
        return None
    rowtol = np.empty(len(T))
    for q in range(len(T)):
        pt = pos_tolerance(am, ex[q], T[q], gtol)
        rowtol[q] = pt if pt is not None else float(np.max(np.abs(Phi[q] - ex[q])))
    W = np.abs(CubicSpline(T, np.eye(len(T)), axis=0)(Tq))
    lmax = np.linalg.eigvalsh(am.hess(ex, T))[..., -1]
    specV = abs(float(CubicSpline(T, am.V(ex, T))(Tq)) - float(am.V(am.phase(name, Tq), Tq)))
    return specV + float(W @ (lmax * rowtol**2 + 64 * EPS * sum_abs_terms(am, ex, T)))


def case_tc(p: dict) -> dict:
    import WallGo

    logging.disable(logging.CRITICAL)
    r = Rel(p["id"])
    key, low, high = TC_PAIRS[p["pair"]]
    s = float(p["s"])
    base = base_model(key)
    am = MD.Scaled(base, s)
    spL, spH = phase_spec(key, low), phase_spec(key, high)
    Tc = (float(base.Tc()) if isinstance(base, MD.Cubic1) else spL["tref"]) * s
    Tn = 0.96 * Tc
    rTol, dT = float(p["rTol"]), float(p["dTf"] * DELTA_T * s)
    if p["range"] == "inside":
        lo, hi = max(spL["in_lo"], spH["in_lo"]) * s, min(spL["in_hi"], spH["in_hi"]) * s
    else:  # past every subcritical spinodal either phase has, still 5% away from the continuous ones
        lo = min([x for x in (spL["out_lo"], spH["out_lo"]) if x] + [max(spL["in_lo"], spH["in_lo"])]) * s
        hi = max([x for x in (spL["out_hi"], spH["out_hi"]) if x] + [min(spL["in_hi"], spH["in_hi"])]) * s
        if isinstance(base, MD.Cubic1):
            lo = max(lo, 1.05 * base.T0 * s)
    pot = budgeted(MD.make_potential(am))
    pot.configureDerivatives(WallGo.VeffDerivativeSettings(temperatureVariationScale=float(DELTA_T * s), fieldValueVariationScale=[float(FSCALE * s)] * am.nf))
    th = WallGo.Thermodynamics(pot, Tn, WallGo.Fields(am.phase(low, Tn) * 0.97), WallGo.Fields(am.phase(high, Tn) * 1.05))
    th.freeEnergyHigh.disableAdaptiveInterpolation()
    th.freeEnergyLow.disableAdaptiveInterpolation()
    r.tag(f"tc:{p['pair']}", f"tc-range:{p['range']}")
    try:
        th.freeEnergyHigh.tracePhase(lo, hi, dT, rTol=rTol, paranoid=bool(p["paranoid"]))
        th.freeEnergyLow.tracePhase(lo, hi, dT, rTol=rTol, paranoid=bool(p["paranoid"]))
    except AssertionError as e:
        if "Temperature range negative" in str(e):  # range narrower than the 4 dT the safety margins need
            return r.result(inadmissible="range<4dT")
        r.true("traces-complete", False, error=f"{type(e).__name__}: {str(e)[:300]}")
        return r.result(nontrivial=False)
    except Exception as e:
        r.true("traces-complete", False, error=f"{type(e).__name__}: {str(e)[:300]}")
        return r.result(nontrivial=False)
    cmin = max(th.freeEnergyHigh.minPossibleTemperature[0], th.freeEnergyLow.minPossibleTemperature[0])
    cmax = min(th.freeEnergyHigh.maxPossibleTemperature[0], th.freeEnergyLow.maxPossibleTemperature[0])
    got, err = None, None
    try:
        got = float(th.findCriticalTemperature(dT, rTol=rTol, paranoid=bool(p["paranoid"])))
    except WallGo.WallGoError as e:
        err = e
    except Exception as e:
        r.true("tc-returns-or-WallGoError", False, error=f"{type(e).__name__}: {str(e)[:300]}")
        return r.result()
    inside = cmin + dT < Tc < cmax - 1e-9 * Tc
    outside = not (cmin <= Tc <= cmax)
    if inside:
        r.tag("tc-inside-common-range")
        r.true("tc-found", got is not None, error=repr(err)[:200], common=[cmin, cmax], Tc=Tc)
    elif outside:
        r.tag("tc-outside-common-range")
        r.true("tc-refused-outside-range", got is None, got=got, common=[cmin, cmax], Tc=Tc)
    else:
        r.tag("tc-grey-zone")
    if got is not None and not outside:
        gtol = KGRAD * rTol * Tn**3
        tolL = _v_tolerance_at(am, low, th.freeEnergyLow, Tc, gtol)
        tolH = _v_tolerance_at(am, high, th.freeEnergyHigh, Tc, gtol)
        if tolL is None or tolH is None:
            r.tag("tc-tables-off-branch")
        else:
            # envelope theorem: dF/dT = dV/dT at the minimum (closed form)
            slope = abs(float(am.dVdT(am.phase(low, Tc), Tc)) - float(am.dVdT(am.phase(high, Tc), Tc)))
            xtol = min(rTol * Tc, 0.5 * dT)
            # brentq: |x - root| <= xtol + rtol |x| (doubled), plus the table error divided by the slope of Delta F
            tol = 2 * (xtol + rTol * Tc) + (tolL + tolH) / slope
            r.close("tc-value", got, Tc, tol, slope=slope, table_tol=[tolL, tolH])
            # low-T phase favoured below Tc: by the tables themselves, two steps of tolerance away
            for frac in (0.25, 0.75):
                Tb = got - max(2 * tol, frac * (got - cmin))
                Ta = got + max(2 * tol, frac * (cmax - got))
                if cmin <= Tb:
                    fL, fH = float(th.freeEnergyLow(Tb).veffValue), float(th.freeEnergyHigh(Tb).veffValue)
                    r.true(f"low-phase-favoured-below-{frac:g}", fL < fH, T=Tb, fLow=fL, fHigh=fH)
                if Ta <= cmax:
                    fL, fH = float(th.freeEnergyLow(Ta).veffValue), float(th.freeEnergyHigh(Ta).veffValue)
                    r.true(f"high-phase-favoured-above-{frac:g}", fL > fH, T=Ta, fLow=fL, fHigh=fH)
    r.detail.update(common=[cmin, cmax], Tc=Tc, got=got)
    return r.result(nontrivial=(got is not None) or outside)


# ============================================================================ (H) histories
def history_shards(tier: str) -> list[dict]:
    out = []
    shards = [("xsm2", "S0", "Tc", 1.0, True), ("xsm2", "S1", "Tc", 1.0, False), ("cubic1", "brk", "Tc", 1.0, True),
              ("q3", "S1", "Tc", 1.0, False), ("xsm2", "S0", "spinhi", 1e-2, False), ("cubic1", "sym", "Tc", 1.0, True)]
    if tier == "thorough":
        shards += [("xsm2", "S1", "spinlo", 1e-2, True), ("q3", "S1", "spinhi", 1.0, True), ("xsm2", "S0", "Tc", 1.0, False),
                   ("cubic1", "brk", "spinhi", 1.0, False)]
    for (key, phase, start, s, par) in shards:
        out.append({"id": f"{key}/{phase},start={start},par={'T' if par else 'F'},s={s:g}", "model": key, "phase": phase,
                    "start": start, "s": s, "paranoid": par, "depth": 2 if tier == "quick" else 4, "rTol": 1e-6})
    return with_ids(out)


def _history_ranges(sp, s):
    """A = inside existence (shrunk), B = wider: past every subcritical spinodal the phase has (else 6% wider)."""
    a = (sp["in_lo"] * 1.03 * s, sp["in_hi"] * 0.985 * s)
    b = ((sp["out_lo"] if sp["out_lo"] else sp["in_lo"]) * s, (sp["out_hi"] if sp["out_hi"] else sp["in_hi"]) * s)
    return {"A": a, "B": b, "C": a}


def case_history(p: dict) -> dict:
    """One shard: BFS over all histories of length <= depth over {A,B,C} on one FreeEnergy object."""
    r = Rel(p["id"])
    base = base_model(p["model"])
    s = float(p["s"])
    am = MD.Scaled(base, s)
    sp = phase_spec(p["model"], p["phase"])
    T0 = float(sp["starts"][p["start"]] * s)
    spin = {k: ((sp[k][0] * s, sp[k][1]) if sp[k] else None) for k in ("lo", "hi")}
    rng = _history_ranges(sp, s)
    if not (rng["A"][0] < T0 < rng["A"][1]):
        rng["A"] = rng["C"] = (min(rng["A"][0], T0 * 0.97), max(rng["A"][1], T0 * 1.002))
    dTs = {"A": 0.1 * DELTA_T * s, "B": 0.1 * DELTA_T * s, "C": 0.03 * DELTA_T * s}
    rTol = float(p["rTol"])
    raised = []

    def apply(fe, op):
        lim0 = (float(fe.minPossibleTemperature[0]), float(fe.maxPossibleTemperature[0]))
        fe.effectivePotential.c11_calls = 0
        try:
            fe.tracePhase(rng[op][0], rng[op][1], dTs[op], rTol=rTol, paranoid=bool(p["paranoid"]))
            return {"ok": True, "limits_before": lim0}
        except Exception as e:
            return {"ok": False, "error": f"{type(e).__name__}: {str(e)[:200]}", "limits_before": lim0}

    def build(history):
        fe = build_free_energy(am, p["phase"], T0, s)
        fe._c11_dead = False
        for op in history:
            if not apply(fe, op)["ok"]:
                fe._c11_dead = True
        return fe

    def ops(fe, history):
        return [] if getattr(fe, "_c11_dead", False) else ["A", "B", "C"]

    def state_key(fe):
        if not fe.hasInterpolation():
            return BFS.digest({"empty": True, "min": fe.minPossibleTemperature, "max": fe.maxPossibleTemperature})
        T, Phi, V = table_of(fe)
        return BFS.digest({"T": T, "Phi": Phi, "V": V, "min": fe.minPossibleTemperature, "max": fe.maxPossibleTemperature,
                           "dead": getattr(fe, "_c11_dead", False)})

    def check(fe, history, op, outcome):
        if op is None:
            return []
        h = ">".join(history)
        sub = Rel(h)
        if not outcome["ok"]:
            fe._c11_dead = True
            raised.append(h)
            # a legal re-trace of an existing phase must return a table
            sub.true(h + ":trace-completes", False, error=outcome["error"])
        else:
            lo0, hi0 = outcome["limits_before"]
            req = rng[op]
            eff = (max(lo0, req[0]), min(hi0, req[1]))
            check_table(sub, am, p["phase"], fe, T0=T0, rTol=rTol, dT=dTs[op], s=s, req=req, eff=eff, spin=spin,
                        prefix=h + ":", clipped=(lo0 > req[0], hi0 < req[1]))
        if len(history) > 1:
            # C11 quantifies over inputs and configurations, not over histories: what a RE-trace of an already traced
            # object does with the new request (it silently clips it to the limits left by the previous trace, keeps stale
            # end flags, and can raise once the narrowed limit passes the starting temperature) is outside the statement.
            # Those outcomes are recorded as observations; the genuineness invariants of the table (every row a minimum on
            # the branch, stored V, continuity, no row past a spinodal) are still enforced after every history.
            keep = []
            for v in sub.viol:
                suffix = v["relation"].split(":")[-1]
                if suffix.startswith("history-honours-request") or suffix.endswith(("-flag-false", "-flag-true", "-covers-request")) or suffix == "trace-completes":
                    t = "observation(re-trace):" + suffix
                    if t not in r.tags:
                        r.tags.append(t)
                else:
                    keep.append(v)
            sub.viol = keep
        r.n += sub.n
        r.margin = max(r.margin, sub.margin)
        r.viol.extend(sub.viol)
        for t in sub.tags:
            if t not in r.tags:
                r.tags.append(t)
        return sub.viol

    res = BFS.explore(build, ops, apply, state_key, check, depth=int(p["depth"]), initial_histories=[[]])
    r.detail.update(states=res.states, transitions=res.transitions, max_depth=res.max_depth,
                    outcomes={k: len(v) for k, v in res.outcomes.items()}, raised=raised, samples=res.samples)
    r.tag("history-depth-%d" % res.max_depth)
    out = r.result()
    out["bfs"] = {"states": res.states, "transitions": res.transitions}
    return out


# ============================================================================ driver
SECTIONS = {
    "trace": (trace_cases, case_trace),
    "firststep": (firststep_cases, case_trace),
    "inttemp": (inttemp_cases, case_inttemp),
    "tc": (tc_cases, case_tc),
    "history": (history_shards, case_history),
}


def run(ctx) -> None:
    for name, (gen, fn) in SECTIONS.items():
        if ctx.only and ctx.only != name:
            continue
        cases = gen(ctx.tier)
        results = ctx.run_lattice(name, cases, fn, timeout=600)
        if name == "history":
            st = sum(x.get("bfs", {}).get("states", 0) for x in results)
            tr = sum(x.get("bfs", {}).get("transitions", 0) for x in results)
            ctx.add_bfs(st, tr, tr)
            ctx.note("history_depth_completed", 2 if ctx.tier == "quick" else 4)
            ctx.note("history_alphabet", ["A: trace(range inside existence)", "B: trace(wider range, past the spinodals)", "C: trace(range A, dT*0.3)"])
        ctx.note(f"{name}_cases", len(cases))
        if name == "trace":
            ctx.note("max_veff_calls_per_trace", max([int((x.get("detail") or {}).get("veff_calls", 0)) for x in results] + [0]))
            ctx.note("veff_call_cap", CALL_CAP)
            # metric (not a relation): interpolation error / (rTol*max(|phi0|,T0)) over the cases without violation whose dT is
            # at least as fine as WallGoManager's recipe dT = temperatureVariationScale * tol^(1/4)
            worst = {}
            for c, x in zip(cases, results):
                v = (x.get("detail") or {}).get("interp_err_over_rTol_scale")
                if v is not None and x.get("verdict") == "ok" and c["dTf"] <= c["rTol"] ** 0.25 * (1 + 1e-12):
                    k = f"s={c['s']:g},rTol={c['rTol']:g}"
                    worst[k] = max(worst.get(k, 0.0), float(v))
            ctx.note("interp_error_over_rTol_scale_at_manager_recipe_dT", worst)
    ctx.exhaustive = True  # the stated finite lattice / all histories up to the depth were enumerated completely
    ctx.note("exhaustive_scope", "the stated finite cross products and all re-trace histories up to the depth; not the reals")


def replay(rep: dict) -> dict:
    return SECTIONS[rep["section"]][1](rep["params"])
