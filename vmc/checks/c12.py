"""C12 - the Boltzmann solution reflects the physics, not the discretisation choices.

Three sections, all on the REAL BoltzmannSolver with synthetic non-singular collision operators
(the git-LFS collision files are never opened):

solve     (L) full cross product  background {homog, T, v, field, all} x particles {f, b, f+b} x collision
          {relax, dense} x (M,N) {(6,5),(12,7),(20,11)}; inside each case the four (position basis x momentum
          basis) combinations in spectral mode plus the finite-difference mode are run.  Oracles: own source term,
          own (Cardinal,Cardinal) operator, rounding bound for the homogeneous solution, backward error of the solve,
          the solution of every basis converted to grid values with the harness' own basis functions must satisfy the
          (Cardinal,Cardinal) system and agree with the reference basis, and so must the four moments and the
          truncation estimate.
fdladder  (L) spectral vs finite-difference derivative mode on the ladder M in {10,20,40,80}: source against the own
          closed-form/3-point oracle, difference to the spectral source below the Taylor bound h-h+/6 max|q'''| and
          at least halved per doubling, per profile kind; Liouville operator applied to a fixed polynomial test function
          likewise (and its p_z finite difference against the Taylor bound on N in {5,9,17});
          EOM.getBoltzmannFiniteDifference == a from-scratch finite-difference solver and leaves its solver untouched;
          finite-difference solution converges to the spectral one (backgrounds without field gradient).
history   (H) exhaustive enumeration of call histories up to depth d over {setA, setB, solve, getDeltas, scribbleA}:
          the caller's background objects / collision array are never modified, every result equals the result of a
          fresh solver on the background that was current when it was set (so solving twice is identical).
"""
from __future__ import annotations

import hashlib
import itertools
import os
import shutil

import numpy as np

from ..lattice import Rel, with_ids
from .. import wg
from ..bfs import digest
from ..oracles import c12_oracle as O

LEVEL = "model_checking"
RULE = (
    "solve: full cross product background x particle set x collision kind x grid size, each case running all 4 basis "
    "combinations + the finite-difference mode; non-trivial = source norm > 0 (every non-homogeneous background) or "
    "the homogeneous rounding bound was evaluated. fdladder: background x particle set x collision kind, each on the "
    "complete ladder M in {10,20,40,80} (N=5) and N in {5,9,17} (M=6); collision-independent relations (source, Liouville) are "
    "evaluated in the coll=relax cases only. history: ALL operation sequences of length "
    "<= depth over {setA,setB,solve,getDeltas,scribbleA} (solve/getDeltas enabled once a background is set), per "
    "(basis/mode, particle set, collision kind) shard; distinct = distinct state digest of solver + caller objects."
)
ASSUMPTIONS = [
    "rounding bound = 64*eps*sum|terms|; for entries of the spectral derivative matrices, which are products/sums of "
    "M factors, the constant is 64+4M and the diagonal is bounded by sum_j 1/|x_i-x_j|",
    "relative rounding of the kinematic source coefficients: 64*eps*(4 + x + S), x = E_pl/T, S = (e^x+2+e^-x)/|e^x-2s+e^-x| "
    "(the cancellation in the Bose-Einstein derivative as written in the code)",
    "solve backward error: ||A x - b||_2 <= 64*eps*|| |A||x| ||_2 (+ the same bound for evaluating the residual)",
    "cross-basis agreement: a-posteriori forward bound ||A_cc^-1||_inf * (residual bounds of the two solutions in the "
    "(Cardinal,Cardinal) system); ||A^-1|| exact for n <= 1600, LAPACK gecon estimate x3 above",
    "\"decreasing\" on a ladder of doublings = at least halved (a second-order scheme gives a factor 4)",
    "finite differences: |f' - FD f| <= h- h+ /6 * max|f'''| (3-point Lagrange), max over [-1,1] of the closed-form "
    "third derivative; spectral truncation of the boosted (rational) velocity is measured by the oracle and added",
    "the finite-difference solution is compared with the spectral one only for backgrounds without field gradient "
    "(otherwise the p_z finite difference at fixed N does not refine with M)",
    "collision operators are synthetic (relaxation kappa*1 and a fixed integer-valued diagonally dominant tensor); "
    "nothing is claimed about the shipped collision data",
    "linearisation criteria returned by getDeltas are exercised and compared bitwise in the history section only",
]

EPS = O.EPS
L_XI, T0 = 0.1, 100.0
CFGS = [("Cardinal", "Cardinal"), ("Cardinal", "Chebyshev"), ("Chebyshev", "Cardinal"), ("Chebyshev", "Chebyshev")]
WORK = os.path.join(os.path.dirname(os.path.dirname(os.path.dirname(os.path.abspath(__file__)))), ".work", "c12")


def _cfgname(bm, bn, deriv="Spectral"):
    return "FD" if deriv != "Spectral" else f"{bm[:4]}-{bn[:4]}"


# ----------------------------------------------------------------------------- building real objects
def _particles(names):
    from WallGo import Particle

    out = []
    for i, n in enumerate(names):
        s, a, b = O.PARTICLES[n]

        def msq(f, a=a, b=b):
            return a * f.getField(0) ** 2 + b * f.getField(1) ** 2

        def dmsq(f, a=a, b=b):
            return np.transpose([2 * a * f.getField(0), 2 * b * f.getField(1)])

        out.append(Particle(n, i, msq, dmsq, "Fermion" if s < 0 else "Boson", 12))
    return out


def _bg_arrays(kind: str, g: O.OGrid, scribbles: int = 0):
    """Wall-frame profile arrays handed to WallGo (what the 'caller' owns)."""
    ob = O.Background(kind)
    x = g.chiFull
    v, T = ob.vWall(x).copy(), ob.T(x).copy()
    f = np.stack([ob.f1(x), ob.f2(x)], axis=1)
    for _ in range(scribbles):  # the caller's in-place edit of its own object (history section)
        T *= 1.03125
        v *= 0.96875
        f *= 1.0625
    return ob, v, f, T


def _background(kind: str, g: O.OGrid, scribbles: int = 0):
    from WallGo import BoltzmannBackground, Fields

    ob, v, f, T = _bg_arrays(kind, g, scribbles)
    vmid = 0.5 * (v[0] + v[-1])
    return ob, BoltzmannBackground(vmid, v, Fields(f), T, "Cardinal")


def _bg_fingerprint(bg) -> tuple:
    """Bitwise fingerprint of everything a caller can see on its BoltzmannBackground."""
    return (
        repr(bg.velocityWall), repr(float(bg.velocityMid)), bg.polynomialBasis,
        np.asarray(bg.velocityProfile).shape, np.asarray(bg.velocityProfile, dtype=float).tobytes(),
        np.asarray(bg.fieldProfiles).shape, np.asarray(bg.fieldProfiles, dtype=float).tobytes(),
        np.asarray(bg.temperatureProfile).shape, np.asarray(bg.temperatureProfile, dtype=float).tobytes(),
        type(bg.fieldProfiles).__name__,
    )


def _collision_array(Cb, basisN, grid, parts):
    from WallGo.collisionArray import CollisionArray
    from WallGo.polynomial import Polynomial

    poly = Polynomial(np.array(Cb), grid, ("Array", "Cardinal", "Cardinal", "Array", basisN, basisN),
                      CollisionArray.AXIS_TYPES, endpoints=False)
    return CollisionArray.newFromPolynomial(poly, parts)


def _write_hdf5(directory, names, Cstored, N, basisType):
    """The repository's collision file format: collisions_<p1>_<p2>.hdf5, group 'metadata' with attributes
    'Basis Size' / 'Basis Type', dataset '<p1>, <p2>' of shape (N-1,)*4."""
    import h5py

    os.makedirs(directory, exist_ok=True)
    for i, p1 in enumerate(names):
        for j, p2 in enumerate(names):
            with h5py.File(os.path.join(directory, f"collisions_{p1}_{p2}.hdf5"), "w") as fh:
                md = fh.create_group("metadata")
                md.attrs["Basis Size"] = N
                md.attrs["Basis Type"] = np.bytes_(basisType)
                fh.create_dataset(f"{p1}, {p2}", data=Cstored[i, :, :, j, :, :])


def _solver(grid, bm, bn, deriv, parts, bg):
    from WallGo import BoltzmannSolver

    s = BoltzmannSolver(grid, bm, bn, deriv)
    s.updateParticleList(parts)
    if bg is not None:
        s.setBackground(bg)
    return s


# ----------------------------------------------------------------------------- oracle pieces
def _cM(M):
    return 64.0 + 4.0 * M


def _absD_spectral(x):
    """|D| of the Lagrange differentiation matrix with the diagonal replaced by sum_j 1/|x_i-x_j| (its terms)."""
    D = O.lagrange_diff_matrix(x)
    A = np.abs(D)
    dx = np.abs(x[:, None] - x[None, :])
    np.fill_diagonal(dx, np.inf)
    A[np.arange(len(x)), np.arange(len(x))] = np.sum(1.0 / dx, axis=1)
    return D, A


def _profile_derivs(g, ob, names, mode):
    """Own derivative of (v_plasma, T, m^2) at the interior chi points + rounding bound of WallGo's version."""
    x = g.chiFull
    if mode == "spec":
        D, A = _absD_spectral(x)
        c = _cM(g.M)
    else:
        D = O.fd3_matrix(x)
        A, c = np.abs(D), 64.0
    q = [ob.vPlasma(x), ob.T(x)] + [ob.msq(n, x) for n in names]
    d = [(D @ a)[1:-1] for a in q]
    db = [c * EPS * (A @ np.abs(a))[1:-1] for a in q]
    return d[0], d[1], np.array(d[2:]), db[0], db[1], np.array(db[2:])


def _kin_rel(g, ob, names):
    """Relative rounding of the kinematic coefficients (see ASSUMPTIONS)."""
    chi = g.chi
    T = ob.T(chi)[None, :, None, None]
    v = ob.vPlasma(chi)[None, :, None, None]
    msq = np.array([ob.msq(n, chi) for n in names])[:, :, None, None]
    stat = np.array([O.PARTICLES[n][0] for n in names])[:, None, None, None]
    E = np.sqrt(msq + g.pz[None, None, :, None] ** 2 + g.pp[None, None, None, :] ** 2)
    xx = (E - v * g.pz[None, None, :, None]) / np.sqrt(1 - v * v) / T
    S = (np.exp(xx) + 2 + np.exp(-xx)) / np.abs(np.exp(xx) - 2 * stat + np.exp(-xx))
    return 64.0 * EPS * (4.0 + xx + S)


def _source_oracle(g, ob, names, mode):
    Av, AT, Am = O.source_coeffs(g, ob, names)
    dv, dT, dm, bv, bT, bm = _profile_derivs(g, ob, names, mode)
    e = lambda a: a[None, :, None, None]  # noqa: E731
    m = lambda a: a[:, :, None, None]  # noqa: E731
    S = Av * e(dv) + AT * e(dT) + Am * m(dm)
    rel = _kin_rel(g, ob, names)
    tol = rel * (np.abs(Av * e(dv)) + np.abs(AT * e(dT)) + np.abs(Am * m(dm))) + np.abs(Av) * e(bv) + np.abs(AT) * e(bT) + np.abs(Am) * m(bm)
    return S, tol, (Av, AT, Am)


def _operator_oracle(g, ob, names, Ccard, mode):
    """Own (Cardinal,Cardinal) operator  c1 D_chi - k2 dm^2/dchi D_rz + T^2 C  and an entrywise rounding bound."""
    P, M1, N1 = len(names), g.M - 1, g.N - 1
    chi = g.chi
    vw = ob.vWallPlasma()
    gw = 1.0 / np.sqrt(1.0 - vw * vw)
    msq = np.array([ob.msq(n, chi) for n in names])[:, :, None, None]
    pz = g.pz[None, None, :, None]
    E = np.sqrt(msq + pz**2 + g.pp[None, None, None, :] ** 2)
    c1 = np.broadcast_to(g.dchidxi[None, :, None, None] * gw * (pz - vw * E), (P, M1, N1, N1))
    # rounding bound of c1: the difference pz - vw E cancels, its error is eps (|pz| + |vw| E), not eps |pz - vw E|
    # (a behaviour-preserving re-association of the energy moved one entry by 23 of the old bounds, see DESIGN 8.7)
    c1mag = np.broadcast_to(g.dchidxi[None, :, None, None] * gw * (np.abs(pz) + abs(vw) * E), (P, M1, N1, N1))
    k2 = np.broadcast_to(g.dchidxi[None, :, None, None] * g.drzdpz[None, None, :, None] * gw / 2.0, (P, M1, N1, N1))
    _, _, dm, _, _, bm = _profile_derivs(g, ob, names, mode)
    if mode == "spec":
        Dz, Az = _absD_spectral(g.chiFull)
        Dr, Ar = _absD_spectral(g.rzFull)
        cz, cr = _cM(g.M), _cM(g.N)
    else:
        Dz, Dr = O.fd3_matrix(g.chiFull), O.fd3_matrix(g.rzFull)
        Az, Ar, cz, cr = np.abs(Dz), np.abs(Dr), 64.0, 64.0
    Dz, Az, Dr, Ar = Dz[1:-1, 1:-1], Az[1:-1, 1:-1], Dr[1:-1, 1:-1], Ar[1:-1, 1:-1]
    T2 = (ob.T(chi) ** 2)[None, :, None, None]
    Iz, Ir = np.identity(M1), np.identity(N1)
    IP = np.identity(P)[:, None, None, None, :, None, None, None]

    def e8(a):  # coefficient on the row index
        return a[:, :, :, :, None, None, None, None]

    zz = lambda m: m[None, :, None, None, None, :, None, None]  # noqa: E731
    rr = lambda m: m[None, None, :, None, None, None, :, None]  # noqa: E731
    pp = lambda m: m[None, None, None, :, None, None, None, :]  # noqa: E731
    c2 = k2 * dm[:, :, None, None]
    A = IP * (e8(c1) * zz(Dz) * rr(Ir) * pp(Ir) - e8(c2) * zz(Iz) * rr(Dr) * pp(Ir))
    coll = e8(np.broadcast_to(T2, (P, M1, N1, N1))) * zz(Iz) * Ccard[:, None, :, :, :, None, :, :]
    A = A + coll
    tol = IP * (
        (cz + 64.0) * EPS * e8(c1mag) * zz(Az) * rr(Ir) * pp(Ir)
        + ((cr + 64.0) * EPS * e8(np.abs(c2)) + e8(k2 * bm[:, :, None, None])) * zz(Iz) * rr(Ar) * pp(Ir)
    ) + 64.0 * EPS * np.abs(coll)
    n = P * M1 * N1 * N1
    return A.reshape(n, n), tol.reshape(n, n)


def _moment_weights(g, ob, names):
    """Own Gauss-Chebyshev-Lobatto weights of Delta00/02/20/11: (P, M-1, N-1, N-1) each."""
    msq = np.array([ob.msq(n, g.chi) for n in names])[:, :, None, None]
    pz = g.pz[None, None, :, None]
    pp = g.pp[None, None, None, :]
    E = np.sqrt(msq + pz**2 + pp**2)
    wz = (np.pi / g.N) * np.sqrt(1 - g.rz**2)
    wp = (np.pi / (g.N - 1)) * np.sqrt(1 - g.rp**2)  # vanishes at rp = -1, the kept end point
    base = wz[None, None, :, None] * wp[None, None, None, :] * g.dpzdrz[None, None, :, None] * g.dppdrp[None, None, None, :] * pp / (4 * np.pi**2 * E)
    return {"Delta00": base, "Delta02": pz**2 * base, "Delta20": E**2 * base, "Delta11": E * pz * base}


def _inv_norm_inf(A):
    """||A^-1||_inf (exact for n <= 1600, otherwise 3 x the LAPACK condition estimator)."""
    n = A.shape[0]
    if n <= 1600:
        return float(np.max(np.sum(np.abs(np.linalg.inv(A)), axis=1)))
    from scipy.linalg import lapack

    lu, piv, info = lapack.dgetrf(A)
    anorm = float(np.max(np.sum(np.abs(A), axis=1)))
    rcond, info = lapack.dgecon(lu, anorm, norm="I")
    return 3.0 / (rcond * anorm)


def _ratio(r, name, err, tol, sharp=False, **detail):
    """Array relation max(err/tol) <= 1, recording the margin.  sharp=True marks a rigorous analytic inequality
    (Taylor remainder) that is attained up to a few per cent by construction: its ratio is kept in the detail but is
    not a rounding tolerance and therefore not part of the residual/tolerance margin statistic."""
    err, tol = np.asarray(err, dtype=float), np.asarray(tol, dtype=float)
    r.n += 1
    if not np.all(np.isfinite(err)) or err.shape != np.broadcast_shapes(err.shape, tol.shape):
        r.viol.append({"relation": name, "detail": {"error": "non-finite or mis-shaped result", **detail}})
        return False
    q = float(np.max(err / (tol + 1e-300))) if err.size else 0.0
    if not sharp:
        r.margin = max(r.margin, q)
    r.detail.setdefault("sharp_margins" if sharp else "margins", {})[name] = q
    if q > 1.0:
        i = int(np.argmax(err / (tol + 1e-300)))
        r.viol.append({"relation": name, "detail": {"max_err_over_tol": q, "err": float(err.reshape(-1)[i]), "tol": float(np.broadcast_to(tol, err.shape).reshape(-1)[i]), "index": i, **detail}})
        return False
    return True


# ----------------------------------------------------------------------------- section: solve
def case_solve(p: dict) -> dict:
    from pathlib import Path

    from WallGo.grid import Grid

    r = Rel(p["id"])
    kind, pset, ckind, M, N = p["bg"], p["parts"], p["coll"], p["M"], p["N"]
    names = O.PARTICLE_SETS[pset]
    P = len(names)
    g = O.OGrid(M, N, L_XI, T0)
    grid = Grid(M, N, L_XI, T0)
    parts = _particles(names)
    ob, bg = _background(kind, g)
    fp0 = _bg_fingerprint(bg)
    n = P * (M - 1) * (N - 1) ** 2
    shape = (P, M - 1, N - 1, N - 1)
    Ccard = O.collision_cardinal(ckind, P, N)
    # collision data go through the repository's own HDF5 loader (same N: no interpolation), stored in the
    # cardinal basis for 'relax' and in the Chebyshev basis (as the shipped files are) for 'dense'
    stored = "Cardinal" if ckind == "relax" else "Chebyshev"
    tmp = os.path.join(WORK, f"run-{os.getpid()}", hashlib.sha1(p["id"].encode()).hexdigest()[:12])
    _write_hdf5(tmp, names, O.collision_in_basis(Ccard, stored, g), N, stored)
    kap = {b: np.linalg.cond(O.basis_matrix(b, "pz", g), 1) * np.linalg.cond(O.basis_matrix(b, "pp", g), 1) for b in ("Cardinal", "Chebyshev")}
    try:
        results = {}
        for bm, bn, deriv in [(a, b, "Spectral") for a, b in CFGS] + [("Cardinal", "Cardinal", "Finite Difference")]:
            cfg = _cfgname(bm, bn, deriv)
            try:
                s = _solver(grid, bm, bn, deriv, parts, bg)
                s.loadCollisions(Path(tmp))
                Cown = O.collision_in_basis(Ccard, bn, g)
                # basis change of the collision data: rounding of a product with K (or its inverse, conditioning kap)
                _ratio(r, f"collision-loaded-{cfg}", np.abs(s.collisionArray[:] - Cown),
                       64 * EPS * (1 + kap["Chebyshev"] * (stored != bn)) * np.max(np.abs(Cown)) * N * N)
                op, src, _, _ = s.buildLinearEquations()
                x = s.solveBoltzmannEquations()
                res = s.getDeltas()
            except Exception as e:  # the property says a solution is returned
                r.true(f"no-exception-{cfg}", False, error=repr(e))
                continue
            r.true(f"shape-{cfg}", x.shape == shape and op.shape == (n, n) and src.shape == (n,), got=x.shape)
            r.true(f"solve-twice-identical-{cfg}", np.array_equal(res.deltaF, x))
            xv = x.reshape(-1)
            # backward error of the dense solve (and of evaluating the residual here)
            ax = np.abs(op) @ np.abs(xv)
            res_vec = op @ xv - src
            _ratio(r, f"residual-{cfg}", np.linalg.norm(res_vec), 2 * 64 * EPS * np.linalg.norm(ax) + 1e-300,
                   rel_to_source=float(np.linalg.norm(res_vec) / (np.linalg.norm(src) + 1e-300)))
            results[cfg] = (s, op, src, x, res, res_vec, ax)
            r.tag(f"cfg-{cfg}", f"basisM-{bm}", f"basisN-{bn}", f"deriv-{deriv}")

        # ---- source and operator against the harness' own physics
        for cfg, (s, op, src, x, res, _, _) in results.items():
            mode = "fd" if cfg == "FD" else "spec"
            So, tolS, _ = _source_oracle(g, ob, names, mode)
            # (the source does not depend on the collision data: the finite-difference one is compared once, for 'relax')
            if cfg != "FD" or ckind == "relax":
                _ratio(r, f"source-vs-oracle-{cfg}", np.abs(src.reshape(shape) - So), tolS)
            if cfg in ("Card-Card", "FD"):
                # assembly only: the collision data as loaded (their loading is the relation collision-loaded-*)
                Ao, tolA = _operator_oracle(g, ob, names, np.array(s.collisionArray[:]), mode)
                _ratio(r, f"operator-vs-oracle-{cfg}", np.abs(op - Ao), tolA + 1e-300)
                del Ao, tolA
            if kind == "homog":
                # all profile derivatives are pure rounding: |x|_inf <= ||A^-1||_inf * (bound on |source|) (+ solve error)
                bound = _inv_norm_inf(op) * float(np.max(tolS))
                _ratio(r, f"homog-deltaF-{cfg}", np.max(np.abs(x)), 2 * bound, bound=bound)
                r.detail[f"homog-{cfg}"] = {"max|deltaF|": float(np.max(np.abs(x))), "bound": bound}
                r.tag("homogeneous-bound-evaluated")

        # ---- basis independence (spectral configurations), reference = (Cardinal, Cardinal)
        if "Card-Card" in results:
            _, Acc, scc, xref, resref, rref, axref = results["Card-Card"]
            ninv = _inv_norm_inf(Acc)
            absA = np.abs(Acc)
            W = _moment_weights(g, ob, names)
            rho_ref = 2 * 64 * EPS * float(np.max(axref))
            xc_ref = xref
            for (bm, bn) in CFGS:
                cfg = _cfgname(bm, bn)
                if cfg not in results:
                    continue
                _, opb, _, xb, resb, _, axb = results[cfg]
                xc, sc = O.to_grid_values(xb, bm, bn, g)
                # the solution found in basis b, as grid values, satisfies the cardinal system: solve backward error
                # in basis b + representation/convention rounding (64+4M)*eps*|A_cc| |K_b| |x_b|
                rb = Acc @ xc.reshape(-1) - scc
                rho_vec = 2 * 64 * EPS * axb + (_cM(M) + _cM(N) + 64) * EPS * (absA @ sc.reshape(-1))
                _ratio(r, f"xbasis-residual-{cfg}", np.max(np.abs(rb)), np.max(rho_vec))
                tolv = ninv * (float(np.max(rho_vec)) + rho_ref) + 64 * EPS * float(np.max(sc))
                if cfg != "Card-Card":
                    _ratio(r, f"xbasis-values-{cfg}", np.max(np.abs(xc - xc_ref)), tolv,
                           rel=float(np.max(np.abs(xc - xc_ref)) / (np.max(np.abs(xc_ref)) + 1e-300)))
                for nm, w in W.items():
                    got = np.asarray(getattr(resb.Deltas, nm).coefficients)
                    want = np.asarray(getattr(resref.Deltas, nm).coefficients)
                    own = np.sum(w * xc, axis=(2, 3))
                    wsum = np.sum(np.abs(w), axis=(2, 3))
                    wabs = np.sum(np.abs(w) * np.abs(xc), axis=(2, 3))
                    if got.shape != (P, M - 1):
                        r.true(f"moment-shape-{nm}-{cfg}", False, got=got.shape)
                        continue
                    # same quadrature on the same grid values: rounding of a sum + basis change inside getDeltas
                    _ratio(r, f"moment-own-quadrature-{nm}-{cfg}", np.abs(got - own),
                           64 * EPS * (wabs + np.sum(np.abs(w) * sc, axis=(2, 3))) + 1e-300)
                    if cfg != "Card-Card":
                        _ratio(r, f"moment-xbasis-{nm}-{cfg}", np.abs(got - want), wsum * tolv + 64 * EPS * wabs + 1e-300)
                if cfg != "Card-Card":
                    # Boyd truncation estimate: ratio of sums of |Chebyshev coefficients| of the same function
                    te, te0 = float(resb.truncationError), float(resref.truncationError)
                    kz = np.linalg.cond(O.basis_matrix("Chebyshev", "z", g), 1)
                    amp = kz * kap["Chebyshev"] * n
                    _ratio(r, f"truncation-xbasis-{cfg}", abs(te - te0), 4 * amp * tolv / (np.max(np.abs(xc_ref)) + 1e-300) + 64 * EPS)
        r.true("caller-bg-unmodified", _bg_fingerprint(bg) == fp0)
        r.tag(f"bg-{kind}", f"parts-{pset}", f"coll-{ckind}", f"grid-{M}x{N}", f"hdf5-stored-{stored}")
        snorm = max(float(np.linalg.norm(v[2])) for v in results.values()) if results else 0.0
        r.detail["source_norm"] = snorm
    finally:
        shutil.rmtree(tmp, ignore_errors=True)
        try:
            os.rmdir(os.path.dirname(tmp))
        except OSError:
            pass
    return r.result(nontrivial=True)


def solve_cases(tier: str) -> list[dict]:
    out = []
    for (M, N) in [(6, 5), (12, 7), (20, 11)]:
        for kind in ["homog", "T", "v", "field", "all"]:
            for pset in ["f", "b", "fb"]:
                for ck in ["relax", "dense"]:
                    if tier == "quick" and (M, N) == (20, 11) and not (
                        (kind == "all" and pset == "fb") or (kind == "homog" and pset == "f" and ck == "relax")
                        or (kind in ("T", "v", "field") and pset == "b" and ck == "dense")
                    ):
                        continue
                    out.append({"bg": kind, "parts": pset, "coll": ck, "M": M, "N": N})
    return with_ids(out)


# ----------------------------------------------------------------------------- section: fdladder
LADDER_M = [10, 20, 40, 80]
LADDER_N = [5, 9, 17]
G_CHI = O.Poly([1.0, 0.3, -0.4, 0.2])  # test function f = (1-chi^2) G(chi) * (1-rz^2) H(rz) * (1-rp) K(rp) * (1+a)
H_RZ = O.Poly([1.0, 0.25, 0.3])
K_RP = O.Poly([1.0, 0.5])


def _poly_times(poly: O.Poly, other):
    return O.Poly(np.convolve(poly.c, np.array(other, dtype=float)))


def _max_abs(fun, k):
    xs = np.linspace(-1.0, 1.0, 4001)
    return float(np.max(np.abs(fun(xs, k)))) * 1.001


def _hh6(x):
    """h- h+ / 6 at the interior nodes of x."""
    return (x[1:-1] - x[:-2]) * (x[2:] - x[1:-1]) / 6.0


def _liouville_test(r, tagM, L_spec, L_fd, g, ob, names, quadratic_rz: bool):
    """Apply both Liouville tensors to the grid values of the fixed polynomial test function and compare with the
    own evaluation c1 d_chi f - k2 dm^2/dchi d_rz f (closed-form derivatives of f)."""
    P, M1, N1 = len(names), g.M - 1, g.N - 1
    n = P * M1 * N1 * N1
    gz = _poly_times(G_CHI, [1.0, 0.0, -1.0])
    hz = O.Poly([1.0, 0.0, -1.0]) if quadratic_rz else _poly_times(H_RZ, [1.0, 0.0, -1.0])
    kp = _poly_times(K_RP, [1.0, -1.0])
    amp = (1.0 + np.arange(P))[:, None, None, None]
    f = amp * gz(g.chi)[None, :, None, None] * hz(g.rz)[None, None, :, None] * kp(g.rp)[None, None, None, :]
    fabs = amp * gz.absval(g.chi)[None, :, None, None] * hz.absval(g.rz)[None, None, :, None] * kp.absval(g.rp)[None, None, None, :]
    vw = ob.vWallPlasma()
    gw = 1.0 / np.sqrt(1.0 - vw * vw)
    msq = np.array([ob.msq(nm, g.chi) for nm in names])[:, :, None, None]
    pz = g.pz[None, None, :, None]
    E = np.sqrt(msq + pz**2 + g.pp[None, None, None, :] ** 2)
    c1 = g.dchidxi[None, :, None, None] * gw * (pz - vw * E)
    k2 = g.dchidxi[None, :, None, None] * g.drzdpz[None, None, :, None] * gw / 2.0
    dm_exact = np.array([ob.msq(nm, g.chi, 1) for nm in names])[:, :, None, None]
    dfz = amp * gz(g.chi, 1)[None, :, None, None] * hz(g.rz)[None, None, :, None] * kp(g.rp)[None, None, None, :]
    dfr = amp * gz(g.chi)[None, :, None, None] * hz(g.rz, 1)[None, None, :, None] * kp(g.rp)[None, None, None, :]
    exact = c1 * dfz - k2 * dm_exact * dfr
    # Taylor bounds of the 3-point formulas (f''' in chi, in rz, and (m^2)''' )
    hz6, hr6 = _hh6(g.chiFull)[None, :, None, None], _hh6(g.rzFull)[None, None, :, None]
    m3 = np.array([_max_abs(lambda x, k, nm=nm: ob.msq(nm, x, k), 3) for nm in names])[:, None, None, None]
    kabs = np.abs(kp(g.rp))[None, None, None, :]
    b_chi = np.abs(c1) * hz6 * _max_abs(gz, 3) * amp * np.abs(hz(g.rz))[None, None, :, None] * kabs
    b_rz = np.abs(k2 * dm_exact) * hr6 * _max_abs(hz, 3) * amp * np.abs(gz(g.chi))[None, :, None, None] * kabs
    b_dm = np.abs(k2) * hz6 * m3 * (np.abs(dfr) + hr6 * _max_abs(hz, 3) * amp * np.abs(gz(g.chi))[None, :, None, None] * kabs)
    taylor = b_chi + b_rz + b_dm
    # rounding of a matrix-vector product with the derivative matrices
    _, Az = _absD_spectral(g.chiFull)
    _, Ar = _absD_spectral(g.rzFull)
    Az, Ar = Az[1:-1, 1:-1], Ar[1:-1, 1:-1]
    _, _, _, _, _, bm = _profile_derivs(g, ob, names, "spec")
    rnd = (_cM(g.M) + 64) * EPS * np.abs(c1) * np.einsum("ab,pbcd->pacd", Az, fabs) + (
        (_cM(g.N) + 64) * EPS * np.abs(k2 * dm_exact) + k2 * bm[:, :, None, None]
    ) * np.einsum("cb,pabd->pacd", Ar, fabs) + 64 * EPS * np.abs(exact)
    shape = (P, M1, N1, N1)
    Lf_spec = (L_spec.reshape(n, n) @ f.reshape(-1)).reshape(shape)
    Lf_fd = (L_fd.reshape(n, n) @ f.reshape(-1)).reshape(shape)
    _ratio(r, f"liou-spec-vs-closed-form-{tagM}", np.abs(Lf_spec - exact), rnd + 1e-300)
    _ratio(r, f"liou-fd-vs-spec-taylor-{tagM}", np.abs(Lf_fd - Lf_spec), 1.01 * taylor + 2 * rnd + 1e-300, sharp=True)
    return float(np.linalg.norm(Lf_fd - Lf_spec) / np.linalg.norm(Lf_spec))


def _fd_pair(M, N, names, kind, ckind):
    """Spectral and finite-difference solvers in the (Cardinal, Cardinal) basis on the same inputs."""
    from WallGo.grid import Grid

    g = O.OGrid(M, N, L_XI, T0)
    grid = Grid(M, N, L_XI, T0)
    parts = _particles(names)
    ob, bg = _background(kind, g)
    Ccard = O.collision_cardinal(ckind, len(names), N)
    out = []
    for deriv in ("Spectral", "Finite Difference"):
        s = _solver(grid, "Cardinal", "Cardinal", deriv, parts, bg)
        s.setCollisionArray(_collision_array(Ccard, "Cardinal", grid, parts))
        out.append(s)
    return g, grid, parts, ob, bg, Ccard, out[0], out[1]


def case_fdladder(p: dict) -> dict:
    from WallGo.equationOfMotion import EOM

    r = Rel(p["id"])
    kind, pset, ckind = p["bg"], p["parts"], p["coll"]
    names = O.PARTICLE_SETS[pset]
    P = len(names)
    prev = {}
    for M in p["ladderM"]:
        N = 5
        tagM = f"M={M}"
        g, grid, parts, ob, bg, Ccard, s_spec, s_fd = _fd_pair(M, N, names, kind, ckind)
        shape = (P, M - 1, N - 1, N - 1)
        try:
            A_spec, S_spec, L_spec, _ = s_spec.buildLinearEquations()
            A_fd, S_fd, L_fd, _ = s_fd.buildLinearEquations()
        except Exception as e:
            r.true(f"no-exception-build-{tagM}", False, error=repr(e))
            continue
        # -- source terms against the own oracle (closed-form coefficients x own derivative matrices)
        # (source and Liouville term do not depend on the collision data: their relations are evaluated for 'relax' only,
        #  the 'dense' cases carry the relations that involve a solve)
        do_src = ckind == "relax"
        So_spec, tol_spec, (Av, AT, Am) = _source_oracle(g, ob, names, "spec")
        So_fd, tol_fd, _ = _source_oracle(g, ob, names, "fd")
        if do_src:
            _ratio(r, f"src-spec-vs-oracle-{tagM}", np.abs(S_spec.reshape(shape) - So_spec), tol_spec + 1e-300)
            _ratio(r, f"src-fd-vs-oracle-{tagM}", np.abs(S_fd.reshape(shape) - So_fd), tol_fd + 1e-300,
                   rel_l2=float(np.linalg.norm(S_fd.reshape(shape) - So_fd) / (np.linalg.norm(So_fd) + 1e-300)))
        # -- Taylor bound of the 3-point formula per profile kind (+ measured spectral truncation of the rational v)
        hz6 = _hh6(g.chiFull)
        v3, T3 = _max_abs(ob.vPlasma, 3), _max_abs(ob.T, 3)
        m3 = np.array([_max_abs(lambda x, k, nm=nm: ob.msq(nm, x, k), 3) for nm in names])
        dv_spec = _profile_derivs(g, ob, names, "spec")[0]
        vtrunc = np.abs(dv_spec - ob.vPlasma(g.chi, 1))
        taylor = (np.abs(Av) * (hz6 * v3 + vtrunc)[None, :, None, None] + np.abs(AT) * (hz6 * T3)[None, :, None, None]
                  + np.abs(Am) * (hz6[None, :] * m3[:, None])[:, :, None, None])
        dS = S_fd.reshape(shape) - S_spec.reshape(shape)
        if not do_src:
            pass
        elif kind != "homog":
            _ratio(r, f"src-fd-vs-spec-taylor-{tagM}", np.abs(dS), 1.01 * taylor + tol_spec + tol_fd + 1e-300, sharp=True,
                   rel_l2=float(np.linalg.norm(dS) / np.linalg.norm(S_spec)))
            e_src = float(np.linalg.norm(dS) / np.linalg.norm(S_spec))
            if "src" in prev:  # second order: a factor 4 per doubling of M; converging = at least halved
                r.true(f"src-fd-vs-spec-decreasing-{tagM}", e_src < 0.5 * prev["src"], err=e_src, previous=prev["src"])
            prev["src"] = e_src
            r.detail[f"src-relerr-{tagM}"] = e_src
        else:
            _ratio(r, f"src-homog-fd-{tagM}", np.abs(S_fd.reshape(shape)), tol_fd + 1e-300)
            _ratio(r, f"src-homog-spec-{tagM}", np.abs(S_spec.reshape(shape)), tol_spec + 1e-300)
        # -- Liouville operator on the fixed test function (quadratic in rz: both rz derivatives exact)
        if do_src:
            e_l = _liouville_test(r, tagM, L_spec, L_fd, g, ob, names, quadratic_rz=True)
            if "liou" in prev:
                r.true(f"liou-fd-vs-spec-decreasing-{tagM}", e_l < 0.5 * prev["liou"], err=e_l, previous=prev["liou"])
            prev["liou"] = e_l
            r.detail[f"liou-relerr-{tagM}"] = e_l
        # -- EOM.getBoltzmannFiniteDifference: deep copy switched to finite differences
        if M <= p["solveMmax"]:
            try:
                x_spec = s_spec.solveBoltzmannEquations()
                res_spec = s_spec.getDeltas(x_spec)
                res_fd = s_fd.getDeltas()
                eom = wg.construct_eom(boltzmannSolver=s_spec)  # real constructor, stand-in thermodynamics / hydrodynamics
                before = (s_spec.derivatives, s_spec.basisM, s_spec.basisN, s_spec.collisionArray.getBasisType(),
                          np.array(s_spec.collisionArray[:]).tobytes(), _bg_fingerprint(s_spec.background))
                res_eom = eom.getBoltzmannFiniteDifference()
                after = (s_spec.derivatives, s_spec.basisM, s_spec.basisN, s_spec.collisionArray.getBasisType(),
                         np.array(s_spec.collisionArray[:]).tobytes(), _bg_fingerprint(s_spec.background))
            except Exception as e:
                r.true(f"no-exception-solve-{tagM}", False, error=repr(e))
                continue
            r.true(f"eom-fd-leaves-solver-untouched-{tagM}", before == after)
            r.true(f"eom-fd-equals-fresh-fd-solver-{tagM}", np.array_equal(res_eom.deltaF, res_fd.deltaF)
                   and all(np.array_equal(getattr(res_eom.Deltas, k).coefficients, getattr(res_fd.Deltas, k).coefficients)
                           for k in ("Delta00", "Delta02", "Delta20", "Delta11")))
            if M == p["ladderM"][0]:
                # the same with a solver configured away from its defaults (collisionMultiplier = 4, the documented
                # [BoltzmannSolver] option): the finite-difference cross-check is that of THIS solver's equation
                try:
                    from WallGo import BoltzmannSolver

                    pair = []
                    for deriv in ("Spectral", "Finite Difference"):
                        sx = BoltzmannSolver(grid, "Cardinal", "Cardinal", deriv, collisionMultiplier=4.0)
                        sx.updateParticleList(parts)
                        sx.setBackground(bg)
                        sx.setCollisionArray(_collision_array(Ccard, "Cardinal", grid, parts))
                        pair.append(sx)
                    want4 = pair[1].getDeltas()
                    got4 = wg.construct_eom(boltzmannSolver=pair[0]).getBoltzmannFiniteDifference()
                    r.true(f"eom-fd-equals-fresh-fd-solver(collisionMultiplier=4)-{tagM}", np.array_equal(got4.deltaF, want4.deltaF),
                           maxdiff=float(np.max(np.abs(np.asarray(got4.deltaF) - np.asarray(want4.deltaF)))))
                    r.true(f"collisionMultiplier-matters-{tagM}", not np.array_equal(want4.deltaF, res_fd.deltaF) or kind == "homog")
                    r.tag("eom-fd-nondefault-multiplier")
                except Exception as e:  # noqa: BLE001
                    r.true(f"no-exception-eom-multiplier-{tagM}", False, error=repr(e))
                # same entry point when the spectral solver uses the Chebyshev momentum basis: the copy's collision
                # data are converted to the cardinal basis (rounding x conditioning of the basis matrices)
                s_ch = _solver(grid, "Cardinal", "Chebyshev", "Spectral", parts, bg)
                s_ch.setCollisionArray(_collision_array(O.collision_in_basis(Ccard, "Chebyshev", g), "Chebyshev", grid, parts))
                b4 = (s_ch.derivatives, s_ch.basisN, s_ch.collisionArray.getBasisType(), np.array(s_ch.collisionArray[:]).tobytes())
                eom2 = wg.construct_eom(boltzmannSolver=s_ch)
                try:
                    res2 = eom2.getBoltzmannFiniteDifference()
                    r.true(f"eom-fd-from-chebyshev-leaves-solver-untouched-{tagM}", b4 == (
                        s_ch.derivatives, s_ch.basisN, s_ch.collisionArray.getBasisType(), np.array(s_ch.collisionArray[:]).tobytes()))
                    x2 = res2.deltaF.reshape(-1)
                    kK = np.linalg.cond(O.basis_matrix("Chebyshev", "pz", g), 1) * np.linalg.cond(O.basis_matrix("Chebyshev", "pp", g), 1)
                    _ratio(r, f"eom-fd-from-chebyshev-solves-fd-system-{tagM}", np.linalg.norm(A_fd @ x2 - S_fd),
                           64 * EPS * (2 + kK) * np.linalg.norm(np.abs(A_fd) @ np.abs(x2)) + 1e-300)
                    r.tag("eom-fd-from-chebyshev")
                except Exception as e:
                    r.true(f"no-exception-eom-chebyshev-{tagM}", False, error=repr(e))
            xf = res_fd.deltaF.reshape(-1)
            rf = A_fd @ xf - S_fd
            _ratio(r, f"residual-fd-{tagM}", np.linalg.norm(rf), 2 * 64 * EPS * np.linalg.norm(np.abs(A_fd) @ np.abs(xf)) + 1e-300)
            if kind in ("T", "v"):
                # no field gradient: the p_z derivative term is absent and the FD solution must converge in M.
                # x_fd - x_spec = A_fd^-1 [ (S_fd - S_spec) - (L_fd - L_spec) x_spec ]; the last bracket is the FD error of
                # the chi-derivative of the degree-M polynomial x_spec: <= c1 h-h+/6 max|p'''| (own third derivative).
                D = O.lagrange_diff_matrix(g.chiFull)
                pad = np.zeros((P, M + 1, N - 1, N - 1))
                pad[:, 1:-1] = x_spec
                d3 = np.einsum("ab,pbcd->pacd", D @ D @ D, pad)
                # p''' is a polynomial of degree M-3 known at M+1 nodes: evaluate on a fine mesh (barycentric) for the max
                xs = -np.cos(np.pi * (np.arange(8 * M) + 0.5) / (8 * M))
                dxm = xs[:, None] - g.chiFull[None, :]
                w = 1.0 / np.array([np.prod(np.delete(g.chiFull[i] - g.chiFull, i)) for i in range(M + 1)])
                bar = (w[None, :] / dxm) / np.sum(w[None, :] / dxm, axis=1, keepdims=True)
                fine = np.abs(np.einsum("sa,pacd->pscd", bar, d3))
                p3max = np.zeros((P, M - 1, N - 1, N - 1))  # max over the stencil interval [chi_(a-1), chi_(a+1)] (xi lies there)
                for a in range(1, M):
                    sel = (xs >= g.chiFull[a - 1]) & (xs <= g.chiFull[a + 1])
                    loc = np.max(np.abs(d3[:, a - 1:a + 2]), axis=1)
                    if np.any(sel):
                        loc = np.maximum(loc, np.max(fine[:, sel], axis=1))
                    p3max[:, a - 1] = 1.05 * loc
                vw = ob.vWallPlasma()
                gw = 1.0 / np.sqrt(1.0 - vw * vw)
                msq = np.array([ob.msq(nm, g.chi) for nm in names])[:, :, None, None]
                pz = g.pz[None, None, :, None]
                c1 = g.dchidxi[None, :, None, None] * gw * (pz - vw * np.sqrt(msq + pz**2 + g.pp[None, None, None, :] ** 2))
                bL = np.abs(c1) * hz6[None, :, None, None] * p3max
                # componentwise: |x_fd - x_spec| <= |A_fd^-1| (|dS| bound + |dL x_spec| bound), compared in the 2-norm
                bvec = np.abs(np.linalg.inv(A_fd)) @ (1.01 * taylor + tol_spec + tol_fd + bL).reshape(-1)
                dx = np.linalg.norm(res_fd.deltaF - x_spec)
                _ratio(r, f"sol-fd-vs-spec-bound-{tagM}", dx, np.linalg.norm(bvec), sharp=True, rel=float(dx / np.linalg.norm(x_spec)))
                e_x = float(dx / np.linalg.norm(x_spec))
                d00 = res_spec.Deltas.Delta00.coefficients
                e_d = float(np.linalg.norm(d00 - res_fd.Deltas.Delta00.coefficients) / np.linalg.norm(d00))  # EOM's errorFD
                for key, e in (("deltaF", e_x), ("Delta00", e_d)):
                    if key in prev:
                        r.true(f"sol-fd-vs-spec-decreasing-{key}-{tagM}", e < 0.5 * prev[key], err=e, previous=prev[key])
                    prev[key] = e
                    r.detail[f"sol-relerr-{key}-{tagM}"] = e
                r.tag("fd-solution-convergence-checked")
            else:
                r.tag("fd-solution-convergence-not-claimed(field-gradient-or-homog)")
        del A_spec, A_fd, L_spec, L_fd
    # -- refinement in N of the p_z finite difference (M = 6), general test function
    for N in p["ladderN"] if ckind == "relax" else []:
        g, grid, parts, ob, bg, Ccard, s_spec, s_fd = _fd_pair(6, N, names, kind, ckind)
        try:
            _, _, L_spec, _ = s_spec.buildLinearEquations()
            _, _, L_fd, _ = s_fd.buildLinearEquations()
        except Exception as e:
            r.true(f"no-exception-build-N={N}", False, error=repr(e))
            continue
        e_l = _liouville_test(r, f"N={N}", L_spec, L_fd, g, ob, names, quadratic_rz=False)
        r.detail[f"liou-relerr-N={N}"] = e_l
    r.tag(f"bg-{kind}", f"parts-{pset}", f"coll-{ckind}", "ladderM-" + "-".join(map(str, p["ladderM"])))
    return r.result(nontrivial=True)


def fdladder_cases(tier: str) -> list[dict]:
    out = []
    for kind in ["homog", "T", "v", "field", "all"]:
        for pset in ["f", "b", "fb"]:
            for ck in ["relax", "dense"]:
                if tier == "quick" and ck == "dense" and not (pset == "fb" and kind in ("T", "v", "all")):
                    continue
                c = {"bg": kind, "parts": pset, "coll": ck, "ladderM": LADDER_M, "ladderN": LADDER_N,
                     "solveMmax": 80 if pset != "fb" else 40}
                c["id"] = f"bg={kind},parts={pset},coll={ck}"
                out.append(c)
    return out


# ----------------------------------------------------------------------------- section: history (H)
OPS = ["setA", "setB", "solve", "getDeltas", "scribbleA"]
HM, HN = 6, 5


class _Sys:
    """A solver plus the objects its caller owns."""

    def __init__(self, cfg, pset, ckind):
        from WallGo.grid import Grid

        bm, bn, deriv = cfg
        self.cfg, self.pset, self.ckind = cfg, pset, ckind
        self.names = O.PARTICLE_SETS[pset]
        self.g = O.OGrid(HM, HN, L_XI, T0)
        self.grid = Grid(HM, HN, L_XI, T0)
        self.parts = _particles(self.names)
        self.scribbles = 0
        _, self.bgA = _background("all", self.g)
        _, self.bgB = _background("other", self.g)
        self.vmid0 = {"A": float(self.bgA.velocityMid), "B": float(self.bgB.velocityMid)}  # never edited by the caller
        Cb = O.collision_in_basis(O.collision_cardinal(ckind, len(self.names), HN), bn, self.g)
        self.coll = _collision_array(Cb, bn, self.grid, self.parts)
        self.coll0 = np.array(self.coll[:]).tobytes()
        self.solver = _solver(self.grid, bm, bn, deriv, self.parts, None)
        self.solver.setCollisionArray(self.coll)
        self.current = None  # ("A", number of scribbles when it was set) | ("B", 0)

    def apply(self, op):
        if op == "setA":
            self.solver.setBackground(self.bgA)
            self.current = ("A", self.scribbles)
            return None
        if op == "setB":
            self.solver.setBackground(self.bgB)
            self.current = ("B", 0)
            return None
        if op == "scribbleA":  # the caller edits ITS object in place after having handed it over
            self.bgA.temperatureProfile *= 1.03125
            self.bgA.velocityProfile *= 0.96875
            np.asarray(self.bgA.fieldProfiles)[...] *= 1.0625
            self.scribbles += 1
            return None
        if op == "solve":
            return {"deltaF": self.solver.solveBoltzmannEquations()}
        if op == "getDeltas":
            return _results_dict(self.solver.getDeltas())
        raise ValueError(op)

    def state(self) -> str:
        s = self.solver
        b = s.background
        return digest({
            "cur": list(self.current) if self.current else None,
            "A": _fp_small(self.bgA), "B": _fp_small(self.bgB), "coll": hashlib.sha1(np.array(self.coll[:]).tobytes()).hexdigest(),
            "solver": {
                "bM": s.basisM, "bN": s.basisN, "d": s.derivatives, "mult": s.collisionMultiplier,
                "bg": None if b is None else _fp_small(b),
                "coll": hashlib.sha1(np.array(s.collisionArray[:]).tobytes()).hexdigest(), "collbasis": s.collisionArray.getBasisType(),
                "parts": [q.name for q in s.offEqParticles],
                "grid": [s.grid.M, s.grid.N, s.grid.positionFalloff, s.grid.momentumFalloffT],
                "attrs": sorted(k for k in vars(s)),
            },
        })


def _fp_small(bg):
    return hashlib.sha1(repr(_bg_fingerprint(bg)).encode()).hexdigest()


def _results_dict(res):
    out = {"deltaF": np.array(res.deltaF), "truncationError": np.array(res.truncationError),
           "crit1": np.array(res.linearizationCriterion1), "crit2": np.array(res.linearizationCriterion2)}
    for k in ("Delta00", "Delta02", "Delta20", "Delta11"):
        out[k] = np.array(getattr(res.Deltas, k).coefficients)
    return out


def _same(a: dict, b: dict):
    bad = [k for k in b if k not in a or np.asarray(a[k]).shape != np.asarray(b[k]).shape or not np.array_equal(a[k], b[k], equal_nan=True)]
    return bad


def _reference(cfg, pset, ckind, current, what, cache):
    """Result of a FRESH solver whose only history is setBackground(<the background that was current>)."""
    key = (current, what)
    if key not in cache:
        sys_ = _Sys(cfg, pset, ckind)
        label, k = current
        for _ in range(k):
            sys_.apply("scribbleA")
        sys_.apply("set" + label)
        cache[key] = sys_.apply(what)
    return cache[key]


def case_history(p: dict) -> dict:
    cfg, pset, ckind, depth = tuple(p["cfg"]), p["parts"], p["coll"], p["depth"]
    r = Rel(p["id"])
    cache: dict = {}
    states: set[str] = set()
    outcomes: dict[str, set] = {op: set() for op in OPS}
    ntrans = 0
    nhist = 0
    g = O.OGrid(HM, HN, L_XI, T0)
    only = p.get("only_history")
    for d in range(1, depth + 1):
        for hist in itertools.product(OPS, repeat=d):
            if only is not None and list(hist) != list(only):
                continue
            # admissible histories: solve/getDeltas need a background (precondition of the API, not of the property)
            have = False
            ok = True
            for op in hist:
                if op in ("setA", "setB"):
                    have = True
                elif op in ("solve", "getDeltas") and not have:
                    ok = False
            if not ok:
                continue
            nhist += 1
            hname = ">".join(hist)
            sys_ = _Sys(cfg, pset, ckind)
            out = None
            try:
                for op in hist:  # prefixes are enumerated as histories of their own: relations on the last op only
                    out = sys_.apply(op)
                    ntrans += 1
            except Exception as e:
                r.true(f"no-exception@{hname}", False, error=repr(e))
                continue
            op = hist[-1]
            states.add(sys_.state())
            # 1. objects owned by the caller are never modified by the solver
            _, vA, fA, TA = _bg_arrays("all", g, sys_.scribbles)
            _, vB, fB, TB = _bg_arrays("other", g, 0)
            for lab, bg, (v, f, T) in (("A", sys_.bgA, (vA, fA, TA)), ("B", sys_.bgB, (vB, fB, TB))):
                same = (bg.velocityWall == 0 and float(bg.velocityMid) == sys_.vmid0[lab]
                        and np.array_equal(bg.velocityProfile, v) and np.array_equal(np.asarray(bg.fieldProfiles), f)
                        and np.array_equal(bg.temperatureProfile, T) and bg.polynomialBasis == "Cardinal")
                r.true(f"caller-bg{lab}-unmodified@{hname}", same, velocityWall=bg.velocityWall)
            r.true(f"caller-collision-unmodified@{hname}", np.array(sys_.coll[:]).tobytes() == sys_.coll0 and sys_.coll.getBasisType() == cfg[1])
            # 2. the solver's background is the boosted copy of what was handed over at set time
            if sys_.current is not None:
                lab, k = sys_.current
                _, v, f, T = _bg_arrays("all" if lab == "A" else "other", g, k)
                vmid = sys_.vmid0[lab]
                b = sys_.solver.background
                r.close(f"solver-bg-velocityWall@{hname}", b.velocityWall, O.boost(0.0, vmid), 8 * EPS)
                r.close(f"solver-bg-velocityProfile@{hname}", b.velocityProfile, O.boost(v, vmid), 8 * EPS)
                r.true(f"solver-bg-T-and-fields@{hname}", np.array_equal(b.temperatureProfile, T) and np.array_equal(np.asarray(b.fieldProfiles), f))
            # 3. results do not depend on the history: equal (bitwise) to a fresh solver on the same background
            if op in ("solve", "getDeltas"):
                ref = _reference(cfg, pset, ckind, sys_.current, op, cache)
                bad = _same(out, ref)
                r.true(f"{op}-equals-fresh-solver@{hname}", not bad, differing=bad, current=list(sys_.current))
                outcomes[op].add(hashlib.sha1(out["deltaF"].tobytes()).hexdigest())
            else:
                outcomes[op].add(sys_.state())
    r.detail.update({"histories": nhist, "transitions": ntrans, "states": len(states),
                     "outcomes": {k: len(v) for k, v in outcomes.items()}, "state_digests": sorted(states)})
    r.tag(f"hist-cfg-{_cfgname(*cfg)}", f"hist-parts-{pset}", f"hist-coll-{ckind}", f"hist-depth-{depth}")
    return r.result(nontrivial=True)


def history_cases(tier: str) -> list[dict]:
    depth = 3 if tier == "quick" else 5
    out = []
    cfgs = [(a, b, "Spectral") for a, b in CFGS] + [("Cardinal", "Cardinal", "Finite Difference")]
    for cfg in cfgs:
        for pset in ["f", "fb"] if tier == "quick" else ["f", "b", "fb"]:
            for ck in ["relax", "dense"]:
                out.append({"cfg": list(cfg), "parts": pset, "coll": ck, "depth": depth,
                            "id": f"cfg={_cfgname(*cfg)},parts={pset},coll={ck}"})
    return out


# ----------------------------------------------------------------------------- driver
SECTIONS = {
    "solve": (solve_cases, case_solve),
    "fdladder": (fdladder_cases, case_fdladder),
    "history": (history_cases, case_history),
}


def run(ctx) -> None:
    try:
        for name, (gen, fn) in SECTIONS.items():
            if ctx.only and ctx.only != name:
                continue
            cases = gen(ctx.tier)
            if name == "solve":  # big cases first so that the pool is balanced
                cases = sorted(cases, key=lambda c: -(c["M"] * c["N"] ** 2 * len(O.PARTICLE_SETS[c["parts"]])))
            results = ctx.run_lattice(name, cases, fn, timeout=1500)
            if name == "history":
                st, tr, hi = set(), 0, 0
                outc: dict[str, int] = {}
                for res in results:
                    d = res.get("detail") or {}
                    st.update(f"{res['id']}:{s}" for s in d.get("state_digests", []))
                    tr += d.get("transitions", 0)
                    hi += d.get("histories", 0)
                    for k, v in (d.get("outcomes") or {}).items():
                        outc[k] = max(outc.get(k, 0), v)
                ctx.add_bfs(len(st), tr, hi)
                ctx.note("history_depth", cases[0]["depth"] if cases else None)
                ctx.note("history_ops", OPS)
                ctx.note("history_distinct_outcomes_per_op(max over shards)", outc)
        ctx.note("ladder_M", LADDER_M)
        ctx.note("ladder_N", LADDER_N)
        ctx.note("grid_sizes", [(6, 5), (12, 7), (20, 11)])
        ctx.exhaustive = True
        ctx.note("exhaustive_scope", "the stated finite cross products and all call histories up to the stated depth; "
                 "4 basis combinations complete; not the reals, not all collision operators")
    finally:
        shutil.rmtree(os.path.join(WORK, f"run-{os.getpid()}"), ignore_errors=True)


def replay(rep: dict) -> dict:
    section = rep["section"]
    params = dict(rep["params"])
    if section == "history" and "@" in rep.get("relation", ""):
        params["only_history"] = rep["relation"].split("@", 1)[1].split(">")
    return SECTIONS[section][1](params)
