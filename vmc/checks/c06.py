"""C06 - matching solutions are physically admissible and correctly classified.

(L) Section 'eos': lattice EOS x Tn x units x solver tolerance x 16 wall velocities (the lattice of C02) plus
the classification boundary: vJ against the harness' own Chapman-Jouguet velocity, matchDeton(vJ+delta) for
delta = 1e-3..1e-6 (square-root approach to the sonic point), deflagration/hybrid matchings at vJ-1e-4, vJ-1e-6.
Section 'ranges': the same EOS with tabulated phase ranges (TMaxLowT, TMaxHighT) that end inside the
deflagration window / inside the hybrid window / below the whole window / nowhere, and both values of the
maxPossibleTemperature flags: fastestDeflag(), slowestDeton(), doesPhaseTraceLimitvmax.

Oracle: analytic EOS (vmc.oracles.eos), junction conditions and Chapman-Jouguet point written out in
vmc.oracles.c0506_oracle, xi-integration of vmc.oracles.hydro for validating matchings.
"""
from __future__ import annotations

import logging

import numpy as np

from ..lattice import Rel
from ..oracles import c0506_oracle as O
from ..oracles import hydro as OH
from . import hydrolattice as HL
from .c02 import _resid_vec, flux_tolerance
from .c05 import validate

LEVEL = "exploration"
RULE = (
    "section eos: full cross product EOS x Tn x units x solver tolerance {tight, default}; per case the 16 lattice wall "
    "velocities of C02 (both sides of c_b and v_J) + v_J-1e-6 + matchDeton(v_J+1e-3..1e-6); relations named "
    "<velocity label>:<clause>. Section ranges: EOS (units=1) x tolerance x 9 (quick) / 14 (thorough) combinations of "
    "(TMaxLowT, TMaxHighT) kinds {inf, crossed in the deflagration window, crossed in the hybrid window, below the window} "
    "x stability flags, the crossing temperatures being taken from a scan of validated matchings on 13 (quick) / 25 (thorough) "
    "velocities of the window; plus 4 TMaxLowT kinds for slowestDeton. Non-trivial = at least one matching / one crossing "
    "combination was judged; tags count branches and range kinds reached."
)
ASSUMPTIONS = [
    "admissible EOS as in C02: broken phase favoured at Tn, 0<cs^2<1 and w>0 in both phases between 0.3 and 3 Tn, alpha_n>0",
    "a returned matching that violates the junction conditions (known finding D9, listed under C02; includes non-finite "
    "numbers from the template fallback) is tagged skipped-nonconserved(D9) and not judged again; every other returned matching is judged",
    "findMatching raising/returning None at a lattice velocity is not a C06 violation (no matching returned), except at "
    "vJ-1e-4 and vJ-1e-6 where the property demands that deflagration/hybrid matchings exist",
    "v- == min(vw, c_b(T-)) within 32 eps (c_b from the analytic EOS); T+ > Tn - (shock tolerance of C03 with conditioning 50); "
    "detonation T- == the harness' weak-branch root within 4(atol+rtol*T-) (brentq) + 1e-12 T-; "
    "v-^2-c_b^2 tolerance = |d(v-^2-c_b^2)/dT-|*4(atol+rtol*T-) + rounding bound of the junction formula; detonation ordering "
    "v- < v+ + |dv-/dT-|*4(atol+rtol*T-) (for alpha_n = 1e-3 at vw = 0.99 the exact v+ - v- is below the default solver's resolution)",
    "v+ < v- is waived (tagged ordering-exotic-confirmed) only when the harness' own exact matching at that velocity (own refinement "
    "of the returned numbers by junction Newton + xi-integration, else own global search solve_matching) also has v+ >= v-",
    "vJ tolerance = curvature*(4(atol+rtol*T_J))^2/2 (vJ is a minimum over T-) + 64 eps rounding of the four flux factors",
    "sqrt scaling: g = A sqrt(delta)(1 + B sqrt(delta) + ...): |ratio/sqrt(10)-1| <= max(0.1, 2*|oracle ratio/sqrt(10)-1|) + noise "
    "(the B-correction measured with the harness' exact g is <= 5 % at delta=1e-3), and ratio == oracle ratio within the relative solver "
    "noise of the two g values",
    "ordering v+ < v- and T+ > Tn are judged for deflagrations only (the property claims only v- = c_b(T-) for hybrids)",
    "ranges: advertised velocity judged by (i) lying in the scan interval of the first crossing, (ii) T(advertised) == tabulated maximum "
    "within |dT/dvw|*4(atol+rtol*v) + |dT/dTn|*Tn*60*rtol + |dT/dv+|*16(atol+rtol*v+) + 2e3*atol*T + 1e-10*Tn at a validated matching, (iii) all slower scan "
    "velocities inside the ranges; a range exceeded on the whole window (kind 'below') does not meet the property's premise "
    "('reached at some velocity inside the window') and is only tagged",
    "doesPhaseTraceLimitvmax judged only where documented unambiguously: False/False when nothing limits the window, "
    "[phase] == not maxPossibleTemperature[1] for the phase whose range limits the window; the non-limiting phase is not judged when both cross",
    "slowestDeton: vJ when T_J <= TMaxLowT, 1 when T-(vw=1) > TMaxLowT, else min(1, v*+0.01) with v* from the closed-form detonation relation, "
    "tolerance 4(atol+rtol) + 4(atol+rtol*T)*|dv/dT-| + 1e-12 (nested brentq)",
]

EPS = float(np.finfo(float).eps)
SQ10 = float(np.sqrt(10.0))


def _floats(got):
    if got is None or got[0] is None:
        return None
    try:
        return tuple(float(x) for x in got)
    except Exception:
        return None


def _is_d9(eos, hyd, tol, v, vp, vm, Tp, Tm):
    """True if the returned numbers violate the junction conditions (known finding D9)."""
    if not all(np.isfinite([vp, vm, Tp, Tm])):
        return True
    if not (Tp > 0 and Tm > 0 and 0 < vp < 1 and 0 < vm < 1):
        return False  # judged by the range clause, not by the flux balance
    branch = HL.branch_of(hyd, eos, v, Tm)
    return bool(max(_resid_vec(eos, vp, vm, Tp, Tm)) > flux_tolerance(eos, branch, tol, v, vp, vm, Tp, Tm))


def g_tolerance(eos, Tn, tol, Tm):
    """Tolerance for g = v-^2 - c_b^2(T-) of a detonation whose T- comes from brentq(xtol=atol, rtol)."""
    h = 1e-6 * Tm
    dg = (O.det_g_of_Tm(eos, Tn, Tm + h) - O.det_g_of_Tm(eos, Tn, Tm - h)) / (2 * h)
    return abs(dg) * 4 * (tol["atol"] + tol["rtol"] * Tm) + O.det_vp2_rounding(eos, Tn, Tm) * (O.det_vm2(eos, Tn, Tm) + 1.0) + 1e-14


# --------------------------------------------------------------------------------------
# section eos
# --------------------------------------------------------------------------------------
def judge_matching(r: Rel, eos, Tn, tol, hyd, cj, name, v, got):
    """All clauses of the property for one returned matching. Returns the branch name or None (D9)."""
    vp, vm, Tp, Tm = got
    if _is_d9(eos, hyd, tol, v, vp, vm, Tp, Tm):
        if name in ("vmin", "slow1", "slow2", "v0.05", "v0.1"):
            # slow walls: the region in which known finding D9 (C02) is identified generically - not judged again here
            r.tag("skipped-nonconserved(D9)")
            return None
        # elsewhere a matching that violates the junction conditions is still a matching this property speaks about (e.g. the
        # template approximation returned silently for a hybrid next to vJ has v- = c_b(Tn), not c_b(T-))
        r.tag("nonconserved-matching-judged")
    extra = dict(vw=v, vp=vp, vm=vm, Tp=Tp / Tn, Tm=Tm / Tn)
    inrange = 0 < vp < 1 and 0 < vm < 1 and Tp > 0 and Tm > 0
    r.true(f"{name}:0<v<1,T>0", inrange, **extra)
    if not inrange:
        return "out-of-range"
    cb2 = eos.csq("b", Tm)
    if v <= float(hyd.vJ):
        branch = "hybrid" if v * v > cb2 else "deflagration"
        # deflagration: v- = vw (and vw^2 <= c_b^2(T-)); hybrid: v-^2 = c_b^2(T-). One formula, both clauses;
        # the code computes sqrt(min(vw^2, csq)): <= 2 ulp from the exact value, csq itself <= 8 ulp (3 products/quotients)
        r.close(f"{name}:v-==min(vw,cb(T-))", vm, min(v, np.sqrt(cb2)), 32 * EPS, branch=branch, cb=float(np.sqrt(cb2)), **extra)
        if branch == "hybrid":
            # the property claims only v- = c_b(T-) for hybrids (for c_b < c_s and small alpha the hybrid joins the
            # Chapman-Jouguet detonation continuously, with v+ > v- near vJ); ordering and T+ are recorded, not judged
            if not vp < vm:
                r.tag("hybrid-with-v+>=v-")
            return branch
        if not vp < vm:
            # waived only if the harness' own exact matching at this velocity has v+ >= v- as well:
            # own refinement of the returned numbers (junction Newton + xi-integration), else own global search
            ex = O.polish(eos, Tn, v, vp, Tp, Tm)
            if ex is None:
                ex = OH.solve_matching(eos, Tn, v, float(hyd.vJ))
            if ex is not None and ex["vp"] >= ex["vm"]:
                r.tag("ordering-exotic-confirmed")
            else:
                r.true(f"{name}:v+<v-", False, branch=branch, oracle=ex, **extra)
        else:
            r.true(f"{name}:v+<v-", True)
        # T+ > Tn: compression ahead of the wall. Resolution = accuracy of the shock condition (C03 formula, conditioning 50)
        t = (8 * (tol["rtol"] + tol["atol"] / vp) * 50.0 + 30 * tol["rtol"]) * Tn + 1e-10 * Tn
        r.true(f"{name}:T+>Tn", Tp > Tn - t, branch=branch, resolution=t / Tn, **extra)
        return branch
    # detonation
    r.true(f"{name}:v+==vw", vp == v, **extra)
    r.true(f"{name}:T+==Tn", Tp == Tn, **extra)
    # v- follows from T- (brentq, xtol=atol, rtol): resolution of the ordering = |dv-/dT-| * 4(atol + rtol T-)
    h = 1e-6 * Tm
    dvm = (np.sqrt(abs(O.det_vm2(eos, Tn, Tm + h))) - np.sqrt(abs(O.det_vm2(eos, Tn, Tm - h)))) / (2 * h)
    tvm = abs(dvm) * 4 * (tol["atol"] + tol["rtol"] * Tm) + 8 * EPS
    r.true(f"{name}:v-<v+", vm < vp + tvm, resolution=tvm, **extra)
    tg = g_tolerance(eos, Tn, tol, Tm)
    g = vm * vm - cb2
    r.true(f"{name}:v-^2>=cb^2(T-)", g >= -tg, g=g, tol=tg, **extra)
    if cj is not None:
        od = O.detonation(eos, Tn, v, cj)
        if od is not None:
            # same scalar equation v+(T-) = vw, the code's root must be the one between T_e and T_J (weak branch)
            r.close(f"{name}:T-==weak-branch-root", Tm, od["Tm"], 4 * (tol["atol"] + tol["rtol"] * od["Tm"]) + 1e-12 * od["Tm"], TJ=cj["TJ"] / Tn, **extra)
    return "detonation"


def case_eos(c: dict) -> dict:
    logging.disable(logging.CRITICAL)
    r = Rel(c["id"])
    eos, Tn = HL.build_eos(c)
    adm = HL.admissible(eos, Tn)
    if adm:
        return r.result(inadmissible=adm)
    tol = HL.TIGHT if c["tol"] == "tight" else HL.DEFAULT
    try:
        hyd, th = HL.make_hydro(eos, Tn, tol)
    except Exception as ex:
        r.true("Hydrodynamics:constructed(vJ,vMin)", False, error=repr(ex)[:300])
        return r.result()
    vJ = float(hyd.vJ)
    cj = O.chapman_jouguet(eos, Tn, HL.TMAX)
    # ---- Jouguet velocity
    if cj is None:
        r.tag("oracle-no-chapman-jouguet-point")
    else:
        if cj["n_minima"] != 1:
            r.tag("several-local-minima-of-v+(T-)")
        dT = 4 * (tol["atol"] + tol["rtol"] * cj["TJ"])
        tv = 0.5 * abs(cj["curv"]) * dT**2 + O.det_vp2_rounding(eos, Tn, cj["TJ"]) * cj["vJ"] + 4 * EPS
        r.close("vJ:==chapman-jouguet-minimum", vJ, cj["vJ"], tv, TJ=cj["TJ"] / Tn, template_vJ=float(hyd.template.vJ))
    # ---- lattice velocities
    pts = [(n, v, n == "vJ-") for n, v in HL.velocity_lattice(hyd, eos, Tn)] + [("vJ-1e-6", vJ - 1e-6, True)]
    njudged = 0
    for name, v, must_exist in pts:
        try:
            got = _floats(hyd.findMatching(v))
            err = None
        except Exception as ex:
            got, err = None, repr(ex)[:200]
        if got is None:
            r.tag("raised" if err else "none")
            if must_exist:
                r.true(f"{name}:deflagration-or-hybrid-matching-exists", False, vw=v, error=err)
            continue
        br = judge_matching(r, eos, Tn, tol, hyd, cj, name, v, got)
        if br:
            njudged += 1
            r.tag(br)
            if must_exist:
                r.true(f"{name}:deflagration-or-hybrid-matching-exists", True)
    # ---- classification boundary from above
    gs = {}
    for k in (3, 4, 5, 6):
        name, vw = f"vJ+1e-{k}", vJ + 10.0 ** (-k)
        try:
            vp, vm, Tp, Tm = (float(x) for x in hyd.matchDeton(vw))
        except Exception as ex:
            r.true(f"{name}:matchDeton-returns", False, vw=vw, error=repr(ex)[:200])
            continue
        g = vm * vm - eos.csq("b", Tm)
        r.true(f"{name}:v-^2-cb^2>0", g > 0, g=g, vw=vw, Tm=Tm / Tn)
        od = O.detonation(eos, Tn, vw, cj) if cj is not None else None
        if od is None:
            continue
        tg = g_tolerance(eos, Tn, tol, od["Tm"])
        r.close(f"{name}:v-^2-cb^2==oracle", g, od["g"], tg, vw=vw, Tm=Tm / Tn, Tm_oracle=od["Tm"] / Tn)
        gs[k] = (g, od["g"], tg)
    for k in (3, 4, 5):
        if k in gs and k + 1 in gs and gs[k + 1][0] > 0 and gs[k + 1][1] > 0:
            ratio, ratio_or = gs[k][0] / gs[k + 1][0], gs[k][1] / gs[k + 1][1]
            noise = gs[k][2] / abs(gs[k][1]) + gs[k + 1][2] / abs(gs[k + 1][1])
            # g = A sqrt(delta) (1 + B sqrt(delta) + ...): ratio between decades = sqrt(10) (1 + 2.16 B sqrt(delta) + ...).
            # gross clause: within 10 % of sqrt(10) (the B-correction measured by the harness' exact g is <= 5 % at
            # delta = 1e-3 on this lattice), or twice the oracle's own deviation if that is larger;
            dev_or = abs(ratio_or / SQ10 - 1)
            r.true(f"vJ+1e-{k}/1e-{k + 1}:ratio~sqrt(10)", abs(ratio / SQ10 - 1) <= max(0.1, 2 * dev_or) + noise, ratio=ratio, oracle_ratio=ratio_or)
            # sharp clause: the ratio equals the exact one within the solver noise of the two g values
            r.close(f"vJ+1e-{k}/1e-{k + 1}:ratio==oracle-ratio", ratio, ratio_or, ratio_or * noise + 1e-9, ratio=ratio, oracle_ratio=ratio_or)
            r.tag("sqrt-scaling-judged")
    r.detail.update(vJ=vJ, vMin=float(hyd.vMin), judged=njudged)
    return r.result(nontrivial=njudged > 0)


def cases(tier: str) -> list[dict]:
    out = []
    for c in HL.eos_lattice(tier):
        for tol in ("tight", "default"):
            d = dict(c)
            d["tol"] = tol
            d["id"] = c["id"] + ",tol=" + tol
            out.append(d)
    return out


# --------------------------------------------------------------------------------------
# section ranges
# --------------------------------------------------------------------------------------
INF = "inf"
# (kind of TMaxLowT, kind of TMaxHighT, flagHigh, flagLow)
COMBOS_QUICK = [
    (INF, INF, False, False),
    ("deflag", INF, False, False),
    ("deflag", INF, True, True),
    ("hybrid", INF, False, False),
    ("below", INF, False, False),
    (INF, "deflag", False, False),
    (INF, "hybrid", True, True),
    ("deflag", "hybrid", False, True),
    ("hybrid", "deflag", True, False),
]
COMBOS_MORE = [
    ("hybrid", INF, True, True),
    (INF, "deflag", True, True),
    (INF, "hybrid", False, False),
    ("deflag", "hybrid", True, False),
    ("below", "deflag", False, False),
]


def scan_window(eos, Tn, tol, hyd, tier):
    """Validated matchings on an equidistant grid of the interval the code itself searches,
    [vMin+1e-3, vJ-1e-3]: list of dict(name, v, Tp, Tm, branch) or dict(name, v, status)."""
    lo, hi = float(hyd.vMin) + 1e-3, float(hyd.vJ) - 1e-3
    idx = range(25) if tier == "thorough" else range(0, 25, 2)
    rows = []
    for i in idx:
        v = lo + (hi - lo) * i / 24.0
        row = dict(name=f"s{i:02d}", v=v)
        try:
            got = hyd.findMatching(v)
        except Exception:
            row["status"] = "raised"
            rows.append(row)
            continue
        val = validate(eos, Tn, tol, hyd, v, got, need_S=True)
        row["status"] = val["status"]
        if val["status"] == "ok":
            row.update(Tp=val["Tp"], Tm=val["Tm"], vp=val["vp"], vm=val["vm"], branch=val["branch"])
        rows.append(row)
    return rows


def pick_crossing(rows, key, branch):
    """A temperature that T[key](v) crosses upwards between two adjacent valid scan points of the given branch
    (the pair nearest the middle of that branch's points), such that it is the FIRST crossing of the scan.
    Returns (TMax, i_lo, i_hi) with indices into rows, or None."""
    ok = [i for i, q in enumerate(rows) if q["status"] == "ok"]
    pairs = [(i, j) for i, j in zip(ok[:-1], ok[1:]) if j == i + 1 and rows[i]["branch"] == branch and rows[j]["branch"] == branch]
    if not pairs:
        return None
    mid = 0.5 * (pairs[0][0] + pairs[-1][0])
    pairs = sorted(pairs, key=lambda p: (abs(p[0] - mid), p[0]))
    for i, j in pairs:
        a, b = rows[i][key], rows[j][key]
        if not b > a * (1 + 1e-6):
            continue
        T = 0.5 * (a + b)
        if all(rows[k][key] < T for k in ok if k <= i):
            return T, i, j
    return None


def first_crossing(rows, TmaxL, TmaxH):
    """First scan interval in which T- exceeds TmaxL or T+ exceeds TmaxH: (i_lo, i_hi, which) over valid points;
    i_lo = None if already exceeded at the first valid point; None if never exceeded."""
    ok = [i for i, q in enumerate(rows) if q["status"] == "ok"]
    prev = None
    for i in ok:
        outL, outH = rows[i]["Tm"] > TmaxL, rows[i]["Tp"] > TmaxH
        if outL or outH:
            return prev, i, ("low" if outL else "") + ("high" if outH else "")
        prev = i
    return None


def case_ranges(c: dict) -> dict:
    logging.disable(logging.CRITICAL)
    r = Rel(c["id"])
    eos, Tn = HL.build_eos(c)
    adm = HL.admissible(eos, Tn)
    if adm:
        return r.result(inadmissible=adm)
    tol = HL.TIGHT if c["tol"] == "tight" else HL.DEFAULT
    tier = c["tier"]
    try:
        base, _ = HL.make_hydro(eos, Tn, tol)
    except Exception as ex:
        return r.result(inadmissible="Hydrodynamics could not be constructed (judged in section eos): " + repr(ex)[:120])
    vJ = float(base.vJ)
    if vJ - float(base.vMin) < 0.01:
        return r.result(inadmissible="deflagration/hybrid window narrower than 0.01")
    rows = scan_window(eos, Tn, tol, base, tier)
    ok = [i for i, q in enumerate(rows) if q["status"] == "ok"]
    # fastestDeflag scans 16 velocities of its own (vMin + vBracketLow ... vJ - vBracketLow): if the matching it gets at one of
    # them violates the junction conditions (known finding D9 of C02) its answer is computed from garbage. Which scan points
    # fail depends on rounding, so this is established per case here (same validation as everywhere else) and a violation
    # of a tainted case carries the marker 'D9-tainted-scan' in its relation name (known finding D9-C06).
    taint = []
    for vs in np.linspace(float(base.vMin) + float(base.vBracketLow), vJ - float(base.vBracketLow), 16):
        try:
            st = validate(eos, Tn, tol, base, float(vs), base.findMatching(float(vs)), need_S=False)["status"]
        except Exception:
            st = "raised"
        if st != "ok":
            taint.append([float(vs), st])
    r.detail["fastestDeflag_own_scan_invalid"] = taint
    marker = "D9-tainted-scan:" if taint else ""
    if taint:
        r.tag("fastestDeflag-own-scan-tainted(D9)")
    for q in rows:
        if q["status"] == "D9":
            r.tag("skipped-nonconserved(D9)")
    r.detail["scan"] = [[q["name"], round(q["v"], 6), q["status"], q.get("branch"), q.get("Tp", 0) / Tn, q.get("Tm", 0) / Tn] for q in rows]
    njudged = 0
    if len(ok) >= 4:
        kinds = {"Tm": {}, "Tp": {}}
        for key in ("Tm", "Tp"):
            kinds[key]["deflag"] = pick_crossing(rows, key, "deflagration")
            kinds[key]["hybrid"] = pick_crossing(rows, key, "hybrid")
        Tbelow = 0.999 * min(rows[i]["Tm"] for i in ok)
        combos = COMBOS_QUICK + (COMBOS_MORE if tier == "thorough" else [])
        for kL, kH, fH, fL in combos:
            label = f"L={kL},H={kH},flags={'T' if fH else 'F'}{'T' if fL else 'F'}"
            rg = dict(flagHigh=fH, flagLow=fL)
            if kL == "below":
                rg["TMaxLowT"] = Tbelow
            elif kL != INF:
                if kinds["Tm"][kL] is None:
                    r.tag(f"no-{kL}-crossing-of-T-")
                    continue
                rg["TMaxLowT"] = kinds["Tm"][kL][0]
            if kH != INF:
                if kinds["Tp"][kH] is None:
                    r.tag(f"no-{kH}-crossing-of-T+")
                    continue
                rg["TMaxHighT"] = kinds["Tp"][kH][0]
            njudged += judge_fastest(r, eos, Tn, tol, base, rows, label + ":" + marker.rstrip(":") if marker else label, rg, kL, kH)
    else:
        r.tag("window-scan-mostly-invalid")
    njudged += judge_slowest(r, eos, Tn, tol, base, tier)
    return r.result(nontrivial=njudged > 0)


def judge_fastest(r: Rel, eos, Tn, tol, base, rows, label, rg, kL, kH) -> int:
    TmaxL = rg.get("TMaxLowT", 1e3 * Tn)
    TmaxH = rg.get("TMaxHighT", 1e3 * Tn)
    fH, fL = rg["flagHigh"], rg["flagLow"]
    try:
        hyd, _ = HL.make_hydro(eos, Tn, tol, ranges=rg)
    except Exception as ex:
        r.true(f"{label}:Hydrodynamics-constructed", False, error=repr(ex)[:200], ranges=rg)
        return 0
    try:
        adv = float(hyd.fastestDeflag())
    except Exception as ex:
        r.true(f"{label}:fastestDeflag-returns", False, error=repr(ex)[:200], TMaxLowT=TmaxL / Tn, TMaxHighT=TmaxH / Tn,
               invalid_scan_points=[[q["name"], q["status"]] for q in rows if q["status"] != "ok"])
        return 0
    flags = [bool(x) for x in hyd.doesPhaseTraceLimitvmax]
    vJ = float(hyd.vJ)
    # scan points at which the code's own findMatching is unusable (known finding D9 / None / exception): fastestDeflag
    # consumes such matchings internally; recorded so that a failure below can be attributed
    invalid = [[q["name"], q["status"]] for q in rows if q["status"] != "ok"]
    if invalid:
        r.tag("fastestDeflag-judged-on-window-with-invalid-matchings")
    info = dict(advertised=adv, vJ=vJ, TMaxLowT=TmaxL / Tn, TMaxHighT=TmaxH / Tn, flags=flags, invalid_scan_points=invalid)
    fc = first_crossing(rows, TmaxL, TmaxH)
    if fc is None:
        # nothing reached on the scan: the whole window is allowed
        r.tag("range-not-reached")
        r.close(f"{label}:fastestDeflag==vJ", adv, vJ, 0.0, **info)
        r.true(f"{label}:doesPhaseTraceLimitvmax==[False,False]", flags == [False, False], **info)
        return 1
    ilo, ihi, which = fc
    if ilo is None:
        # exceeded already at the first valid scan point: the premise "reached inside the window" is not met
        r.tag("range-exceeded-on-whole-window", "whole-window-answer-" + ("vJ" if adv == vJ else "below-vJ"))
        return 0
    r.tag("range-reached-in-" + rows[ihi]["branch"], "limited-by-" + which)
    vlo, vhi = rows[ilo]["v"], rows[ihi]["v"]
    # (i) the advertised velocity lies in the scan interval of the first crossing (unless invalid points sit in between)
    r.true(f"{label}:fastestDeflag-in-first-crossing-interval", vlo <= adv <= vhi, interval=[vlo, vhi], limited_by=which, **info)
    # (iii) every slower scan velocity has its temperatures inside the ranges
    bad = [(q["name"], q["v"], q["Tp"] / Tn, q["Tm"] / Tn) for q in rows if q["status"] == "ok" and q["v"] < adv and (q["Tm"] > TmaxL or q["Tp"] > TmaxH)]
    r.true(f"{label}:slower-walls-inside-ranges", not bad, outside=bad[:4], **info)
    # (ii) at the advertised velocity the limiting temperature equals the tabulated maximum
    if vlo <= adv <= vhi:
        try:
            got = base.findMatching(adv)
            val = validate(eos, Tn, tol, base, adv, got, need_S=False)
        except Exception:
            val = dict(status="raised")
        if val["status"] != "ok":
            r.tag("matching-at-advertised-not-validated:" + val["status"])
        else:
            pa = O.partials(eos, Tn, adv, dict(vp=val["vp"], vm=val["vm"], Tp=val["Tp"], Tm=val["Tm"]))
            for key, Tmax, nm in (("Tm", TmaxL, "T-"), ("Tp", TmaxH, "T+")):
                T = val[key]
                if pa is None:
                    # kink inside the stencil: slope from the scan interval (x3), dT/dTn from scale covariance (x5),
                    # dT/dv+ = 0 (absorbed in the x5)
                    r.tag("range-tolerance-envelope")
                    slope, dTn, dvp = 3 * abs(rows[ihi][key] - rows[ilo][key]) / (vhi - vlo), 5 * T / Tn, 0.0
                else:
                    slope, dTn, dvp = abs(pa[f"d{key}_dvw"]), abs(pa[f"d{key}_dTn"]), abs(pa[f"{key}_vp"])
                # brentq on vw + (shock integration/brentq on Tn) + brentq on v+ inside findMatching (factor 8 as in C03)
                # + hybr on the temperatures; T(vw) as the code evaluates it is a step function at that level and
                # brentq stops at a step, so the evaluation noise enters once for the stop and once for our re-evaluation
                tT = (slope * 4 * (tol["atol"] + tol["rtol"] * adv) + dTn * Tn * 60 * tol["rtol"]
                      + dvp * 16 * (tol["atol"] + tol["rtol"] * val["vp"]) + 2e3 * tol["atol"] * T + 1e-10 * Tn)
                limiting = (key == "Tm" and "low" in which) or (key == "Tp" and "high" in which)
                if limiting and (which in ("low", "high")):
                    r.close(f"{label}:{nm}(fastestDeflag)==TMax", T, Tmax, tT, slope=slope, dT_dTn=dTn, **info)
                else:
                    r.true(f"{label}:{nm}(fastestDeflag)<=TMax", T <= Tmax + tT, T=T / Tn, tol=tT / Tn, **info)
    # flags, where documented unambiguously
    if which == "low":
        r.true(f"{label}:doesPhaseTraceLimitvmax[low]==not-stability-limit", flags[1] == (not fL), **info)
        if kH == INF:
            r.true(f"{label}:doesPhaseTraceLimitvmax[high]==False", flags[0] is False, **info)
    elif which == "high":
        r.true(f"{label}:doesPhaseTraceLimitvmax[high]==not-stability-limit", flags[0] == (not fH), **info)
        if kL == INF:
            r.true(f"{label}:doesPhaseTraceLimitvmax[low]==False", flags[1] is False, **info)
    return 1


def judge_slowest(r: Rel, eos, Tn, tol, base, tier) -> int:
    cj = O.chapman_jouguet(eos, Tn, HL.TMAX)
    if cj is None:
        r.tag("oracle-no-chapman-jouguet-point")
        return 0
    vJ = float(base.vJ)
    if abs(vJ - cj["vJ"]) > 1e-9:
        r.tag("vJ-differs-from-oracle(judged-in-section-eos)")
        return 0
    od1 = O.detonation(eos, Tn, 1.0 - 1e-12, cj)
    if od1 is None:
        return 0
    T1, TJ = od1["Tm"], cj["TJ"]  # T- falls from T_J at vJ to T1 at vw -> 1 on the weak branch
    n = 0

    def Tm_for(vstar):
        od = O.detonation(eos, Tn, vstar, cj)
        return None if od is None else od["Tm"]

    kinds = [("det:L=inf", 1e3 * Tn, "inf")]
    v30 = vJ + 0.3 * (1 - vJ)
    kinds.append(("det:L=crossed-at-vJ+0.3(1-vJ)", Tm_for(v30), "cross"))
    kinds.append(("det:L=crossed-at-0.995", Tm_for(0.995) if vJ < 0.99 else None, "cross"))
    kinds.append(("det:L=below-T-(1)", 0.999 * T1, "below"))
    if tier == "thorough":
        kinds.append(("det:L=crossed-at-vJ+0.7(1-vJ)", Tm_for(vJ + 0.7 * (1 - vJ)), "cross"))
    for label, Tmax, kind in kinds:
        if Tmax is None:
            continue
        try:
            hyd, _ = HL.make_hydro(eos, Tn, tol, ranges=dict(TMaxLowT=Tmax))
            adv = float(hyd.slowestDeton())
        except Exception as ex:
            r.true(f"{label}:slowestDeton-returns", False, error=repr(ex)[:200], TMaxLowT=Tmax / Tn)
            continue
        n += 1
        info = dict(advertised=adv, vJ=float(hyd.vJ), TMaxLowT=Tmax / Tn, TJ=TJ / Tn, T1=T1 / Tn)
        if kind == "inf":
            r.tag("deton-range-not-reached")
            r.close(f"{label}:slowestDeton==vJ", adv, float(hyd.vJ), 0.0, **info)
        elif kind == "below":
            r.tag("deton-range-exceeded-everywhere")
            r.close(f"{label}:slowestDeton==1", adv, 1.0, 0.0, **info)
        else:
            r.tag("deton-range-crossed")
            vstar = float(np.sqrt(O.det_vp2(eos, Tn, Tmax)))  # closed form: the detonation whose T- is exactly TMaxLowT
            want = min(1.0, vstar + 0.01)
            # brentq on vw (xtol=atol, rtol) of a function T-(vw) that is itself a brentq root with the same tolerances:
            # 4(atol+rtol*v) + 4(atol+rtol*T)/|dT-/dvw|, with dvw/dT- from the closed form (finite difference)
            h = 1e-6 * Tmax
            dv_dT = (np.sqrt(O.det_vp2(eos, Tn, Tmax + h)) - np.sqrt(O.det_vp2(eos, Tn, Tmax - h))) / (2 * h)
            ts = 4 * (tol["atol"] + tol["rtol"]) + 4 * (tol["atol"] + tol["rtol"] * Tmax) * abs(dv_dT) + 1e-12
            r.close(f"{label}:slowestDeton==v*+0.01", adv, want, ts if want < 1.0 else 0.0, vstar=vstar, dv_dT=dv_dT * Tn, **info)
            # every faster lattice detonation has T- inside the range (T- decreases with vw on the weak branch)
            bad = []
            for v in (0.5 * (adv + 1), 0.9, 0.99, 0.999):
                if v > adv and v < 1:
                    od = O.detonation(eos, Tn, v, cj)
                    if od is not None and od["Tm"] > Tmax * (1 + 1e-12):
                        bad.append((v, od["Tm"] / Tn))
            r.true(f"{label}:faster-detonations-inside-range", not bad, outside=bad, **info)
    return n


def range_cases(tier: str) -> list[dict]:
    out = []
    for c in HL.eos_lattice(tier):
        if c["s"] != 1.0:
            continue
        for tol in ("tight",) if tier == "quick" else ("tight", "default"):
            d = dict(c)
            d.update(tol=tol, tier=tier)
            d["id"] = c["id"] + ",tol=" + tol
            out.append(d)
    return out


SECTIONS = {"eos": (cases, case_eos), "ranges": (range_cases, case_ranges)}


def run(ctx) -> None:
    for name, (gen, fn) in SECTIONS.items():
        if ctx.only and ctx.only != name:
            continue
        cs = gen(ctx.tier)
        ctx.run_lattice(name, cs, fn, timeout=1500)
        ctx.note(f"cases_{name}", len(cs))
    ctx.note("range_combinations_per_eos", len(COMBOS_QUICK) + (len(COMBOS_MORE) if ctx.tier == "thorough" else 0))
    ctx.note("scan_points_per_window", 25 if ctx.tier == "thorough" else 13)


def replay(rep: dict) -> dict:
    return SECTIONS[rep["section"]][1](rep["params"])
