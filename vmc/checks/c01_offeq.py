"""C01, section 'offeq' - the C01 oracle relations on the Boltzmann-coupled path of the wall solver.

The e2e section of c01.py cannot include out-of-equilibrium particles because the shipped collision files are git-LFS
pointers. Here the real WallGoManager.solveWall runs WITH one out-of-equilibrium particle ("top", fermion, 12 dof,
m^2 = yt^2 phi_0^2 / 2) on the analytic two-field potential xsm2 and a SYNTHETIC collision operator written by the harness
in the HDF5 format CollisionArray.newFromDirectory reads: the relaxation operator

    C[deltaF](p) = kappa * deltaF(p)      (times the T^2 that BoltzmannSolver factors out)

which in the Cardinal basis is C[alpha,beta,j,k] = kappa delta_{alpha j} delta_{beta k} and in the (restricted) Chebyshev
basis C[alpha,beta,j,k] = kappa Tbar_{j+2}(rz_alpha) Ttilde_{k+1}(rp_beta). It is the same operator for every stored basis
and every stored basis size >= N (it commutes with the polynomial interpolation newFromDirectory performs), so the lattice
varies the storage (basis, stored N) independently of the physics (kappa).

Covered code: EOM.wallPressure / _intermediatePressureResults with includeOffEq=True (BoltzmannSolver.setBackground,
getDeltas, the off-equilibrium terms of action / pressure / deltaToTmunu), the interpolation of BoltzmannResults in
solveWall's pressureWrapper, getBoltzmannFiniteDifference, the truncation-error estimate, the Boltzmann fields of
WallGoResults, CollisionArray.newFromDirectory (+ interpolation and basis change).

The manager's solver is OBSERVED (never altered) through a spy on `setupWallSolver` that records the sequence of
wallPressure velocities, the multiplier / seed of the last _intermediatePressureResults call and the grid mapping left by
the final evaluation; everything judged is recomputed with FRESH solver objects.
"""
from __future__ import annotations

import inspect
import logging
import os
import pathlib
import shutil

import numpy as np

from ..lattice import Rel

YT = 0.99  # top Yukawa (sqrt(1/2) g mt / mW of the SingletStandardModel_Z2 example, rounded)
WORK = pathlib.Path(__file__).resolve().parents[2] / ".work" / "c01offeq"


# ============================================================================ fixture: synthetic collision files
def _cheb(n, x):
    return np.cos(n * np.arccos(np.clip(x, -1.0, 1.0)))


def relaxation_operator(kappa: float, nbasis: int, basis: str) -> np.ndarray:
    """kappa * identity on functions of (pz, pp), as the array C[alpha, beta, j, k] of basis size `nbasis` (N of the file):
    the operator applied to basis function (j, k), evaluated at the momentum grid point (alpha, beta)."""
    n = nbasis - 1
    if basis == "Cardinal":
        eye = np.identity(n)
        return kappa * np.einsum("aj,bk->abjk", eye, eye)
    if basis == "Chebyshev":
        rz = -np.cos(np.arange(1, nbasis) * np.pi / nbasis)  # Gauss-Lobatto points without the end points
        rp = -np.cos(np.arange(0, nbasis - 1) * np.pi / (nbasis - 1))  # includes rp=-1 (p_par = 0), not rp=+1
        j = np.arange(2, nbasis + 1)
        k = np.arange(1, nbasis)
        tz = _cheb(j[None, :], rz[:, None]) - np.where(j[None, :] % 2 == 0, 1.0, rz[:, None])  # vanishes at rz = +-1
        tp = _cheb(k[None, :], rp[:, None]) - 1.0  # vanishes at rp = +1
        return kappa * np.einsum("aj,bk->abjk", tz, tp)
    raise ValueError(basis)


def write_collisions(directory: pathlib.Path, kappa: float, nbasis: int, basis: str) -> None:
    import h5py

    directory.mkdir(parents=True, exist_ok=True)
    with h5py.File(directory / "collisions_top_top.hdf5", "w") as f:
        g = f.create_group("metadata")
        g.attrs["Basis Size"] = int(nbasis)
        g.attrs["Basis Type"] = basis.encode()
        f.create_dataset("top, top", data=relaxation_operator(kappa, nbasis, basis))


# ============================================================================ manager with one out-of-equilibrium particle
def _cfg(c):
    def f(config):
        config.configEOM.errTol = c["errTol"]
        config.configEOM.pressRelErrTol = c["pRel"]
        if c.get("maxIterations") is not None:
            config.configEOM.maxIterations = c["maxIterations"]

    return f


def build_manager(c: dict, directory: pathlib.Path):
    """vmc.wg.setup_manager + one particle (added before any setupWallSolver) + the collision directory."""
    import WallGo
    from .. import models as MD
    from .. import wg

    am = MD.xsm2()
    m = wg.setup_manager(am, c["Tn"], "S1", "S0", M=c["M"], N=c["N"], cfg=_cfg(c))
    top = WallGo.Particle(
        name="top", index=0,
        msqVacuum=lambda fields: 0.5 * YT**2 * fields.getField(0) ** 2,
        msqDerivative=lambda fields: YT**2 * np.transpose([fields.getField(0), 0 * fields.getField(1)]),
        statistics="Fermion", totalDOFs=12,
    )
    m.model.addParticle(top)
    m.setPathToCollisionData(directory)
    return am, m


class _Spy:
    """Read-only observation of the solver objects the manager builds inside solveWall."""

    def __init__(self, m):
        self.m = m
        self.solvers = []
        self.vcalls = []  # velocity of every wallPressure call
        self.ninter = 0  # number of _intermediatePressureResults calls (= Boltzmann solves)
        self.last = None  # (multiplier, seed BoltzmannResults) of the last _intermediatePressureResults call
        self.multipliers = set()
        self._orig = m.setupWallSolver
        m.setupWallSolver = self._setup  # instance attribute shadows the method

    def remove(self):
        del self.m.setupWallSolver

    def _setup(self, settings):
        s = self._orig(settings)
        self.solvers.append(s)
        eom = s.eom
        wp_orig, ipr_orig = eom.wallPressure, eom._intermediatePressureResults
        sig = inspect.signature(ipr_orig)
        spy = self

        def wallPressure(v, *a, **k):
            spy.vcalls.append(float(v))
            return wp_orig(v, *a, **k)

        def inter(*a, **k):
            b = sig.bind(*a, **k)
            b.apply_defaults()
            spy.ninter += 1
            spy.last = (float(b.arguments["multiplier"]), b.arguments["boltzmannResults"])
            spy.multipliers.add(float(b.arguments["multiplier"]))
            return ipr_orig(*a, **k)

        eom.wallPressure = wallPressure
        eom._intermediatePressureResults = inter
        return s


def _deltas_arrays(D):
    return {k: np.array(getattr(D, k).coefficients, dtype=float) for k in ("Delta00", "Delta02", "Delta20", "Delta11")}


def offeq_tuple(res) -> dict:
    """Observable tuple of a WallGoResults incl. the Boltzmann fields (for bit-identity)."""
    from .. import wg

    out = wg.result_tuple(res)
    out["hasOutOfEquilibrium"] = getattr(res, "hasOutOfEquilibrium", None)
    out["message"] = res.message
    for k in ("deltaF", "deltaFFiniteDifference", "linearizationCriterion1", "linearizationCriterion2"):
        x = getattr(res, k, None)
        out[k] = None if x is None else np.array(x, dtype=float)
    out["truncationError"] = getattr(res, "truncationError", None)
    for name in ("Deltas", "DeltasFiniteDifference"):
        D = getattr(res, name, None)
        if D is not None:
            for k, v in _deltas_arrays(D).items():
                out[f"{name}.{k}"] = v
    return out


def _same(a, b) -> bool:
    if isinstance(a, np.ndarray) or isinstance(b, np.ndarray):
        return isinstance(a, np.ndarray) and isinstance(b, np.ndarray) and a.shape == b.shape and bool(np.array_equal(a, b))
    return a == b


def _seed(res, grid):
    """BoltzmannResults carrying the returned off-equilibrium solution, re-attached to `grid` (what pressureWrapper hands to
    wallPressure as boltzmannResultsInput: the start of the iteration, used by the first temperature-profile solve)."""
    from WallGo.containers import BoltzmannDeltas
    from WallGo.polynomial import Polynomial
    from WallGo.results import BoltzmannResults

    def poly(p):
        return Polynomial(np.array(p.coefficients, dtype=float), grid, p.basis, p.direction, p.endpoints)

    D = res.Deltas
    return BoltzmannResults(
        deltaF=np.array(res.deltaF, dtype=float),
        Deltas=BoltzmannDeltas(Delta00=poly(D.Delta00), Delta02=poly(D.Delta02), Delta20=poly(D.Delta20), Delta11=poly(D.Delta11)),
        truncationError=float(res.truncationError),
        linearizationCriterion1=np.array(res.linearizationCriterion1, dtype=float),
        linearizationCriterion2=np.array(res.linearizationCriterion2, dtype=float),
    )


# ============================================================================ the case
def case_offeq(c: dict) -> dict:
    logging.disable(logging.CRITICAL)
    directory = WORK / f"run-{os.getpid()}"
    # fixture writing: failures here are harness errors (they propagate)
    if directory.exists():
        shutil.rmtree(directory)
    try:
        write_collisions(directory, c["kappa"], c["storeN"], c["storeBasis"])
        return _case(c, directory)
    finally:
        shutil.rmtree(directory, ignore_errors=True)


def _case(c: dict, directory: pathlib.Path) -> dict:
    import WallGo
    from WallGo.containers import BoltzmannBackground, WallParams

    r = Rel(c["id"])
    try:
        am, m = build_manager(c, directory)
    except Exception as ex:
        return r.result(inadmissible="manager setup failed: " + repr(ex)[:150])
    hyd = m.hydrodynamics
    errTol, M, N = c["errTol"], c["M"], c["N"]

    def settings(offeq=True):
        return WallGo.WallSolverSettings(bIncludeOffEquilibrium=offeq, meanFreePathScale=c["mfp"], wallThicknessGuess=c["thick"])

    # ---------------------------------------------------------------- the solve under test (observed)
    spy = _Spy(m)
    try:
        res = m.solveWall(settings())
    except Exception as ex:
        r.true("solveWall-no-exception", False, error=repr(ex)[:400], wallPressure_calls=spy.vcalls[-4:])
        return r.result()
    finally:
        spy.remove()
    r.true("solveWall-no-exception", True)
    used = spy.solvers[0]
    r.detail.update(v=res.wallVelocity, type=res.solutionType.name, success=bool(res.success), vJ=float(hyd.vJ), msg=res.message[:80],
                    wallPressure_calls=len(spy.vcalls), boltzmann_solves=spy.ninter, multipliers=sorted(spy.multipliers))
    r.tag("offeq-" + res.solutionType.name)
    r.true("unsuccessful=>ERROR", res.success or res.solutionType.name == "ERROR")
    r.true("ERROR=>unsuccessful", not (res.success and res.solutionType.name == "ERROR"))
    r.true("result-says-out-of-equilibrium-included", getattr(res, "hasOutOfEquilibrium", None) is True)

    # the collision operator the solver worked with is the one stored (whatever the stored basis / size): in the solver's
    # basis (Cardinal on the momentum axes, Chebyshev on the polynomial axes) it is kappa*Tbar_j(rz_a)*Ttilde_k(rp_b).
    # Tolerance: two basis changes with matrices of condition < 1e3 for N <= 11 -> 1e3 * 64 eps * |C|max ~ 1e-11 |C|max; 1e-9 taken.
    want = relaxation_operator(c["kappa"], N, "Chebyshev")[None, :, :, None, :, :]
    got = np.array(used.boltzmannSolver.collisionArray[...], dtype=float)
    r.true("collision-operator-basis-is-solver-basis", used.boltzmannSolver.collisionArray.getBasisType() == used.boltzmannSolver.basisN)
    r.close("collision-operator-loaded-as-stored", got, want, 1e-9 * np.max(np.abs(want)))

    vmin = hyd.vMin
    vmax = min(hyd.vJ, hyd.fastestDeflag())
    fresh = m.setupWallSolver(settings())  # fresh grid / BoltzmannSolver / EOM for all recomputations
    eom = fresh.eom
    r.true("configured-tolerances-reach-the-solver", eom.errTol == errTol and eom.pressRelErrTol == c["pRel"] and eom.includeOffEq is True,
           errTol=eom.errTol, pRel=eom.pressRelErrTol, includeOffEq=eom.includeOffEq)

    def P(v, wp, seed):
        eom.pressAbsErrTol = 1e-8
        out = eom.wallPressure(v, WallParams(widths=np.array(wp.widths, dtype=float), offsets=np.array(wp.offsets, dtype=float)),
                               boltzmannResultsInput=seed)
        return out, bool(eom.successWallPressure), bool(eom.successTemperatureProfile)

    if res.solutionType.name == "RUNAWAY":
        r.true("runaway:no-velocity", res.wallVelocity is None, v=res.wallVelocity)
        wp0 = WallParams(widths=fresh.initialWallThickness * np.ones(am.nf), offsets=np.zeros(am.nf))
        (ptop, *_), _, _ = P(vmax, wp0, None)
        r.true("runaway:pressure-at-top-negative", ptop < 0, ptop=float(ptop), vmax=vmax)
        return r.result()
    if not res.success or res.wallVelocity is None:
        return r.result(nontrivial=False)

    v = float(res.wallVelocity)
    r.true("finite", np.isfinite(v))
    r.true("window:v>=vMin", v >= vmin - 1e-12, v=v, vmin=vmin)
    r.true("window:v<=min(vJ,fastestDeflag)", v <= vmax + 1e-12, v=v, vmax=vmax)
    # ---------------------------------------------------------------- hydrodynamic data are those of the matching at v
    vp, vm_, Tp, Tm = hyd.findMatching(v)
    r.close("Tplus==findMatching(v)", res.temperaturePlus, Tp, 1e-12 * abs(Tp))
    r.close("Tminus==findMatching(v)", res.temperatureMinus, Tm, 1e-12 * abs(Tm))
    r.close("vJ==hydrodynamics.vJ", res.velocityJouguet, hyd.vJ, 0.0)
    vlte = hyd.findvwLTE()
    r.close("vLTE==findvwLTE", res.wallVelocityLTE, vlte, 0.0)
    r.true("final-evaluation-at-reported-velocity", len(spy.vcalls) > 0 and spy.vcalls[-1] == v, last=spy.vcalls[-3:], v=v)

    # ---------------------------------------------------------------- error estimate
    err = res.wallVelocityError
    r.true("wallVelocityError-finite", err is not None and np.isfinite(err), err=err)
    r.true("wallVelocityError>=errTol*v", err is not None and err >= errTol * v * (1 - 1e-14), err=err, floor=errTol * v)
    # solveWall documents the estimate as the largest of the root-finder error and the spectral truncation error scaled
    # by the distance to the LTE velocity; the truncation error is the one returned in the same result
    trunc = float(res.truncationError)
    r.true("truncationError-finite-nonnegative", np.isfinite(trunc) and trunc >= 0, trunc=trunc)
    r.true("wallVelocityError>=truncationError*|v-vLTE|", err is not None and err >= trunc * abs(v - vlte) * (1 - 1e-12), err=err,
           trunc=trunc, dv=abs(v - vlte))
    r.tag("error-estimate:" + ("truncation-dominated" if err > errTol * v * (1 + 1e-12) else "root-finder-floor"))

    # ---------------------------------------------------------------- shapes of the Boltzmann fields
    dF = np.asarray(res.deltaF, dtype=float)
    shape = (1, M - 1, N - 1, N - 1)
    r.true("deltaF-shape==(particles,M-1,N-1,N-1)", dF.shape == shape, got=dF.shape, want=shape)
    r.true("deltaF-finite-and-nonzero", bool(np.all(np.isfinite(dF))) and float(np.max(np.abs(dF))) > 0)
    dFfd = np.asarray(res.deltaFFiniteDifference, dtype=float)
    r.true("deltaFFiniteDifference-shape", dFfd.shape == shape, got=dFfd.shape)
    Dres, Dfd = _deltas_arrays(res.Deltas), _deltas_arrays(res.DeltasFiniteDifference)
    r.true("Deltas-shape==(particles,M-1)", all(a.shape == (1, M - 1) for a in Dres.values()) and all(a.shape == (1, M - 1) for a in Dfd.values()),
           got=[a.shape for a in Dres.values()])
    lin1 = np.asarray(res.linearizationCriterion1, dtype=float)
    lin2 = np.asarray(res.linearizationCriterion2, dtype=float)
    r.true("linearization-criteria-one-per-particle", lin1.shape == (1,) and lin2.shape == (1,), got=[lin1.shape, lin2.shape])
    r.detail.update(lin1=float(lin1[0]) if lin1.size else None, lin2=float(lin2[0]) if lin2.size else None, trunc=trunc, err=err,
                    max_abs_deltaF=float(np.max(np.abs(dF))))
    # precondition of the fixture (not of WallGo): the synthetic operator keeps the solve in the linear regime
    if not (lin1.size and abs(lin1[0]) < 0.2):
        return r.result(inadmissible=f"synthetic collision operator leaves the linear regime: criterion1={lin1}")

    # ---------------------------------------------------------------- Boltzmann fields are those of the final evaluation
    # Recompute with the FRESH BoltzmannSolver on the background returned in the result, on the grid mapping the final
    # evaluation used (read off the observed solver), wall velocity entering through velocityMid of the matching AT v.
    g = used.grid
    fresh.grid.changePositionFalloffScale(g.tailLengthInside, g.tailLengthOutside, g.wallThickness, g.wallCenter)
    bg = BoltzmannBackground(-0.5 * (vp + vm_), np.array(res.velocityProfile, dtype=float), res.fieldProfiles,
                             np.array(res.temperatureProfile, dtype=float))
    fresh.boltzmannSolver.setBackground(bg)
    mult, seed_last = spy.last
    try:
        br = fresh.boltzmannSolver.getDeltas()
        brfd = eom.getBoltzmannFiniteDifference()
    except Exception as ex:
        r.true("recompute-boltzmann-on-returned-background-no-exception", False, error=repr(ex)[:300])
        br = brfd = None
    if br is not None:
        # same inputs, same linear system (condition number <~ 1e4 measured): differences are rounding only,
        # 64 eps * cond ~ 1.4e-10 relative to the largest entry; 1e-9 taken. If the last iteration was damped
        # (multiplier < 1) the returned solution is multiplier*new + (1-multiplier)*seed by the solver's own protocol.
        r.tag("final-iteration-" + ("undamped" if mult == 1.0 else "damped"))
        wantF = mult * np.asarray(br.deltaF) + (1 - mult) * np.asarray(seed_last.deltaF)
        r.close("deltaF==solution-on-returned-background", dF, wantF, 1e-9 * np.max(np.abs(wantF)), multiplier=mult)
        Dnew, Dold = _deltas_arrays(br.Deltas), _deltas_arrays(seed_last.Deltas)
        for k in Dres:
            wantD = mult * Dnew[k] + (1 - mult) * Dold[k]
            r.close(f"Deltas.{k}==moments-on-returned-background", Dres[k], wantD, 1e-9 * np.max(np.abs(wantD)), multiplier=mult)
        if mult == 1.0:
            r.close("truncationError==that-of-returned-deltaF", trunc, br.truncationError, 1e-9 * abs(br.truncationError))
            r.close("linearizationCriterion1==that-of-returned-deltaF", lin1, br.linearizationCriterion1, 1e-9 * np.abs(br.linearizationCriterion1))
            # criterion 2 is a ratio of two integrals with cancellations: conditioning measured <~ 1e3 -> 1e-7 relative
            r.close("linearizationCriterion2==that-of-returned-deltaF", lin2, br.linearizationCriterion2, 1e-7 * np.abs(br.linearizationCriterion2))
        # the finite-difference cross-check returned with the result is computed on the final background as well
        r.close("deltaFFiniteDifference==FD-solution-on-returned-background", dFfd, brfd.deltaF, 1e-9 * np.max(np.abs(brfd.deltaF)))
        Dfd2 = _deltas_arrays(brfd.Deltas)
        for k in Dfd:
            r.close(f"DeltasFiniteDifference.{k}==FD-moments-on-returned-background", Dfd[k], Dfd2[k], 1e-9 * np.max(np.abs(Dfd2[k])))

    # ---------------------------------------------------------------- wall parameters / profiles are those of the converged solution at v
    wp = WallParams(widths=np.array(res.wallWidths, dtype=float), offsets=np.array(res.wallOffsets, dtype=float))
    seed = _seed(res, fresh.grid)
    (p0, wp2, br0, bg2, _), ok1, ok2 = P(v, wp, seed)
    r.true("re-evaluation-converged", ok1 and ok2)
    ptol = c["pRel"]
    r.close("widths-of-converged-solution", wp2.widths / wp.widths, 1.0, 5 * ptol, new=wp2.widths, returned=wp.widths)
    r.close("offsets-of-converged-solution", wp2.offsets, wp.offsets, 5 * ptol * (1 + np.abs(wp.offsets)), new=wp2.offsets)
    Tprof = np.asarray(res.temperatureProfile, dtype=float)
    r.close("temperature-profile-ends-at-Tminus/Tplus", [Tprof[0], Tprof[-1]], [Tm, Tp], 1e-12 * abs(Tp))
    fprof = np.asarray(res.fieldProfiles, dtype=float)
    th = m.thermodynamics
    lowT = min(max(Tm, th.freeEnergyLow.interpolationRangeMin()), th.freeEnergyLow.interpolationRangeMax())
    highT = min(max(Tp, th.freeEnergyHigh.interpolationRangeMin()), th.freeEnergyHigh.interpolationRangeMax())
    fscale = 1e-9 * (np.max(np.abs(fprof)) + 1.0)
    r.close("field-profile-starts-in-low-phase(Tminus)", fprof[0], np.asarray(th.freeEnergyLow(lowT).fieldsAtMinimum, dtype=float).reshape(-1), fscale)
    r.close("field-profile-ends-in-high-phase(Tplus)", fprof[-1], np.asarray(th.freeEnergyHigh(highT).fieldsAtMinimum, dtype=float).reshape(-1), fscale)
    vprof = np.asarray(res.velocityProfile, dtype=float)
    r.true("profile-lengths==M+1", len(Tprof) == M + 1 and len(vprof) == M + 1 and fprof.shape == (M + 1, am.nf), got=[len(Tprof), len(vprof), fprof.shape])
    r.true("velocity-profile-negative-and-subluminal", np.all(vprof < 0) and np.all(vprof > -1), vmin=float(vprof.min()), vmax=float(vprof.max()))

    # ---------------------------------------------------------------- sign change of the TOTAL pressure within the velocity tolerance
    # The discretised pressure depends on the grid mapping, which every wallPressure call derives from the wall parameters
    # it is STARTED from (measured: M=20, cold start vs. start from the returned parameters move P by ~1 errTol*dP/dv at
    # errTol=3e-4). The function whose zero solveWall brackets is therefore P_s(v') = wallPressure(v', seeds(v')) with
    # seeds(v') = the wall parameters and BoltzmannResults interpolated linearly between the evaluations at the two ends of
    # the window (solveWall.pressureWrapper). It is rebuilt here with a FRESH solver: end-point evaluations from the initial
    # guess (same order as solveWall), the solver's own absolute pressure tolerance, interpolated seeds.
    # brentq: sign change of P_s within xtol = errTol of v; iteration noise of P_s is relative (pRel*|P|, cannot flip a
    # sign) plus the absolute floor tuned to 1 % of errTol*dP/dv -> probed at 1.25 errTol (as in e2e).
    probe = m.setupWallSolver(settings())
    pe = probe.eom
    guess = WallParams(widths=probe.initialWallThickness * np.ones(am.nf), offsets=np.zeros(am.nf))

    def cold(vw):
        return pe.wallPressure(vw, WallParams(widths=guess.widths.copy(), offsets=guess.offsets.copy()))

    pe.pressAbsErrTol = 1e-8
    outMax = cold(vmax)
    vlow = vmin
    outMin = cold(vlow)
    while outMin[0] > 0 and 2 * vlow < vmax:  # solveWall doubles the lower end until the pressure is negative there
        vlow *= 2
        outMin = cold(vlow)
        r.tag("window-lower-end-doubled")
    r.true("window-ends-bracket-a-zero(fresh-solver)", outMin[0] < 0 < outMax[0], pmin=float(outMin[0]), pmax=float(outMax[0]), vlow=vlow, vmax=vmax)
    atol = 0.01 * errTol * (1 - c["pRel"]) * min(abs(outMin[0]), abs(outMax[0])) / 4

    def Ps(vw):
        f = (vw - vlow) / (vmax - vlow)
        pe.pressAbsErrTol = atol
        out = pe.wallPressure(vw, outMin[1] + (outMax[1] - outMin[1]) * f, boltzmannResultsInput=outMin[2] + (outMax[2] - outMin[2]) * f)
        return out, bool(pe.successWallPressure), bool(pe.successTemperatureProfile)

    lo, hi = max(v - 1.25 * errTol, vlow), min(v + 1.25 * errTol, vmax)
    (plo, *_), a1, a2 = Ps(lo)
    (phi, *_), b1, b2 = Ps(hi)
    (pv, wpv, brv, bgv, _), c1, c2 = Ps(v)
    r.true("probe-evaluations-converged", a1 and a2 and b1 and b2 and c1 and c2, flags=[a1, a2, b1, b2, c1, c2])
    if hi >= vmax - 1e-12 and phi <= 0 and abs(v - vmax) < 2 * errTol:
        r.tag("root-at-window-top")
    r.true("pressure-negative-below", plo < 0 or lo <= vlow + 1e-12, plo=float(plo), lo=lo, v=v, p_at_v=float(pv))
    r.true("pressure-positive-above", phi > 0 or hi >= vmax - 1e-12, phi=float(phi), hi=hi, v=v, p_at_v=float(pv))
    # |P_s(v)| <= the larger probe pressure (v lies between the probes and P_s is increasing): how central the root is
    r.detail.update(plo=float(plo), phi=float(phi), p_at_v=float(pv), p_at_v_from_returned_params=float(p0),
                    root_offset_in_errTol=float(-pv / ((phi - plo) / (hi - lo)) / errTol) if phi != plo else None)
    # The evaluation at v rebuilt with the fresh solver has the seeds of solveWall's final evaluation. The property only asks
    # for "the converged solution at v" (any start of the iteration qualifies), so the wall parameters are judged within
    # the pressure-iteration tolerance, as for the re-evaluation above; exact reproduction is reported as a tag.
    # (Boltzmann fields / profiles are not compared pointwise between evaluations: the grid is re-mapped by each of them.)
    r.close("widths-of-evaluation-at-v(solver-seeds)", wpv.widths / wp.widths, 1.0, 5 * ptol, new=wpv.widths, returned=wp.widths)
    r.close("offsets-of-evaluation-at-v(solver-seeds)", wpv.offsets, wp.offsets, 5 * ptol * (1 + np.abs(wp.offsets)), new=wpv.offsets)
    exact = (np.array_equal(wpv.widths, wp.widths) and np.array_equal(wpv.offsets, wp.offsets) and np.array_equal(np.asarray(brv.deltaF), dF)
             and np.array_equal(np.asarray(bgv.temperatureProfile), Tprof))
    r.tag("final-evaluation-reproduced-" + ("bitwise" if exact else "within-iteration-tolerance"))

    # ---------------------------------------------------------------- repeated call on the same manager: bitwise identical
    ref = offeq_tuple(res)
    try:
        again = offeq_tuple(m.solveWall(settings()))
        diffs = [k for k in ref if not _same(ref[k], again.get(k))]
        r.true("repeated-call-identical", not diffs, differing=diffs, v_first=ref["wallVelocity"], v_second=again["wallVelocity"])
    except Exception as ex:
        r.true("repeated-call-no-exception", False, error=repr(ex)[:300])

    # ---------------------------------------------------------------- sanity tag (not judged): friction lowers the wall velocity
    if c.get("compare_equilibrium", True):
        try:
            r0 = m.solveWall(settings(offeq=False))
            v0 = r0.wallVelocity
            r.detail.update(v_equilibrium_only=v0, type_equilibrium_only=r0.solutionType.name)
            if v0 is None:
                r.tag("friction:equilibrium-only-solve-has-no-velocity")
            else:
                r.tag("friction-lowers-velocity" if v < v0 else "friction-raises-velocity(!)")
                r.tag("friction-noticeable(>errTol)" if abs(v - v0) > 2 * errTol else "friction-below-tolerance")
        except Exception as ex:
            r.tag("friction:equilibrium-only-solve-raised")
            r.detail["equilibrium_only_error"] = repr(ex)[:200]
    return r.result()


# ============================================================================ the lattice
def _mk(M, N, errTol, kappa, storeBasis, dN, pRel=0.1, thick=5.0, mfp=50.0, Tn=100.0, maxIterations=None, compare_equilibrium=True):
    d = dict(Tn=Tn, M=M, N=N, errTol=errTol, pRel=pRel, kappa=kappa, storeBasis=storeBasis, storeN=N + dN, thick=thick, mfp=mfp,
             maxIterations=maxIterations, compare_equilibrium=compare_equilibrium)
    d["id"] = (f"xsm2+top,Tn={Tn:g},M={M},N={N},errTol={errTol:g},pRel={pRel:g},kappa={kappa:g},stored={storeBasis}/N={N + dN},thick={thick:g},mfp={mfp:g}"
               + (f",maxIterations={maxIterations}" if maxIterations is not None else ""))
    return d


def offeq_cases(tier):
    # quick: every value of every axis (M, N, errTol, kappa, stored basis, stored size = N / > N) at least once, all M x N
    # pairs, both bases with stored size == N and > N, and the three outcomes DEFLAGRATION / RUNAWAY (Tn=90, weak friction) /
    # ERROR (iteration cap 2: pressure not converged)
    quick = [
        _mk(20, 5, 1e-3, 0.5, "Cardinal", 0),
        _mk(20, 5, 3e-4, 2.0, "Chebyshev", 0),
        _mk(30, 7, 1e-3, 0.5, "Chebyshev", 2),
        _mk(30, 5, 1e-3, 0.1, "Cardinal", 4),
        _mk(20, 7, 1e-3, 2.0, "Chebyshev", 4, Tn=90.0),
        _mk(20, 5, 1e-3, 0.5, "Cardinal", 0, maxIterations=2),
    ]
    if tier == "quick":
        return quick
    out = list(quick)
    out.append(_mk(20, 5, 1e-3, 0.5, "Cardinal", 2, Tn=95.0))  # root close to the Jouguet velocity
    out.append(_mk(30, 5, 3e-4, 2.0, "Cardinal", 0, Tn=90.0))
    seen = {c["id"] for c in out}
    storages = [("Cardinal", 0), ("Chebyshev", 0), ("Cardinal", 2), ("Chebyshev", 4)]
    kappas = [0.5, 2.0, 0.1]
    i = 0
    for M in (20, 30):
        for N in (5, 7):
            for errTol in (1e-3, 3e-4):
                for j in range(2):  # two (kappa, storage) combinations per grid/tolerance point, cycling through all 12
                    kappa = kappas[(i + j) % 3]
                    basis, dN = storages[(i + 2 * j + j) % 4]
                    cse = _mk(M, N, errTol, kappa, basis, dN, compare_equilibrium=False)
                    if cse["id"] not in seen and len(out) < 24:
                        seen.add(cse["id"])
                        out.append(cse)
                i += 1
    return out
