"""C07 - results are covariant under a change of units (metamorphic pairs (s, 1)).

(L) models x nucleation temperatures x settings {default, tight} x unit factors s: the whole pipeline
(phase tracing, thermodynamics, hydrodynamics, LTE, wall solve without out-of-equilibrium particles) is run
in units scaled by s and in the reference units; every dimensionless output must agree within the solver
tolerances and every dimensionful output must scale with the right power of s.
"""
from __future__ import annotations

import numpy as np

from ..lattice import Rel
from .e2e_common import pipeline

LEVEL = "exploration"
RULE = (
    "full product model x Tn x settings x unit factor; each case runs the pipeline twice (scaled units and reference units) "
    "and evaluates ~30 pair relations. Non-trivial = both runs completed the wall solve with a finite velocity or a runaway."
)
ASSUMPTIONS = [
    "tolerances: vw 2*errTol+1e-4 (two brentq roots with xtol=errTol); vJ, vLTE, matching 1e-4 relative (hydro rtol 1e-6 x spline accuracy phaseTracerTol^(1/2)); "
    "alpha_n, psi_n 1e-3; cs^2, cb^2 3e-3 (second derivative of a cubic spline with dT = Tscale*tol^(1/4)); widths*Tn, offsets and field profiles 5e-3 (10x the largest spread between equivalent runs observed on the unchanged tree); "
    "tabulated ranges 2*dT/Tn; critical temperature 1e-6",
    "a run that raises in scaled units where the reference run succeeds is a violation (reported with the stage that raised)",
    "out-of-equilibrium particles: the shipped collision files are LFS pointers; the '+top' cases use one fermion with m^2 = yt^2 phi_0^2/2 (scaled with the units) and the synthetic relaxation collision operator of C01/offeq; Boltzmann fields compared at the wall-shape tolerance (5e-3 of their largest entry)",
    "models are chosen so that both phases exist with a margin over [0.8 Tn, 1.2 T(vJ)] as the property's quantifier demands: a one-field model whose symmetric phase merges continuously into the broken one inside that range (T0 > 0.8 Tn) is inadmissible (the tracer may legitimately stop at, or follow through, the continuous bifurcation)",
]


def _rel(a, b):
    return abs(a - b) / max(abs(a), abs(b), 1e-300)


def case_pair(c: dict) -> dict:
    r = Rel(c["id"])
    s = c["s"]
    spec = dict(base=c["base"], Tn=c["Tn"], settings=c["settings"], M=c["M"], offeq=c.get("offeq"))
    ref = pipeline({**spec, "s": 1.0})
    if ref.get("error") or ref["stage"] != "done":
        return r.result(inadmissible=f"reference run failed at stage {ref['stage']}: {ref.get('error')}")
    got = pipeline({**spec, "s": s})
    r.detail.update(ref={k: ref[k] for k in ("vw", "vJ", "vLTE", "alN", "type")}, got={k: got.get(k) for k in ("vw", "vJ", "vLTE", "alN", "type", "stage", "error")})
    if got.get("error"):
        r.true(f"no-exception@{got['stage']}", False, error=got["error"], stage=got["stage"])
        r.tag("raised@" + got["stage"])
    tight = c["settings"] == "tight"
    tracer = 1e-8 if tight else 1e-6
    have = lambda k: k in got and got[k] is not None  # noqa: E731
    # ---- thermodynamics / hydrodynamics set-up (dimensionless)
    for k, tol in (("vJ", 1e-4), ("vMin", 1e-4), ("alN", 1e-3), ("psiN", 1e-3), ("cs2", 3e-3), ("cb2", 3e-3)):
        if have(k):
            r.close(k, got[k] / ref[k] if ref[k] else got[k], 1.0 if ref[k] else 0.0, tol, scaled_run=got[k], reference=ref[k])
    dT_over_Tn = (10.0 * tracer**0.25) / c["Tn"]
    for k in ("TminHigh", "TmaxHigh", "TminLow", "TmaxLow"):
        if have(k):
            r.close(k + "/Tn", got[k] / got["Tn"], ref[k] / ref["Tn"], 2.5 * dT_over_Tn + 1e-6)
    if have("flags"):
        r.true("range-end-flags-equal", got["flags"] == ref["flags"], got=got["flags"], ref=ref["flags"])
    for k in ("pHigh", "pLow"):
        if have(k):
            r.close(k + "/s^4", got[k] / s**4 / ref[k], 1.0, 10 * tracer + 1e-9)
    if have("pHigh") and have("pLow"):
        r.close("(pLow-pHigh)/s^4", (got["pLow"] - got["pHigh"]) / s**4 / (ref["pLow"] - ref["pHigh"]), 1.0, 1e-3)
    for k in ("phaseHigh", "phaseLow"):
        if have(k):
            r.close(k + "/s", np.asarray(got[k]) / s, ref[k], np.sqrt(tracer) * (np.max(np.abs(ref[k])) + c["Tn"]))  # location conditioning = sqrt(value tolerance)
    if "Tc" in ref:
        if have("Tc"):
            r.close("Tc/s", got["Tc"] / s / ref["Tc"], 1.0, 1e-6)
        elif got.get("stage") not in ("setup", "build"):
            r.true("Tc-found", False, error=got.get("Tc_error"))
    if have("vLTE"):
        r.close("vLTE", got["vLTE"], ref["vLTE"], 2e-4)
    if have("matching"):
        for i, (g, f) in enumerate(zip(got["matching"], ref["matching"])):
            r.close(f"matching[{i}]:vp,vm", g[:2], f[:2], 1e-4)
            r.close(f"matching[{i}]:Tp,Tm/s", np.array(g[2:]) / s / np.array(f[2:]), 1.0, 1e-4)
    # ---- wall solve
    if got.get("stage") == "done":
        r.true("solution-type-equal", got["type"] == ref["type"], got=got["type"], ref=ref["type"])
        r.true("success-equal", got["success"] == ref["success"], got=got["success"], ref=ref["success"])
        if ref["vw"] is not None and got["vw"] is not None:
            r.close("vw", got["vw"], ref["vw"], 2 * ref["errTol"] + 1e-4)
            r.tag("pair-solved")
        elif (ref["vw"] is None) != (got["vw"] is None):
            r.true("vw-both-or-neither", False, got=got["vw"], ref=ref["vw"])
        else:
            r.tag("pair-runaway")
        r.close("Tplus/s", got["Tplus"] / s / ref["Tplus"], 1.0, 2e-4 + (2 * ref["errTol"] if ref["vw"] is not None else 0))
        r.close("Tminus/s", got["Tminus"] / s / ref["Tminus"], 1.0, 2e-4 + (2 * ref["errTol"] if ref["vw"] is not None else 0))
        # wall shape: 10x the largest spread between equivalent runs observed on the unchanged tree (see C08); the solver's
        # stopping rule gives no sharper a-priori bound
        wtol = 5e-3
        r.close("widths*s", got["widths"] * s / ref["widths"], 1.0, wtol)
        r.close("offsets", got["offsets"], ref["offsets"], wtol)
        scale_f = np.max(np.abs(ref["fieldProfiles"]))
        r.close("fieldProfiles/s", got["fieldProfiles"] / s, ref["fieldProfiles"], wtol * scale_f)
        r.close("temperatureProfile/s", got["temperatureProfile"] / s / ref["temperatureProfile"], 1.0, 1e-4 + 0.2 * ref["errTol"])
        r.close("velocityProfile", got["velocityProfile"], ref["velocityProfile"], 1e-4 + 2 * ref["errTol"])
        if c.get("offeq"):
            offeq_relations(r, got, ref, s)
    return r.result(nontrivial=got.get("stage") == "done")


# Out-of-equilibrium fields of the result. deltaF, the truncation error and the linearisation criteria are dimensionless,
# Delta00 ~ T^2, Delta02/20/11 ~ T^4. Spread between unit systems measured on the unchanged tree: 4e-5 of the largest entry ( it is the wall-shape spread of the pressure iteration seen through the Boltzmann
# equation - the stopping rule of that iteration gives no sharper a-priori bound). The Boltzmann solution is linear in the
# source, i.e. in the wall shape, so it inherits the wall-shape tolerance used above (5e-3).
OFFEQ_TOL = 5e-3
DELTA_POWER = {"Delta00": 2, "Delta02": 4, "Delta20": 4, "Delta11": 4}


def offeq_relations(r: Rel, got: dict, ref: dict, s: float) -> None:
    r.true("offeq:result-says-out-of-equilibrium-included", got.get("hasOffEq") is True and ref.get("hasOffEq") is True)
    r.tag("offeq-pair")
    r.close("offeq:deltaF", got["deltaF"], ref["deltaF"], OFFEQ_TOL * np.max(np.abs(ref["deltaF"])))
    for k, p in DELTA_POWER.items():
        r.close(f"offeq:{k}/s^{p}", got[k] / s**p, ref[k], OFFEQ_TOL * np.max(np.abs(ref[k])))
    r.close("offeq:truncationError", got["truncationError"] / ref["truncationError"], 1.0, OFFEQ_TOL)
    r.close("offeq:linearizationCriterion1", got["lin1"] / ref["lin1"], 1.0, OFFEQ_TOL)
    r.close("offeq:linearizationCriterion2", got["lin2"] / ref["lin2"], 1.0, OFFEQ_TOL)
    if ref.get("vwLTEres") is not None and got.get("vwLTEres") is not None:
        r.close("offeq:wallVelocityLTE-in-result", got["vwLTEres"], ref["vwLTEres"], 2e-4)


def cases(tier):
    out = []
    pts = [("xsm2", 100.0), ("xsm2", 95.0), ("cubicD", 100.0)]
    scales = [1e-2, 1e-1, 10.0, 1e2] if tier == "quick" else [1e-2, 3e-2, 1e-1, 10.0, 3e1, 1e2]
    if tier == "thorough":
        pts += [("xsm2", 103.0), ("cubicD", 95.0), ("xsm2", 90.0)]
    for base, Tn in pts:
        for settings in ("default", "tight"):
            for s in scales:
                out.append(dict(base=base, Tn=Tn, settings=settings, s=s, M=20, id=f"{base},Tn={Tn:g},settings={settings},s={s:g}"))
    # the same pairs WITH an out-of-equilibrium particle (mass ~ field 0, transformed with the units) and the synthetic relaxation
    # collision operator of C01/offeq (stored in either basis, stored N = grid N or larger): Boltzmann-coupled path of the solver
    oq = [("xsm2", 100.0, "default", 1e-2, 0.5, "Cardinal", 0), ("xsm2", 100.0, "default", 1e2, 2.0, "Chebyshev", 2)]
    if tier == "thorough":
        oq += [("xsm2", 100.0, "tight", 1e-1, 0.5, "Chebyshev", 0), ("xsm2", 100.0, "default", 10.0, 0.1, "Cardinal", 4),
               ("xsm2", 95.0, "default", 1e-2, 2.0, "Cardinal", 2), ("xsm2", 95.0, "default", 1e2, 0.5, "Chebyshev", 0),
               ("cubicD", 100.0, "default", 1e-2, 0.5, "Cardinal", 0), ("cubicD", 100.0, "default", 1e2, 2.0, "Chebyshev", 2),
               ("xsm2", 100.0, "default", 3e1, 0.5, "Cardinal", 0), ("xsm2", 100.0, "default", 3e-2, 2.0, "Chebyshev", 2)]
    for base, Tn, settings, s, kappa, basis, dN in oq:
        out.append(dict(base=base, Tn=Tn, settings=settings, s=s, M=20, offeq=dict(kappa=kappa, basis=basis, dN=dN),
                        id=f"{base}+top,Tn={Tn:g},settings={settings},s={s:g},kappa={kappa:g},stored={basis}/N+{dN}"))
    return out


def run(ctx):
    ctx.run_lattice("pairs", cases(ctx.tier), case_pair, timeout=3000)


def replay(rep):
    return case_pair(rep["params"])
