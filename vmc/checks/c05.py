"""C05 - the LTE wall velocity conserves entropy flux across the wall.

(L) lattice EOS x Tn x units x solver tolerance {tight, default} (the lattice of C02).  For every
admissible point the real `Hydrodynamics.findvwLTE()` is called and its three kinds of answer are
judged against the defining condition, evaluated by the harness:

  0 < v < 1  : at `findMatching(v)`  |T+ gamma+ - T- gamma-| <= tol, the two flux balances of C02 and the
               shock condition of C03 hold at that velocity, and vMin <= v <= vJ;
  v == 1     : m(v) = T+ gamma+ - T- gamma- keeps one sign on a grid of the window [vMin, vJ);
  v == 0     : m(vMin) has the stopping sign (m < 0).

Sign convention (findvwLTE's docstring: "for small wall velocity T+ gamma+ > T- gamma-, and - if a solution
exists - T+ gamma+ < T- gamma- for large wall velocity; too weak -> 0, too strong -> 1"), checked against
physics with one worked example.  Bag model p_s = T^4 - (1-psi), p_b = psi T^4 (T_c = 1), psi = 0.95, a wall
at rest (v -> 0: gamma = 1, no compression wave so T+ = Tn, momentum balance p_s(T+) = p_b(T-)):
   Tn = 0.95 < T_c: p_s = 0.8145 - 0.05 = 0.7645, T-^4 = 0.7645/0.95 -> T- = 0.94714, m = +2.9e-3 > 0 and the
                    broken phase has the larger pressure at Tn (0.7738 > 0.7645): the wall is pushed forward;
   Tn = 1.02 > T_c: p_s = 1.0324, T- = 1.02101 > Tn, m = -1.0e-3 < 0 and p_b(Tn) < p_s(Tn): the wall cannot advance.
So m > 0 <=> net forward force: "runaway" must mean m > 0 up to vJ, "static" m(vMin) < 0 (the stopping sign).

m(v) is taken from matchings returned by the code only after the harness has validated them (junction
residuals with the analytic EOS, own xi-integration reaching Tn); where the code's matching is invalid
(known finding D9) the harness' own exact solver `solve_matching` supplies it.
"""
from __future__ import annotations

import logging

import numpy as np

from ..lattice import Rel
from ..oracles import c0506_oracle as O
from ..oracles import hydro as OH
from . import hydrolattice as HL
from .c02 import _resid_vec, flux_tolerance

LEVEL = "exploration"
RULE = (
    "full cross product EOS family/parameters x nucleation temperature x unit system x solver tolerance {tight, default} "
    "(lattice of C02); one case = one findvwLTE() call judged by the clause that matches its answer: interior root "
    "(entropy/flux/shock relations at findMatching(vLTE)), runaway (sign of the entropy mismatch on a grid of 8 (quick) / "
    "24 (thorough) velocities spanning [vMin, vJ)), static (sign at vMin). Section 'static' adds EOS points whose broken "
    "phase is not favoured at Tn so that the static sentinel is reached; section 'history' replays call histories "
    "(findMatching at D9-prone inputs, unconverged 2x2 solves, a previous findvwLTE) before findvwLTE and compares with a "
    "fresh object; section 'traced' compares WallGoManager.wallSpeedLTE() with a freshly built Hydrodynamics on a traced "
    "two-field model. Non-trivial = a clause was actually judged; tags count the three answers and the branch of the root."
)
ASSUMPTIONS = [
    "admissible EOS as in C02: broken phase favoured at Tn, 0<cs^2<1 and w>0 in both phases between 0.3 and 3 Tn, alpha_n>0 "
    "(section 'static' drops only the first condition and judges only the sentinel clauses)",
    "a returned matching that violates the junction conditions (known finding D9, listed under C02) is tagged "
    "skipped-nonconserved(D9) and not judged again; on sentinel grids the harness' own exact matching replaces it",
    "entropy tolerance at an interior root = |dm/dvw|_Tn*4(atol+rtol*vw) [brentq on vw] + |dm/dTn|_vw*Tn*60*rtol [RK45 shock "
    "integration + brentq on Tn, once in findvwLTE and once in findMatching] + |dm/dv+|*4(atol+rtol*v+) [brentq on v+] + "
    "1e3*atol*(T+gamma+ + T-gamma-) [hybr on the temperatures] + 1e-10*Tn; all derivatives by finite differences of the "
    "harness' own junction solve + xi-integration around the returned matching",
    "threshold margin: a runaway answer with |m| < 1e-3*Tn at the top of the window, or a static answer with |m(vMin)| < 1e-3*Tn, "
    "is inadmissible (the property excludes points closer than a stated margin to the thresholds)",
    "sign of m on a grid point counts as undetermined when |m| <= 10*(shock tolerance of C03 at that point) + 1e3*atol*(T+gamma+ + T-gamma-)",
    "window grid: vlo = max(vMin*(1+1e-3), 2e-3), vhi = vJ-1e-4, 24 equidistant points w00..w23 (quick: 8 of them)",
]

MARGIN = 1e-3  # stated threshold margin, in units of Tn
QUICK_GRID = (0, 3, 7, 10, 13, 16, 20, 23)


# --------------------------------------------------------------------------------------
# validation of a matching returned by the code, by the harness' own means
# --------------------------------------------------------------------------------------
def validate(eos, Tn, tol, hyd, vw, got, need_S=True):
    """got = (vp, vm, Tp, Tm) as returned. Returns dict(status, ...):
    'none' (no numbers), 'D9' (junction conditions violated), 'incomplete' (oracle integration failed),
    'shock-miss' (flux conserved but the flow does not reach Tn), 'ok'."""
    vp, vm, Tp, Tm = got
    if vp is None or not all(np.isfinite([float(vp), float(vm), float(Tp), float(Tm)])):
        return dict(status="none")
    vp, vm, Tp, Tm = float(vp), float(vm), float(Tp), float(Tm)
    if not (0 < vp < 1 and 0 < vm < 1 and Tp > 0 and Tm > 0):
        return dict(status="D9", vp=vp, vm=vm, Tp=Tp, Tm=Tm, res=[np.inf, np.inf], ft=0.0)
    branch = HL.branch_of(hyd, eos, vw, Tm)
    res = _resid_vec(eos, vp, vm, Tp, Tm)
    ft = flux_tolerance(eos, branch, tol, vw, vp, vm, Tp, Tm)
    out = dict(vp=vp, vm=vm, Tp=Tp, Tm=Tm, branch=branch, res=[float(res[0]), float(res[1])], ft=float(ft))
    if max(res) > ft:
        out["status"] = "D9"
        return out
    sh = OH.shock_Tn(eos, vw, vp, Tp, rtol=1e-9)
    out["kind"] = sh["kind"]
    if sh["kind"] == "incomplete":
        out["status"] = "incomplete"
        return out
    # conditioning of the temperature ahead w.r.t. the shooting variable v+ (as in C03)
    S = 50.0
    if need_S:
        h = 1e-5
        a = O.state_of(eos, vw, vp * (1 + h), Tp, Tm)
        b = O.state_of(eos, vw, vp * (1 - h), Tp, Tm)
        if a is not None and b is not None:
            S = abs(a["Tn"] - b["Tn"]) / (2 * h * Tn)
    t = (8 * (tol["rtol"] + tol["atol"] / vp) * S + 30 * tol["rtol"]) * Tn + 1e-10 * Tn
    out.update(Tn_sh=float(sh["Tn"]), t_shock=float(t), S=float(S))
    out["status"] = "ok" if abs(sh["Tn"] - Tn) <= t else "shock-miss"
    return out


def window_grid(hyd, tier):
    vlo = max(float(hyd.vMin) * (1 + 1e-3), 2e-3)
    vhi = float(hyd.vJ) - 1e-4
    idx = range(24) if tier == "thorough" else QUICK_GRID
    return [(f"w{i:02d}", vlo + (vhi - vlo) * i / 23.0) for i in idx]


def mismatch_at(eos, Tn, tol, hyd, vw, r: Rel, use_oracle=True):
    """m(vw) and its noise level; from the code's matching if the harness can validate it, else from the
    harness' own exact solver. Returns (m, noise, source) or (None, None, reason)."""
    try:
        got = hyd.findMatching(vw)
    except Exception as ex:
        got = None
        why = "raised"
    if got is not None:
        val = validate(eos, Tn, tol, hyd, vw, got)
        if val["status"] == "ok":
            m = O.mismatch(val["vp"], val["vm"], val["Tp"], val["Tm"])
            g = val["Tp"] / np.sqrt(1 - val["vp"] ** 2) + val["Tm"] / np.sqrt(1 - val["vm"] ** 2)
            return m, 10 * val["t_shock"] + 1e3 * tol["atol"] * g, "code"
        why = val["status"]
        if why == "D9":
            r.tag("skipped-nonconserved(D9)")
    if not use_oracle:
        return None, None, why
    ex = OH.solve_matching(eos, Tn, vw, float(hyd.vJ))
    if ex is None:
        return None, None, why + "+oracle-none"
    return O.mismatch(ex["vp"], ex["vm"], ex["Tp"], ex["Tm"]), 1e-8 * Tn + 10 * abs(ex["Tn_err"]) * Tn, "oracle(" + why + ")"


# --------------------------------------------------------------------------------------
# the three clauses
# --------------------------------------------------------------------------------------
def judge_interior(r: Rel, eos, Tn, tol, hyd, v, prefix="vLTE"):
    """Relations at findMatching(vLTE). Returns True if the entropy relation was judged."""
    r.true(f"{prefix}:inside-window", float(hyd.vMin) <= v <= float(hyd.vJ), v=v, vMin=float(hyd.vMin), vJ=float(hyd.vJ))
    try:
        got = hyd.findMatching(v)
    except Exception as ex:
        r.true(f"{prefix}:findMatching-returns", False, v=v, error=repr(ex)[:200])
        return False
    val = validate(eos, Tn, tol, hyd, v, got)
    if val["status"] == "none":
        r.true(f"{prefix}:findMatching-returns", False, v=v, got=repr(got)[:120])
        return False
    if val["status"] == "D9":
        r.tag("skipped-nonconserved(D9)")
        r.detail["D9-at-vLTE"] = dict(v=v, res=val["res"], ft=val["ft"])
        return False
    extra = dict(vw=v, vp=val["vp"], vm=val["vm"], Tp=val["Tp"] / Tn, Tm=val["Tm"] / Tn, branch=val["branch"])
    r.tag("root-" + val["branch"])
    # C02 relations at this velocity (tolerance: see c02.flux_tolerance)
    r.close(f"{prefix}:energy-flux", val["res"][0], 0.0, val["ft"], **extra)
    r.close(f"{prefix}:momentum-flux", val["res"][1], 0.0, val["ft"], **extra)
    if val["status"] == "incomplete":
        r.true(f"{prefix}:oracle-integration-complete", False, **extra)
        return False
    # C03 relation at this velocity (tolerance: 8(rtol+atol/v+)|dlnTn/dlnv+| + 30 rtol, see c03)
    r.close(f"{prefix}:shock-reaches-Tn", val["Tn_sh"], Tn, val["t_shock"], kind=val["kind"], S=val["S"], **extra)
    m = O.mismatch(val["vp"], val["vm"], val["Tp"], val["Tm"])
    st = dict(vp=val["vp"], vm=val["vm"], Tp=val["Tp"], Tm=val["Tm"])
    pa = O.partials(eos, Tn, v, st)
    if pa is None:
        # deflagration/hybrid kink within the finite-difference stencil: one-sided information is not a
        # derived tolerance; use the envelope of the sensitivities measured over the whole lattice (x3)
        r.tag("entropy-tolerance-envelope")
        g = val["Tp"] / np.sqrt(1 - val["vp"] ** 2) + val["Tm"] / np.sqrt(1 - val["vm"] ** 2)
        pa = dict(dm_dvw=30.0 * Tn, dm_dTn=15.0, m_vp=40.0 * Tn, m_lnTp=g, m_lnTm=0.0)
    tolm = (
        abs(pa["dm_dvw"]) * 4 * (tol["atol"] + tol["rtol"] * v)
        + abs(pa["dm_dTn"]) * Tn * 60 * tol["rtol"]
        + abs(pa["m_vp"]) * 4 * (tol["atol"] + tol["rtol"] * val["vp"])
        + 1e3 * tol["atol"] * (pa["m_lnTp"] + pa["m_lnTm"])
        + 1e-10 * Tn
    )
    r.close(f"{prefix}:entropy-flux", m, 0.0, tolm, m_over_Tn=m / Tn, dm_dvw=pa["dm_dvw"], dm_dTn=pa["dm_dTn"], dm_dvp=pa["m_vp"], **extra)
    return True


def judge_runaway(r: Rel, eos, Tn, tol, hyd, tier):
    grid = window_grid(hyd, tier)
    vals = []
    for name, vw in grid:
        m, noise, src = mismatch_at(eos, Tn, tol, hyd, vw, r)
        vals.append((name, vw, m, noise, src))
        if m is None:
            r.tag("grid-point-unknown")
    r.detail["grid"] = [[n, v, (None if m is None else m / Tn), s] for (n, v, m, _, s) in vals]
    known = [x for x in vals if x[2] is not None]
    if len(known) < (len(vals) + 1) // 2 or vals[-1][2] is None:
        return "window could not be evaluated by the harness (top point or more than half of the grid unknown)"
    top = vals[-1]
    if abs(top[2]) < MARGIN * Tn:
        r.detail["m(vJ-)/Tn"] = top[2] / Tn
        return f"runaway answer within the stated margin of the threshold: |m(vJ-)|/Tn < {MARGIN}"
    sgn = np.sign(top[2])
    r.tag("runaway-sign" + ("+" if sgn > 0 else "-"))
    for name, vw, m, noise, src in known:
        same = (np.sign(m) == sgn) or abs(m) <= noise
        r.true(f"{name}:runaway-mismatch-keeps-sign", same, vw=vw, m_over_Tn=m / Tn, m_top_over_Tn=top[2] / Tn, noise=noise / Tn, source=src)
    return None


def judge_static(r: Rel, eos, Tn, tol, hyd, tier):
    name, vw = window_grid(hyd, tier)[0]
    m, noise, src = mismatch_at(eos, Tn, tol, hyd, vw, r)
    if m is None:
        return "m(vMin) could not be evaluated by the harness: " + src
    r.detail["m(vMin)/Tn"] = m / Tn
    if abs(m) < MARGIN * Tn:
        return f"static answer within the stated margin of the threshold: |m(vMin)|/Tn < {MARGIN}"
    r.true("vMin:static-mismatch-has-stopping-sign", m < 0, vw=vw, m_over_Tn=m / Tn, source=src)
    return None


def relaxed_admissible(eos, Tn):
    """Everything `admissible` demands except that the broken phase be favoured at Tn."""
    for ph in ("s", "b"):
        for t in (0.3 * Tn, Tn, 3 * Tn):
            c = eos.csq(ph, t)
            if not (0 < c < 1) or not eos.w(ph, t) > 0:
                return f"unphysical sound speed/enthalpy in phase {ph} at {t / Tn:g} Tn"
    if not eos.alpha_n(Tn) > 0:
        return "alpha_n <= 0"
    return None


def case_eos(c: dict) -> dict:
    logging.disable(logging.CRITICAL)
    r = Rel(c["id"])
    eos, Tn = HL.build_eos(c)
    static_section = bool(c.get("static"))
    adm = relaxed_admissible(eos, Tn) if static_section else HL.admissible(eos, Tn)
    if static_section and adm is None and eos.p("b", Tn) > eos.p("s", Tn):
        adm = "broken phase favoured at Tn (belongs to section eos)"
    if adm:
        return r.result(inadmissible=adm)
    tol = HL.TIGHT if c["tol"] == "tight" else HL.DEFAULT
    try:
        hyd, th = HL.make_hydro(eos, Tn, tol)
    except Exception as ex:  # construction needs vJ/vMin: failing here is C06's business
        return r.result(inadmissible="Hydrodynamics could not be constructed: " + repr(ex)[:120])
    try:
        v = hyd.findvwLTE()
    except Exception as ex:
        if static_section:
            return r.result(inadmissible="findvwLTE raised outside the property's domain: " + repr(ex)[:120])
        r.true("findvwLTE:returns-a-value", False, error=repr(ex)[:300])
        return r.result()
    flag = bool(hyd.success)
    v = float(v)
    r.detail.update(vLTE=v, vMin=float(hyd.vMin), vJ=float(hyd.vJ), success_flag_after=flag)
    if static_section:
        if v != 0.0:
            r.tag("static-section-answer-" + ("runaway" if v == 1.0 else "interior"))
            return r.result(inadmissible="static sentinel not returned for a disfavoured broken phase (outside the property's domain)")
        r.tag("answer-static")
        why = judge_static(r, eos, Tn, tol, hyd, c["tier"])
        return r.result(inadmissible=why)
    if 0.0 < v < 1.0:
        r.tag("answer-interior")
        judged = judge_interior(r, eos, Tn, tol, hyd, v)
        return r.result(nontrivial=judged)
    if v == 1.0:
        r.tag("answer-runaway", "runaway-flag-" + ("converged" if flag else "unconverged"))
        why = judge_runaway(r, eos, Tn, tol, hyd, c["tier"])
        return r.result(inadmissible=why)
    if v == 0.0:
        r.tag("answer-static")
        why = judge_static(r, eos, Tn, tol, hyd, c["tier"])
        return r.result(inadmissible=why)
    r.true("findvwLTE:value-in-[0,1]", False, v=v)
    return r.result()


def cases(tier: str) -> list[dict]:
    out = []
    for c in HL.eos_lattice(tier):
        for tol in ("tight", "default"):
            d = dict(c)
            d["tol"] = tol
            d["tier"] = tier
            d["id"] = c["id"] + ",tol=" + tol
            out.append(d)
    return out


def static_cases(tier: str) -> list[dict]:
    """EOS points whose broken phase is NOT favoured at Tn (outside the property's quantifier; used only to
    reach the static sentinel): bag above T_c, and the lattice's own template points that fail that one condition."""
    out = []
    for psi, tn in ((0.95, 1.02), (0.8, 1.05), (0.5, 1.01)):
        out.append(dict(kind="bag", args=[psi], Tn=tn, s=1.0))
    for c in HL.eos_lattice(tier, families=("template",)):
        if c["s"] == 1.0:
            out.append(dict(c))
    res = []
    for c in out:
        eos, Tn = HL.build_eos(c)
        if eos.p("b", Tn) > eos.p("s", Tn):
            continue  # broken phase favoured: belongs to section eos
        for tol in ("tight", "default"):
            d = dict(c)
            d.update(tol=tol, tier=tier, static=True)
            d["id"] = f"{c['kind']}({','.join(f'{a:.4g}' for a in c['args'])}),Tn={c['Tn']:g},units={c['s']:g},tol={tol}"
            res.append(d)
    return res


# --------------------------------------------------------------------------------------
# history independence of findvwLTE (the `success` flag of the last 2x2 solve is consulted)
# --------------------------------------------------------------------------------------
def case_history(c: dict) -> dict:
    logging.disable(logging.CRITICAL)
    r = Rel(c["id"])
    eos, Tn = HL.build_eos(c)
    adm = HL.admissible(eos, Tn)
    if adm:
        return r.result(inadmissible=adm)
    tol = HL.TIGHT if c["tol"] == "tight" else HL.DEFAULT

    def fresh():
        return HL.make_hydro(eos, Tn, tol)[0]

    def lte(h):
        try:
            return float(h.findvwLTE())
        except Exception as ex:
            return "raised:" + type(ex).__name__

    try:
        ref = lte(fresh())
        probe = fresh()
    except Exception as ex:
        return r.result(inadmissible="Hydrodynamics could not be constructed: " + repr(ex)[:120])
    vel = dict(HL.velocity_lattice(probe, eos, Tn))
    histories = {
        "findMatching(vmin)": [("findMatching", vel.get("vmin"))],
        "findMatching(slow1)": [("findMatching", vel.get("slow1"))],
        "findMatching(vJ-)": [("findMatching", vel.get("vJ-"))],
        "matchDeflagOrHyb(vMin)": [("matchDeflagOrHyb", float(probe.vMin))],
        "matchDeflagOrHyb(vJ)": [("matchDeflagOrHyb", float(probe.vJ) - 1e-10)],
        "findvwLTE": [("findvwLTE", None)],
        "findMatching(slow1),findMatching(vmin)": [("findMatching", vel.get("slow1")), ("findMatching", vel.get("vmin"))],
        # a scan over Tn that re-uses ONE thermodynamics object (model.Tnucl = T; Hydrodynamics(model, ...)) and evaluates the
        # objects later: each Hydrodynamics keeps the nucleation temperature it was built with for everything it computes
        "thermodynamics.Tnucl-reassigned": [("__set_th_Tnucl__", 0.93 * Tn)],
    }
    nflag = 0
    for hname, ops in histories.items():
        if any(a is None and op != "findvwLTE" for op, a in ops):
            continue
        h = fresh()
        for op, a in ops:
            if op == "__set_th_Tnucl__":
                h.thermodynamics.Tnucl = a
                continue
            try:
                getattr(h, op)(*([] if a is None else [a]))
            except Exception:
                r.tag("history-op-raised")
        stale = not bool(h.success)
        if stale:
            nflag += 1
            r.tag("history-leaves-unconverged-flag")
        got = lte(h)
        # deterministic code reading only `success`, `vJ`, `vMin` and the thermodynamics: bit-identical
        r.true(f"after[{hname}]:findvwLTE==fresh", got == ref, got=got, fresh=ref, flag_unconverged_before_call=stale)
    r.detail.update(fresh=ref, histories_with_unconverged_flag=nflag)
    return r.result(nontrivial=nflag > 0)


def history_cases(tier: str) -> list[dict]:
    out = []
    for c in HL.eos_lattice(tier):
        if c["s"] != 1.0:
            continue
        for tol in ("tight",) if tier == "quick" else ("tight", "default"):
            d = dict(c)
            d.update(tol=tol, tier=tier)
            d["id"] = c["id"] + ",tol=" + tol
            out.append(d)
    return out


# --------------------------------------------------------------------------------------
# traced model: WallGoManager.wallSpeedLTE() == Hydrodynamics.findvwLTE()
# --------------------------------------------------------------------------------------
class _TracedEOS:
    """The traced model's equation of state as WallGo evaluates it (spline tables + extrapolation)."""

    name = "traced"

    def __init__(self, th):
        self.th = th

    def p(self, ph, T):
        return float(self.th.pHighT(T) if ph == "s" else self.th.pLowT(T))

    def w(self, ph, T):
        return float(self.th.wHighT(T) if ph == "s" else self.th.wLowT(T))

    def e(self, ph, T):
        return float(self.th.eHighT(T) if ph == "s" else self.th.eLowT(T))

    def csq(self, ph, T):
        return float(self.th.csqHighT(T) if ph == "s" else self.th.csqLowT(T))


def case_traced(c: dict) -> dict:
    import WallGo

    from .. import models as MD
    from .. import wg

    logging.disable(logging.CRITICAL)
    r = Rel(c["id"])
    Tn = float(c["Tn"])
    try:
        m = wg.setup_manager(MD.xsm2(), Tn, "S1", "S0")
    except Exception as ex:
        return r.result(inadmissible="manager setup failed: " + repr(ex)[:150])
    cfg = m.config.configHydrodynamics
    tol = dict(rtol=cfg.relativeTol, atol=cfg.absoluteTol)
    # history on the manager's own object first, so that a stale flag would show
    for op in c["before"]:
        try:
            if op == "findMatching(slow)":
                m.hydrodynamics.findMatching(max(float(m.hydrodynamics.vMin), 2e-3) * 1.0000001 + 1e-9)
            elif op == "wallSpeedLTE":
                m.wallSpeedLTE()
            elif op == "previous-point(wallSpeedLTE)":
                # the manager was used for another parameter point at the SAME Tn before (LTE velocity asked there too)
                wg.resetup(m, MD.xsm2(lh=0.135), Tn, "S1", "S0")  # lh changes the broken phase, hence the equation of state
                m.wallSpeedLTE()
                wg.resetup(m, MD.xsm2(), Tn, "S1", "S0")
            elif op == "previous-Tn(wallSpeedLTE)":
                wg.resetup(m, MD.xsm2(), Tn - 3.0, "S1", "S0")
                m.wallSpeedLTE()
                wg.resetup(m, MD.xsm2(), Tn, "S1", "S0")
        except Exception:
            r.tag("history-op-raised")
    try:
        v_mgr = float(m.wallSpeedLTE())
    except Exception as ex:
        r.true("wallSpeedLTE:returns-a-value", False, error=repr(ex)[:300])
        return r.result()
    hyd = WallGo.Hydrodynamics(m.thermodynamics, cfg.tmax, cfg.tmin, cfg.relativeTol, cfg.absoluteTol)
    v_hyd = float(hyd.findvwLTE())
    r.true("wallSpeedLTE==findvwLTE(fresh Hydrodynamics)", v_mgr == v_hyd, manager=v_mgr, fresh=v_hyd)
    r.detail.update(vLTE=v_mgr, vJ=float(hyd.vJ), vMin=float(hyd.vMin))
    eos = _TracedEOS(m.thermodynamics)
    if 0 < v_mgr < 1:
        r.tag("traced-answer-interior")
        judged = judge_interior(r, eos, Tn, tol, hyd, v_mgr, prefix="vLTE")
        return r.result(nontrivial=judged)
    r.tag("traced-answer-" + ("runaway" if v_mgr == 1 else "static"))
    why = judge_runaway(r, eos, Tn, tol, hyd, "quick") if v_mgr == 1 else judge_static(r, eos, Tn, tol, hyd, "quick")
    return r.result(inadmissible=why)


def traced_cases(tier: str) -> list[dict]:
    out = []
    for Tn in (100.0,) if tier == "quick" else (95.0, 100.0, 103.0):
        for before in ([], ["findMatching(slow)"], ["wallSpeedLTE"], ["previous-point(wallSpeedLTE)"], ["previous-Tn(wallSpeedLTE)"],
                       ["wallSpeedLTE", "previous-point(wallSpeedLTE)"]):
            out.append({"id": f"xsm2,Tn={Tn:g},before=[{','.join(before)}]", "Tn": Tn, "before": before})
    return out


SECTIONS = {
    "eos": (cases, case_eos),
    "static": (static_cases, case_eos),
    "history": (history_cases, case_history),
    "traced": (traced_cases, case_traced),
}


def run(ctx) -> None:
    for name, (gen, fn) in SECTIONS.items():
        if ctx.only and ctx.only != name:
            continue
        cs = gen(ctx.tier)
        ctx.run_lattice(name, cs, fn, timeout=1500)
        ctx.note(f"cases_{name}", len(cs))
    ctx.note("window_grid_points", 24 if ctx.tier == "thorough" else len(QUICK_GRID))
    ctx.note("threshold_margin_over_Tn", MARGIN)


def replay(rep: dict) -> dict:
    return SECTIONS[rep["section"]][1](rep["params"])
