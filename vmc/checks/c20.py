"""C20 - thermal integrals, their shipped tables and the ideal-gas limit agree.

(L) bounded-exhaustive lattices, complete over the 2 x 10 000 rows of the shipped tables:

 direct        J_b, J_f evaluated directly (scipy quad inside WallGo) on the argument lattice of the design,
               value and finite-difference derivative, real and imaginary parts, closed forms at 0, Boltzmann decay;
 direct-scan   direct evaluation on the table's own abscissae continued below the table to x = -45 (every point,
               both tiers) and on every 100th row above 0: the piecewise negative-argument branch away from the
               few hand-picked arguments;
 table-rows    every row (thorough) / every 25th row + every row with x < 5.2 (quick) against the reference,
               the spline through the knot and the spline derivative at the knot;
 table-smooth  every row, both tiers: fourth differences against the local median (localised corruption);
 table-mid     mid-points between rows (same row selection as table-rows) value + derivative of the spline;
 potential     potentialOneLoopThermal on particle contents x mass spectra x T x integral configuration;
 continuity    V(m^2) across m^2/T^2 in {0, -20, 1000} for steps 1e-3, 1e-6, 1e-9;
 cw            jCW and potentialOneLoop / potentialOneLoopThermal under the four imaginary-part options;
 history  (H)  BFS over constructions of potentials / mode changes acting on the shared
               WallGo.PotentialTools.defaultIntegrals: evaluation inside the table is history independent.

Oracle: vmc/oracles/c20_oracle.py (mpmath, 35 digits, defining integrals split at every singular point; it is
self-checked against the Bessel series, a numerical derivative and the closed form of Im J to 1e-30; the closed form
of Im J is re-asserted on every reference evaluation with x <= 0).
"""
from __future__ import annotations

import math

import numpy as np

from ..lattice import Rel, with_ids
from ..oracles import c20_oracle as O

LEVEL = "exploration"
RULE = (
    "direct: fixed argument lattice {0, +-10^(-6..1.3), 50, 500, 999, 1000, 1001, 5000, -19.99, -20, -20.01, -25} plus both "
    "sides of the integrand thresholds -pi^2 and -(2 pi)^2, x {boson, fermion}; direct-scan: every abscissa "
    "-20 + k*h (h = table spacing) for k = -245..196 and every 100th row above; table-rows / table-mid: one case per "
    "(table, row) - all 2 x 10000 rows in thorough, every 25th row + all rows with x < 5.2 + last row in quick; "
    "table-smooth: one case per (table, column) looping over every row; potential: full cross product "
    "content x spectrum x T x integral configuration; cw: full cross product mass x dof x c x scale and "
    "spectrum x option x shape; history: BFS depth 3 over {construct default/own/passed, set modes} from 4 initial mode "
    "pairs, states merged by digest of the shared object's observable configuration. A case is non-trivial when the "
    "reference value is non-zero or a branch tag other than 'plain' is reached; distinct = distinct case id."
)
ASSUMPTIONS = [
    "direct integrals: |got-ref| <= 1.49e-8 x sum over the quad calls WallGo makes of max(1,|piece|)  (scipy.integrate.quad's "
    "default epsabs=epsrel=1.49e-8 is the accuracy the code promises - the models quote 1e-8 as 'set by the error tolerance of "
    "the thermal integrals'; no extra factor: the largest residual/tolerance measured on the shipped tree is 0.15)",
    "direct derivative: the documented scheme is a 4th-order central difference with step 1e-16^(1/5); accepted = within "
    "(its truncation error on the exact function, computed with the oracle) + 1.5/step x value tolerance of that scheme "
    "applied to the exact function",
    "table rows carry the same tolerance as the direct integrals (the tables were produced by them) + 15-digit print rounding",
    "between rows (and for the spline slope) the cubic spline is allowed: 2 x row tolerance (Lebesgue constant of cubic-spline "
    "interpolation < 2) + 10 x (5/384) x median local fourth difference of the table (Hermite bound (5/384) h^4 |d4f/dx4|) "
    "+ 10 x the interpolation error of the exactly known singular parts of J at its non-analytic points inside the table "
    "(x = 0: (pi/6)|x|^(3/2), x^2 ln|x|/32, pi x^2/32 one-sided; x = -pi^2 for J_f: (pi/3)|x+pi^2|^(3/2) one-sided), computed "
    "numerically as the envelope over all positions of the singular point within a cell (peak: 0.09 c h^(3/2) = 1.5e-3 for "
    "J_b at 0, 3.1e-3 for J_f at -pi^2; measured 1.0e-3 and 2.9e-3); slope: 3 x (row terms)/h + the slope envelope",
    "relative accuracy in the Boltzmann tail is NOT promised by the code (quad stops on epsabs): decay is checked as "
    "J <= 0 and |J| within a factor 2 of x K_2(sqrt x) for 50 <= x <= 1001 (measured deviation <= 5.2 %), only the upper bound beyond",
    "a localised table corruption is detectable only above the table's own noise: bands on the fourth-difference residual "
    "(= 6 x the corruption) 6e-8 (5.2<=x<50), 3e-10 (50<=x<300), 6.5e-10 (300<=x<700), 2.5e-11 (x>=700), each 10 x the largest "
    "residual of the shipped tables in that region; rows with x < 5.2 (both non-analytic points, all negative arguments) are "
    "compared with the reference one by one in both tiers instead; imaginary columns must be exactly 0 for x >= 5.2",
    "ABS_RESULT for the thermal part is ambiguous in the documentation (|Re V| vs |V|): either is accepted",
    "useDefaultInterpolation=True asks for CONSTANT continuation beyond the table: the potential is compared with J at the "
    "table end there and only continuity is demanded across the ends (the design's clause)",
    "(H) only evaluation INSIDE the table is required to be history independent; that values outside the table depend on "
    "whether some potential was constructed earlier is recorded (tag outside-value-depends-on-history), not judged",
]

QUAD_EPS = 1.49e-8  # scipy.integrate.quad default epsabs = epsrel
SAFETY = 1.0  # the promise itself: measured residual/tolerance on the shipped tree is <= 0.15 with no extra factor (was 10: missed seeded C20-Jb-table-rows-perturbed)
EPS = float(np.finfo(float).eps)
NROWS = 10000
XLO, XHI = -20.0, 1000.0
HTAB = (XHI - XLO) / (NROWS - 1)
PI2 = math.pi**2
KINDS = ("b", "f")


# ----------------------------------------------------------------------------- access to WallGo
def _PT():
    from WallGo import PotentialTools as PT

    return PT


def _new_integral(kind: str):
    PT = _PT()
    cls = PT.JbIntegral if kind == "b" else PT.JfIntegral
    return cls(bUseAdaptiveInterpolation=False)


def _default(kind: str):
    d = _PT().defaultIntegrals
    return d.Jb if kind == "b" else d.Jf


_TAB: dict = {}


def _table(kind: str) -> np.ndarray:
    """Raw rows of the shipped table (read by the harness, not through WallGo)."""
    if kind not in _TAB:
        PT = _PT()
        name = "InterpolationTable_Jb" if kind == "b" else "InterpolationTable_Jf"
        path = PT.getSafePathToResource(PT.config.get("DataFiles", name))
        _TAB[kind] = np.loadtxt(str(path))
    return _TAB[kind]


# ----------------------------------------------------------------------------- tolerances
def tol_value(x: float, pieces, part: str) -> float:
    """Accuracy scipy quad promises for the calls WallGo makes at argument x (see ASSUMPTIONS[0])."""
    p1re, p1im, p2 = (float(v) for v in pieces)
    if x >= 0:
        return SAFETY * QUAD_EPS * max(1.0, p2) if part == "re" else 0.0
    if part == "re":  # two calls: [0, sqrt|x|] and [sqrt|x|, inf)
        return SAFETY * QUAD_EPS * (max(1.0, p1re) + max(1.0, p2))
    return SAFETY * QUAD_EPS * max(1.0, p1im)


# Non-analytic points of J inside the table and what a cubic spline on a uniform grid can do there.
# Singular parts (exact, from the high-temperature expansion / from the point where a zero of 1 -+ exp(-i w) enters
# the integration range at y = 0):
#   J_b, x -> 0 :  Re: -(pi/6) x^(3/2) [x>0] - (x^2/32) ln|x|      Im: +(pi/6)|x|^(3/2) [x<0] - (pi/32) x^2 [x<0]
#   J_f, x -> 0 :  Re: +(x^2/32) ln|x|                              Im: +(pi/32) x^2 [x<0]
#   J_f, x -> -pi^2 (d = x + pi^2):  Re: +(pi/3) d^(3/2) [d>0]      Im: -(pi/3)|d|^(3/2) [d<0]
# Spline interpolation is linear and reproduces cubics, so its error on  c*m(x - x_k)  with m homogeneous of degree p
# (up to a polynomial) is  c h^p phi_m((x-x_k)/h): phi_m is a pure function which the harness computes numerically
# for the three model singularities as the envelope over all positions of x_k within a cell.
MODEL_P = {"m1": 1.5, "m2": 2.0, "m3": 2.0}  # |t|^(3/2) one-sided; t^2 one-sided; t^2 ln|t|
SINGULAR = {  # (kind, part) -> [(x_k, model, |coefficient|)]
    ("b", "re"): [(0.0, "m1", math.pi / 6), (0.0, "m3", 1 / 32)],
    ("b", "im"): [(0.0, "m1", math.pi / 6), (0.0, "m2", math.pi / 32)],
    ("f", "re"): [(0.0, "m3", 1 / 32), (-PI2, "m1", math.pi / 3)],
    ("f", "im"): [(0.0, "m2", math.pi / 32), (-PI2, "m1", math.pi / 3)],
}
KINK_SAFETY = 10.0
_PHI: dict = {}


def _phi_envelopes() -> dict:
    """phi_m for value and first derivative, as max over the cells at integer distance n from the singular point."""
    if _PHI:
        return _PHI
    from scipy.interpolate import CubicSpline  # same interpolant family (not-a-knot cubic spline) as the tables use

    fn = {
        "m1": (lambda t: np.where(t > 0, np.abs(t) ** 1.5, 0.0), lambda t: np.where(t > 0, 1.5 * np.abs(t) ** 0.5, 0.0)),
        "m2": (lambda t: np.where(t > 0, t * t, 0.0), lambda t: np.where(t > 0, 2 * t, 0.0)),
        "m3": (lambda t: t * t * np.log(np.abs(t) + (t == 0)), lambda t: 2 * t * np.log(np.abs(t) + (t == 0)) + t),
    }
    N, NE = 90, 60
    nodes = np.arange(-N, N + 1, dtype=float)
    sub = np.linspace(0.0, 1.0, 9)
    for name, (f, df) in fn.items():
        ev, ed = np.zeros(NE), np.zeros(NE)
        for off in np.arange(0.0, 1.0, 0.05):
            S = CubicSpline(nodes, f(nodes - off))
            for cell in range(-NE - 2, NE + 2):
                t = cell + sub
                dist = max(0.0, cell - off, off - (cell + 1))
                n = int(dist)
                if n >= NE:
                    continue
                ev[n] = max(ev[n], float(np.max(np.abs(S(t) - f(t - off)))))
                ed[n] = max(ed[n], float(np.max(np.abs(S(t, 1) - df(t - off)))))
        for m in (ev, ed):  # make the envelope monotone in the distance
            for n in range(NE - 2, -1, -1):
                m[n] = max(m[n], m[n + 1])
        _PHI[name] = (ev, ed)
    return _PHI


def kink_band(kind: str, part: str, x: float, deriv: bool = False) -> float:
    """Interpolation error (value, or first derivative) the table spacing allows near the non-analytic points."""
    env = _phi_envelopes()
    out = 0.0
    for xk, model, c in SINGULAR[(kind, part)]:
        ev, ed = env[model]
        n = int(abs(x - xk) / HTAB)
        tab = ed if deriv else ev
        if n < len(tab):
            phi = tab[n]
        else:  # algebraic tail (local h^4 x fourth-derivative behaviour); m2 is piecewise polynomial: Green-function decay only
            decay = {"m1": 2.5, "m2": 40.0, "m3": 2.0}[model] + (1.0 if deriv else 0.0)
            phi = tab[-1] * (n / (len(tab) - 1.0)) ** -decay
        out += c * HTAB ** (MODEL_P[model] - (1.0 if deriv else 0.0)) * phi
    return KINK_SAFETY * out


def _d4_local(kind: str, col: int, x: float) -> float:
    """Typical |fourth difference| (= h^4 |d^4 f/dx^4|) of the table column around x, i.e. the table's own smoothness:
    the MEDIAN over the 17 fourth differences centred within 8 rows of x, so that one or two defective rows (each
    touches 5 fourth differences) cannot widen the tolerance of their own neighbourhood."""
    T = _table(kind)
    i = int(np.clip(round((x - XLO) / HTAB), 10, NROWS - 11))
    f = T[i - 10 : i + 11, col]
    d4 = f[:-4] - 4 * f[1:-3] + 6 * f[2:-2] - 4 * f[3:-1] + f[4:]
    return float(np.median(np.abs(d4)))


def tol_spline(kind: str, x: float, pieces, part: str, deriv: bool = False) -> float:
    """Allowed |spline(x) - J(x)| (deriv=False) or |spline'(x) - J'(x)| (deriv=True) for x inside the table."""
    col = 1 if part == "re" else 2
    tv = tol_value(x, pieces, part)  # 0 for the imaginary part at x >= 0 (rows are exactly 0 there)
    smooth = 2.0 * tv + SAFETY * (5.0 / 384.0) * _d4_local(kind, col, x)
    if deriv:  # a row error delta moves the spline slope by <= 3 delta / h (|| tridiag(1,4,1)^-1 ||_inf <= 1/2)
        smooth = 3.0 * smooth / HTAB
    return smooth + kink_band(kind, part, x, deriv)


# ----------------------------------------------------------------------------- direct integrals
def _ref(kind: str, x: float):
    """Reference (Re J, Im J, pieces) with the oracle's own consistency asserted (a failure is a harness error,
    never a verdict): quadrature error estimate, and the quadrature-free closed form of the imaginary part."""
    import mpmath as mp

    re, im, err, pieces = O.quad_pieces(kind, x)
    assert float(err) < 1e-25, ("oracle quadrature did not converge", kind, x, err)
    c = O.im_closed(kind, x) if x <= 0 else mp.mpf(0)
    if c is not None:
        assert abs(c - im) < mp.mpf("1e-25"), ("oracle: quadrature and closed form of Im J disagree", kind, x)
    return re, im, pieces


def _fd_step() -> float:
    return 1e-16 ** (1.0 / 5.0)  # helpers.derivative: scale * epsilon^(1/(n+order)), n=1, order=4


def direct_cases() -> list[dict]:
    xs = [0.0]
    for e in (-6, -5, -4, -3, -2, -1, 0, 1, 1.3):
        xs += [10.0**e, -(10.0**e)]
    xs += [50.0, 500.0, 999.0, 1000.0, 1001.0, 5000.0, -19.99, -20.0, -20.01, -25.0]
    xs += [-9.8, -9.9, -39.0, -40.0]  # either side of -pi^2 (fermionic) and -(2 pi)^2 (bosonic) integrand thresholds
    return with_ids([{"id": f"J{k},x={x:.6g}", "kind": k, "x": float(x)} for k in KINDS for x in xs])


def _eval_direct(J, x):
    return np.asarray(J(x), dtype=float).ravel()


def case_direct(p: dict) -> dict:
    import mpmath as mp

    kind, x = p["kind"], p["x"]
    r = Rel(p["id"])
    J = _new_integral(kind)
    try:
        got = _eval_direct(J, x)
    except Exception as e:  # the property says a value is returned for every real argument
        r.true("value-returned", False, error=repr(e))
        return r.result()
    r.true("value-shape", got.shape == (2,), shape=list(got.shape))
    re, im, pieces = _ref(kind, x)
    r.close("value-re", got[0], float(re), tol_value(x, pieces, "re"))
    r.close("value-im", got[1], float(im), tol_value(x, pieces, "im"))
    r.detail.update(got=got.tolist(), ref=[float(re), float(im)])
    r.tag("x=0" if x == 0 else ("x>0" if x > 0 else "x<0"))
    if x < 0:
        nsing = len(O._sing_w(kind, mp.sqrt(-mp.mpf(x))))
        r.tag(f"interior-singular-points={nsing}")
    if x == 0:
        j0, dj0 = O.at_zero(kind)
        assert abs(j0 - re) < mp.mpf("1e-25"), "oracle disagrees with the closed form at 0"
        r.close("zero-closed-form", got[0], float(j0), tol_value(x, pieces, "re"))
    if x >= 50:
        B = float(-O.boltzmann(x))  # x K_2(sqrt x) > 0
        r.true("decay-nonpositive", got[0] <= 0.0, got=float(got[0]))
        if x <= 1001:
            # factor-2 band around the Boltzmann form (no relative accuracy is promised in the tail)
            r.close("decay-ratio", got[0] / (-B), 1.0, 1.0, B=B)
            r.tag("tail-resolved")
        else:
            r.true("decay-upper-bound", abs(got[0]) <= 2.0 * B, got=float(got[0]), B=B)
            r.tag("tail-underflow" if got[0] == 0 else "tail-resolved")
    # derivative of the direct function (documented 4th-order central difference)
    try:
        d = np.asarray(J.derivative(x, 1, False), dtype=float).ravel()
    except Exception as e:
        r.true("derivative-returned", False, error=repr(e))
        return r.result()
    h = _fd_step()
    h = (x + h) - x
    dre, dim = O.dquad(kind, x)
    if x == 0:
        assert abs(dre - O.at_zero(kind)[1]) < mp.mpf("1e-25")
    vals, tv_re, tv_im = {}, 0.0, 0.0
    for k in (-2, -1, 1, 2):
        a, b, _, pc = O.quad_pieces(kind, x + k * h)
        vals[k] = (float(a), float(b))
        tv_re = max(tv_re, tol_value(x + k * h, pc, "re"))
        tv_im = max(tv_im, tol_value(x + k * h, pc, "im"))
    for j, (name, ex, tv) in enumerate((("re", float(dre), tv_re), ("im", float(dim), tv_im))):
        fd = (vals[-2][j] - 8 * vals[-1][j] + 8 * vals[1][j] - vals[2][j]) / (12 * h)
        trunc = abs(fd - ex)
        # accepted: everything within (noise + truncation) of the scheme applied to the exact function; this contains
        # every value within the noise of the exact derivative J' (triangle inequality), so nothing beyond the
        # documented accuracy of the scheme is demanded; the exact J' and the truncation are reported.
        r.close(f"deriv-{name}", d[j], fd, trunc + 1.5 * tv / h + 1e-12, exact=ex, truncation=trunc)
    return r.result(nontrivial=True)


def scan_cases() -> list[dict]:
    out = []
    for kind in KINDS:
        for k in list(range(-245, 197)) + list(range(200, NROWS, 100)) + [NROWS - 1]:
            out.append({"id": f"J{kind},k={k}", "kind": kind, "k": k})
    return with_ids(out)


def case_scan(p: dict) -> dict:
    kind, k = p["kind"], p["k"]
    x = float(_table(kind)[k, 0]) if k >= 0 else XLO + k * HTAB
    r = Rel(p["id"])
    J = _new_integral(kind)
    try:
        got = _eval_direct(J, x)
    except Exception as e:
        r.true("value-returned", False, error=repr(e), x=x)
        return r.result()
    re, im, pieces = _ref(kind, x)
    r.close("value-re", got[0], float(re), tol_value(x, pieces, "re"), x=x)
    r.close("value-im", got[1], float(im), tol_value(x, pieces, "im"), x=x)
    if k >= 0:  # the shipped row was produced by this code: they must agree to the same tolerance
        row = _table(kind)[k]
        r.close("direct-equals-row-re", got[0], row[1], 2 * tol_value(x, pieces, "re"), x=x)
        r.close("direct-equals-row-im", got[1], row[2], 2 * tol_value(x, pieces, "im"), x=x)
    r.tag("scan-below-table" if k < 0 else ("scan-x<0" if x < 0 else "scan-x>0"))
    return r.result()


# ----------------------------------------------------------------------------- tables
def row_selection(tier: str) -> list[int]:
    if tier == "thorough":
        return list(range(NROWS))
    nlow = int(math.ceil((5.2 - XLO) / HTAB))  # rows with x < 5.2: both non-analytic points and every negative argument
    return sorted(set(range(0, NROWS, 25)) | set(range(nlow)) | {NROWS - 1})


def row_cases(tier: str) -> list[dict]:
    return with_ids([{"id": f"J{k}-row{i:04d}", "kind": k, "row": i} for k in KINDS for i in row_selection(tier)])


def case_row(p: dict) -> dict:
    kind, i = p["kind"], p["row"]
    T = _table(kind)
    r = Rel(p["id"])
    x, tre, tim = (float(v) for v in T[i])
    r.true("abscissa", abs(x - (XLO + i * HTAB)) <= 1e-9, x=x)
    re, im, pieces = _ref(kind, x)
    rnd = 5e-15  # %.15g
    r.close("row-re", tre, float(re), tol_value(x, pieces, "re") + rnd * abs(tre), x=x)
    r.close("row-im", tim, float(im), tol_value(x, pieces, "im") + rnd * abs(tim), x=x)
    J = _default(kind)
    try:
        got = np.asarray(J(x), dtype=float).ravel()
        d = np.asarray(J.derivative(x, 1, True), dtype=float).ravel()
    except Exception as e:
        r.true("spline-evaluates", False, error=repr(e), x=x)
        return r.result()
    # the loaded spline passes through the row it was built from (loading, column order)
    r.close("knot-re", got[0], tre, 64 * EPS * max(1.0, abs(tre)), x=x)
    r.close("knot-im", got[1], tim, 64 * EPS * max(1.0, abs(tim)), x=x)
    # spline slope at the knot
    dre, dim = O.dquad(kind, x)
    for name, g, ex, part in (("re", d[0], float(dre), "re"), ("im", d[1], float(dim), "im")):
        r.close(f"deriv-{name}", g, ex, tol_spline(kind, x, pieces, part, deriv=True), x=x)
    r.tag("row-x<0" if x < 0 else "row-x>0")
    if abs(x) < 1.5 * HTAB:
        r.tag("row-next-to-0")
    if kind == "f" and abs(x + PI2) < 1.5 * HTAB:
        r.tag("row-next-to--pi^2")
    if i in (0, NROWS - 1):
        r.tag("row-table-end")
    return r.result()


def case_mid(p: dict) -> dict:
    """Mid-point of the interval [row, row+1]."""
    kind, i = p["kind"], p["row"]
    T = _table(kind)
    r = Rel(p["id"])
    if i >= NROWS - 1:
        return r.result(inadmissible="no interval above the last row")
    x = 0.5 * (float(T[i, 0]) + float(T[i + 1, 0]))
    re, im, pieces = _ref(kind, x)
    J = _default(kind)
    try:
        got = np.asarray(J(x), dtype=float).ravel()
        d = np.asarray(J.derivative(x, 1, True), dtype=float).ravel()
    except Exception as e:
        r.true("spline-evaluates", False, error=repr(e), x=x)
        return r.result()
    dre, dim = O.dquad(kind, x)
    for j, (name, ex, dex) in enumerate((("re", float(re), float(dre)), ("im", float(im), float(dim)))):
        tol = tol_spline(kind, x, pieces, name)
        r.close(f"mid-{name}", got[j], ex, tol, x=x)
        r.close(f"mid-deriv-{name}", d[j], dex, tol_spline(kind, x, pieces, name, deriv=True), x=x)
    r.tag("mid-x<0" if x < 0 else "mid-x>0")
    if float(T[i, 0]) < 0 < float(T[i + 1, 0]):
        r.tag("mid-interval-contains-0")
    if kind == "f" and float(T[i, 0]) < -PI2 < float(T[i + 1, 0]):
        r.tag("mid-interval-contains--pi^2")
    return r.result()


# fourth-difference residual bands (absolute), by region of x; see ASSUMPTIONS[5]. Near the non-analytic
# points the rows are compared with the reference one by one in BOTH tiers (row_selection), so the band there is
# only a coarse net; for x >= 5.2 it is what protects the rows quick does not send to the reference.
def smooth_band(kind: str, col: int, x: float) -> float:
    if x >= 700:
        return 2.5e-11
    if x >= 300:
        return 6.5e-10
    if x >= 50:
        return 3e-10
    if x >= 5.2:
        return 6e-8
    return float("inf")  # rows below 5.2 are all compared with the reference in both tiers


def case_smooth(p: dict) -> dict:
    kind, col = p["kind"], p["col"]
    T = _table(kind)
    r = Rel(p["id"])
    x, f = T[:, 0], T[:, col]
    r.true("row-count", T.shape == (NROWS, 3), shape=list(T.shape))
    r.true("abscissae-uniform", float(np.max(np.abs(np.diff(x) - HTAB))) < 1e-9)
    r.true("all-finite", bool(np.all(np.isfinite(T))))
    d4 = f[:-4] - 4 * f[1:-3] + 6 * f[2:-2] - 4 * f[3:-1] + f[4:]  # centred on rows 2..n-3
    n = len(d4)
    worst = {}
    ntested = 0
    for k in range(n):
        i = k + 2
        band = smooth_band(kind, col, float(x[i]))
        if not math.isfinite(band):
            continue
        # median of the neighbours' fourth differences, leaving out the 5 that a defect at row i touches
        nb = [d4[j] for j in range(max(0, k - 8), min(n, k + 9)) if abs(j - k) > 2]
        res = float(d4[k] - np.median(nb))
        ntested += 1
        if col == 2:
            ok = r.true(f"d4-row{i:04d}", f[i] == 0.0 and res == 0.0, x=float(x[i]), value=float(f[i]))
            continue
        reg = "x>=700" if x[i] >= 700 else "x>=300" if x[i] >= 300 else "x>=50" if x[i] >= 50 else "x>=5.2"
        worst[reg] = max(worst.get(reg, 0.0), abs(res) / band)
        # a defect eps at row i gives residual 6 eps at i (and -4 eps, eps at the neighbours)
        r.close(f"d4-row{i:04d}", res, 0.0, band, x=float(x[i]), implied_corruption=res / 6.0)
    r.detail.update(rows_tested=ntested, worst_residual_over_band=worst)
    # the first/last two rows have no centred fourth difference: use the one-sided pattern (row 9998/9999 appear in
    # d4[n-1] with weights -4 and 1): covered because those d4 are tested above; rows 0,1 lie below 5.2.
    r.tag(f"smooth-J{kind}-col{col}")
    return r.result()


# ----------------------------------------------------------------------------- the one-loop potential
CONTENTS = {  # total (n_b, n_f) -> degrees of freedom per species
    "1,0": ([1.0], []),
    "0,1": ([], [1.0]),
    "4,12": ([1.0, 3.0], [12.0]),
    "28,90": ([1.0, 1.0, 3.0, 6.0, 3.0, 14.0], [12.0, 12.0, 6.0, 60.0]),
}
SPECTRA = {  # m^2/T^2 assigned cyclically to the species; (bosons, fermions)
    "zero": ([0.0], [0.0]),
    "light": ([1e-4, 1e-2, 0.25, 1.0], [1e-2, 0.25, 1.0]),
    "heavy": ([400.0, 900.0, 1600.0], [625.0, 2500.0]),
    "mixed": ([0.0, 0.25, 900.0, -4.0, 30.0, -0.5], [0.0, 4.0, 900.0, 0.25]),
}
TEMPS = [1e-2, 1.0, 1e2, 1e-8, 1e-5, 1e6]  # "every temperature": includes unit systems where T is numerically tiny (absolute regulators) or huge
CONFIGS = ["direct", "default-interpolation", "passed-table"]

_POT = {}


def _pot_class():
    if "cls" not in _POT:
        from WallGo.PotentialTools import EffectivePotentialNoResum

        class MinimalPotential(EffectivePotentialNoResum):
            """Smallest concrete subclass: the particle spectrum is handed over by the harness."""

            fieldCount = 1

            def bosonInformation(self, fields, temperature=None):  # not used: spectra are passed explicitly
                raise NotImplementedError

            def fermionInformation(self, fields, temperature=None):
                raise NotImplementedError

            def evaluate(self, fields, temperature):
                raise NotImplementedError

        _POT["cls"] = MinimalPotential
    return _POT["cls"]


def _reset_default_modes():
    """Workers handle many cases: put the shared object's modes back to the import-time state first."""
    from WallGo import EExtrapolationType as E

    d = _PT().defaultIntegrals
    for J in (d.Jb, d.Jf):
        if J.extrapolationTypeLower != E.NONE or J.extrapolationTypeUpper != E.NONE:
            J.setExtrapolationType(E.NONE, E.NONE)
        J.disableAdaptiveInterpolation()


def _fresh_table_integrals():
    """A private Integrals object with the shipped tables loaded through WallGo's reader, modes untouched."""
    PT = _PT()
    ints = PT.Integrals()
    ints.Jb.disableAdaptiveInterpolation()
    ints.Jf.disableAdaptiveInterpolation()
    ints.Jb.readInterpolationTable(PT.getSafePathToResource(PT.config.get("DataFiles", "InterpolationTable_Jb")))
    ints.Jf.readInterpolationTable(PT.getSafePathToResource(PT.config.get("DataFiles", "InterpolationTable_Jf")))
    return ints


def _make_pot(config: str, option: str = "PRINCIPAL_PART"):
    from WallGo.PotentialTools import EImaginaryOption

    P = _pot_class()
    opt = getattr(EImaginaryOption, option)
    if config == "direct":
        return P(imaginaryOption=opt)
    if config == "default-interpolation":
        _reset_default_modes()
        return P(useDefaultInterpolation=True, imaginaryOption=opt)
    if config == "passed-table":
        return P(integrals=_fresh_table_integrals(), imaginaryOption=opt)
    raise ValueError(config)


def _species(content: str, spectrum: str):
    nb, nf = CONTENTS[content]
    sb, sf = SPECTRA[spectrum]
    xb = [sb[i % len(sb)] for i in range(len(nb))]
    xf = [sf[i % len(sf)] for i in range(len(nf))]
    return np.array(nb), np.array(xb), np.array(nf), np.array(xf)


def _tolJ(config: str, kind: str, x: float, pieces) -> float:
    """Tolerance on Re J(x) as seen through the given integral configuration."""
    if config == "direct" or not (XLO <= x <= XHI):
        return tol_value(x, pieces, "re")
    return tol_spline(kind, x, pieces, "re")


def potential_cases() -> list[dict]:
    out = []
    for c in CONTENTS:
        for s in SPECTRA:
            for T in TEMPS:
                for cfg in CONFIGS:
                    out.append({"id": f"n={c},{s},T={T:g},{cfg}", "content": c, "spectrum": s, "T": T, "config": cfg})
    return with_ids(out)


def case_potential(p: dict) -> dict:
    r = Rel(p["id"])
    nb, xb, nf, xf = _species(p["content"], p["spectrum"])
    T = float(p["T"])
    cfg = p["config"]
    pot = _make_pot(cfg)
    bos = (xb * T**2, nb, np.full(len(nb), 1.5), np.full(len(nb), 1.0))
    fer = (xf * T**2, nf, np.full(len(nf), 1.5), np.full(len(nf), 1.0))
    keep = [np.array(a, dtype=float) for a in bos + fer]
    try:
        V = float(np.asarray(pot.potentialOneLoopThermal(bos, fer, T)))
        # the spectrum handed over is the caller's: it must come back untouched, and the SAME tuples give the same value again
        # (on this object, at this and at another temperature after which it is asked once more, and through the zero-temperature part)
        if not r.true("spectrum-arguments-untouched", all(np.array_equal(a, b) for a, b in zip(bos + fer, keep))):
            return r.result()  # nothing sensible can be asked of corrupted inputs (and quadratures on them may crawl)
        V2 = float(np.asarray(pot.potentialOneLoopThermal(bos, fer, T)))
        r.close("same-spectrum-again", V2, V, 0.0)
        pot.potentialOneLoopThermal(bos, fer, 1.7 * T)
        cw1 = np.asarray(pot.potentialOneLoop(bos, fer))
        V3 = float(np.asarray(pot.potentialOneLoopThermal(bos, fer, T)))
        r.close("same-spectrum-after-other-uses", V3, V, 0.0)
        r.true("spectrum-arguments-untouched-after-all-uses", all(np.array_equal(a, b) for a, b in zip(bos + fer, keep)))
        cw2 = np.asarray(_make_pot(cfg).potentialOneLoop(tuple(np.array(a) for a in keep[:4]), tuple(np.array(a) for a in keep[4:])))
        r.true("zero-temperature-part-same-as-on-fresh-copies", np.array_equal(cw1, cw2, equal_nan=True), got=repr(cw1)[:80], want=repr(cw2)[:80])
    except Exception as e:
        r.true("value-returned", False, error=repr(e))
        return r.result()
    pref = T**4 / (2 * math.pi**2)
    ref, tol, bound, btol = 0.0, 0.0, 0.0, 0.0
    terms = 0.0
    for kind, ns, xs in (("b", nb, xb), ("f", nf, xf)):
        for n, x in zip(ns, xs):
            xe = float(x)
            if cfg == "default-interpolation" and not (XLO <= xe <= XHI):
                # CONSTANT extrapolation is what this constructor asks for: the reference is J at the table end
                xe = XLO if xe < XLO else XHI
                r.tag("constant-extrapolation-used")
            re, _, err, pieces = O.quad_pieces(kind, xe)
            ref += n * float(re)
            tj = _tolJ(cfg, kind, xe, pieces)
            tol += n * tj
            terms += n * abs(float(re))
            if xe > 0:
                bound += n * 2.0 * float(-O.boltzmann(xe))
                btol += n * tj
    tol = pref * (tol + 64 * EPS * terms)
    r.close("thermal-vs-reference", V, pref * ref, tol)
    r.detail.update(V=V, ref=pref * ref)
    r.tag(f"spectrum-{p['spectrum']}", f"config-{cfg}")
    if p["spectrum"] == "zero":
        sb = -(nb.sum() + 7.0 / 8.0 * nf.sum()) * math.pi**2 * T**4 / 90.0
        r.close("stefan-boltzmann", V, sb, tol)
    if p["spectrum"] == "heavy":
        # every species has x >= 400: |V| <= T^4/(2 pi^2) sum n (2 x K_2(sqrt x) + tolerance on J)
        r.true("boltzmann-bound", abs(V) <= pref * (bound + btol), V=V, bound=pref * bound, slack=pref * btol)
        r.true("heavy-nonpositive", V <= pref * btol, V=V)
    # array temperature: same numbers as scalar calls (the broadcasting "reshaping mess" of the code)
    Ts = np.array([T, 2.0 * T])
    try:
        bosA = (np.outer(Ts**2, xb) if len(xb) else np.zeros((2, 0)), nb, bos[2], bos[3])
        ferA = (np.outer(Ts**2, xf) if len(xf) else np.zeros((2, 0)), nf, fer[2], fer[3])
        VA = np.asarray(pot.potentialOneLoopThermal(bosA, ferA, Ts), dtype=float)
        V2 = float(np.asarray(pot.potentialOneLoopThermal((xb * (2 * T) ** 2,) + bos[1:], (xf * (2 * T) ** 2,) + fer[1:], 2 * T)))
        r.true("array-T-shape", VA.shape == (2,), shape=list(VA.shape))
        # identical arguments m^2/T^2 up to rounding of the products: differences are rounding x |dJ/dx| only
        r.close("array-T-equals-scalar", VA, [V, V2], 1e-9 * 16 * pref * max(terms, 1e-30) + 16 * tol)
        r.close("T4-scaling", V2, 16.0 * V, 32 * tol)
    except Exception as e:
        r.true("array-T-returned", False, error=repr(e))
    return r.result(nontrivial=(terms > 0))


def continuity_cases() -> list[dict]:
    out = []
    for kind in KINDS:
        for x0 in (0.0, XLO, XHI):
            for delta in (1e-3, 1e-6, 1e-9):
                for cfg in CONFIGS:
                    for T in (1e-2, 1e2):
                        out.append({"id": f"{kind},x0={x0:g},d={delta:g},{cfg},T={T:g}", "kind": kind, "x0": x0,
                                    "delta": delta, "config": cfg, "T": T})
    return with_ids(out)


def case_continuity(p: dict) -> dict:
    r = Rel(p["id"])
    kind, x0, dl, cfg, T = p["kind"], p["x0"], p["delta"], p["config"], p["T"]
    pot = _make_pot(cfg)
    n = 3.0
    vals = []
    for x in (x0 - dl, x0 + dl):
        m2, dof = np.array([x * T**2]), np.array([n])
        spec = (m2, dof, np.array([1.5]), np.array([1.0]))
        none = (np.array([]), np.array([]), np.array([]), np.array([]))
        try:
            v = pot.potentialOneLoopThermal(spec, none, T) if kind == "b" else pot.potentialOneLoopThermal(none, spec, T)
            vals.append(float(np.asarray(v)))
        except Exception as e:
            r.true("value-returned", False, error=repr(e), x=x)
            return r.result()
    pref = n * T**4 / (2 * math.pi**2)
    # "continuous" = V changes across the step by what the reference integral changes, up to the accuracy of the two
    # evaluations (no extra jump at m^2 = 0 where the code switches branch, nor at the ends of the table where it
    # switches from the spline to direct evaluation / constant continuation).
    const = cfg == "default-interpolation" and x0 != 0.0
    tj, jr = 0.0, []
    for x in (x0 - dl, x0 + dl):
        xe = min(max(x, XLO), XHI) if const else x  # CONSTANT continuation requested by this constructor
        re, _, _, pieces = O.quad_pieces(kind, xe)
        jr.append(float(re))
        tj += _tolJ(cfg, kind, xe, pieces)
    if const:
        # spline against itself over a step dl inside the table: only its slope error (3 x value band / h) times dl
        pieces = O.quad_pieces(kind, x0)[3]
        tj = tol_spline(kind, x0, pieces, "re", deriv=True) * dl + 64 * EPS * 20.0
    r.close("continuous", (vals[1] - vals[0]) / pref, jr[1] - jr[0], tj, step_in_reference=jr[1] - jr[0])
    r.tag(f"across-{x0:g}", f"config-{cfg}")
    return r.result()


# ----------------------------------------------------------------------------- Coleman-Weinberg + imaginary options
def cw_cases() -> list[dict]:
    out = []
    for m2 in (0.0, 1e-8, 1.0, 2500.0, 1e8, -1e-8, -1.0, -2500.0):
        for n in (1.0, 3.0, 12.0):
            for c in (1.5, 5.0 / 6.0, 0.5):
                for mu in (1.0, 91.1876, 1e3):
                    out.append({"id": f"jCW,m2={m2:g},n={n:g},c={c:.4g},mu={mu:g}", "what": "jcw", "m2": m2, "n": n, "c": c, "mu": mu})
    for spec in ("positive", "negative-boson", "negative-fermion", "negative-both", "with-zero"):
        for opt in ("ERROR", "ABS_ARGUMENT", "ABS_RESULT", "PRINCIPAL_PART"):
            for shape in ("point", "array"):
                for part in ("cw", "thermal"):
                    out.append({"id": f"{part},{spec},{opt},{shape}", "what": part, "spec": spec, "option": opt, "shape": shape})
    return with_ids(out)


CW_SPECS = {  # (boson m^2, fermion m^2) in units where T = 1 / mu = 1
    "positive": ([0.3, 2.0, 7.5], [0.1, 4.0]),
    "negative-boson": ([0.3, -2.0, 7.5], [0.1, 4.0]),
    "negative-fermion": ([0.3, 2.0, 7.5], [-0.1, 4.0]),
    "negative-both": ([-0.3, -2.0, 7.5], [-0.1, 4.0]),
    "with-zero": ([0.0, 2.0, 7.5], [0.0, 4.0]),
}


def _jcw_ref(m2, n, c, mu):
    import mpmath as mp

    with mp.workdps(30):
        m2 = mp.mpf(m2)
        if m2 == 0:
            return mp.mpc(0)
        lg = mp.log(abs(m2) / mp.mpf(mu) ** 2) + (mp.pi * 1j if m2 < 0 else 0)  # ln(-a + i0) = ln a + i pi
        return mp.mpf(n) * m2**2 * (lg - mp.mpf(c)) / (64 * mp.pi**2)


def case_cw(p: dict) -> dict:
    import mpmath as mp

    r = Rel(p["id"])
    P = _pot_class()
    if p["what"] == "jcw":
        m2, n, c, mu = p["m2"], p["n"], p["c"], p["mu"]
        ref = _jcw_ref(m2, n, c, mu)
        scale = float(n * m2**2 * (abs(math.log(abs(m2) / mu**2)) + math.pi + c) / (64 * math.pi**2)) if m2 != 0 else 0.0
        try:
            got = complex(P.jCW(m2, n, c, mu))
            gotA = np.asarray(P.jCW(np.array([m2, m2]), np.array([n, n]), np.array([c, c]), np.array([mu, mu])))
        except Exception as e:
            r.true("value-returned", False, error=repr(e))
            return r.result()
        tol = 64 * EPS * scale
        r.true("finite", math.isfinite(got.real) and math.isfinite(got.imag), got=[got.real, got.imag])
        r.close("jcw-re", got.real, float(mp.re(ref)), tol)
        r.close("jcw-im", got.imag, float(mp.im(ref)), tol)
        r.close("jcw-array-re", np.real(gotA), [float(mp.re(ref))] * 2, tol)
        r.close("jcw-array-im", np.imag(gotA), [float(mp.im(ref))] * 2, tol)
        r.tag("m2=0" if m2 == 0 else ("m2>0" if m2 > 0 else "m2<0"))
        return r.result(nontrivial=(m2 != 0))
    # potentialOneLoop / potentialOneLoopThermal with the four options
    mb, mf = CW_SPECS[p["spec"]]
    nb, nf = [1.0, 3.0, 6.0], [12.0, 4.0]
    cb, cf = [1.5, 1.5, 5.0 / 6.0], [1.5, 1.5]
    mu = 1.7
    opt = p["option"]
    anyneg = min(mb + mf) < 0
    pot = _make_pot("direct", opt)
    rep = 2 if p["shape"] == "array" else 1

    def arr(v):
        a = np.array(v, dtype=float)
        return np.tile(a, (rep, 1)) if p["shape"] == "array" else a

    bos = (arr(mb), np.array(nb), np.array(cb), np.full(3, mu))
    fer = (arr(mf), np.array(nf), np.array(cf), np.full(2, mu))
    if p["what"] == "cw":
        call = lambda: pot.potentialOneLoop(bos, fer)  # noqa: E731
        use = (lambda v: abs(v)) if opt == "ABS_ARGUMENT" else (lambda v: v)
        tot = sum(_jcw_ref(use(m), n, c, mu) for m, n, c in zip(mb, nb, cb)) - sum(
            _jcw_ref(use(m), n, c, mu) for m, n, c in zip(mf, nf, cf))
        scale = sum(abs(_jcw_ref(m, n, c, mu)) for m, n, c in zip(mb + mf, nb + nf, cb + cf))
        tol = 64 * EPS * float(scale) + 1e-300
        accept = None
    else:
        T = 1.0
        Tin = np.array([T, T]) if p["shape"] == "array" else T
        call = lambda: pot.potentialOneLoopThermal(bos, fer, Tin)  # noqa: E731
        use = (lambda v: abs(v)) if opt == "ABS_ARGUMENT" else (lambda v: v)
        tot, tol = mp.mpc(0), 0.0
        for kind, ms, ns in (("b", mb, nb), ("f", mf, nf)):
            for m, n in zip(ms, ns):
                re, im, _, pieces = O.quad_pieces(kind, use(m))
                tot += n * mp.mpc(re, im)
                tol += n * tol_value(use(m), pieces, "re")
        tot = tot / (2 * mp.pi**2)
        tol = tol / (2 * math.pi**2)
    try:
        got = np.asarray(call())
        raised = None
    except ValueError as e:
        got, raised = None, e
    except Exception as e:
        r.true("value-or-ValueError", False, error=repr(e))
        return r.result()
    r.tag(f"option-{opt}", "negative-masses" if anyneg else "non-negative-masses")
    if opt == "ERROR" and anyneg:
        r.true("error-option-raises", raised is not None, got=None if got is None else np.asarray(got).tolist())
        return r.result()
    if raised is not None:
        r.true("no-exception-expected", False, error=repr(raised))
        return r.result()
    r.true("result-shape", got.shape == ((rep,) if p["shape"] == "array" else ()), shape=list(got.shape))
    r.true("result-real", not np.iscomplexobj(got) or float(np.max(np.abs(np.imag(got)))) == 0.0)
    g = np.real(got).astype(float).ravel()
    if opt == "ABS_RESULT" and anyneg:
        if p["what"] == "cw":
            want = [float(abs(tot))]
        else:  # documentation ambiguous for the thermal part: |Re V| (what keeping the real column gives) or |V|
            want = [abs(float(mp.re(tot))), float(abs(tot))]
    else:
        want = [float(mp.re(tot))]
    errs = [float(np.max(np.abs(g - w))) for w in want]
    k = int(np.argmin(errs))
    if len(want) == 2:
        r.tag("abs-result-is-" + ("abs-of-real-part" if k == 0 else "complex-modulus"))
    r.close(f"{p['what']}-value", g, [want[k]] * len(g), tol)
    return r.result()


# ----------------------------------------------------------------------------- (H) shared defaultIntegrals
H_INSIDE = [-19.9, -9.9, -5.0, -0.0060006, 0.0, 0.05, 3.0, 500.0, 999.9]
H_OUTSIDE = [-25.0, 1001.0]
H_OPS = [("construct", "default-interpolation"), ("construct", "direct"), ("construct", "passed-default"),
         ("set", "NONE", "NONE"), ("set", "FUNCTION", "FUNCTION"), ("probe-outside",),
         # ANOTHER potential (built with the defaults: its own Integrals object, direct evaluation) tabulates its own J_b on [0, 10]
         # with constant continuation - as the shipped models do with their own table files. Nobody else's integrals may change.
         ("other-potential-configures-its-integrals",)]
H_INITIAL = [("NONE", "NONE"), ("ERROR", "ERROR"), ("CONSTANT", "NONE"), ("FUNCTION", "CONSTANT")]


def _h_fresh():
    """Shared object as it is right after `import WallGo.PotentialTools` (tables re-read through WallGo)."""
    PT = _PT()
    PT.defaultIntegrals = PT.Integrals()
    PT.defaultIntegrals.Jb.disableAdaptiveInterpolation()
    PT.defaultIntegrals.Jf.disableAdaptiveInterpolation()
    PT._initalizeIntegralInterpolations()
    return PT.defaultIntegrals


def _h_observe_inside(d) -> dict:
    xs = np.array(H_INSIDE)
    out = {}
    for name, J in (("b", d.Jb), ("f", d.Jf)):
        out[name + "-array"] = np.asarray(J(xs), dtype=float)
        out[name + "-scalar"] = np.array([np.asarray(J(float(x)), dtype=float).ravel() for x in xs])
        out[name + "-deriv"] = np.asarray(J.derivative(xs, 1, True), dtype=float)
    return out


def _h_potential_value(cfg: str) -> np.ndarray:
    P = _pot_class()
    from WallGo.PotentialTools import EImaginaryOption

    PT = _PT()
    if cfg == "default-interpolation":
        pot = P(useDefaultInterpolation=True, imaginaryOption=EImaginaryOption.PRINCIPAL_PART)
    elif cfg == "passed-default":
        pot = P(integrals=PT.defaultIntegrals, imaginaryOption=EImaginaryOption.PRINCIPAL_PART)
    else:
        pot = P(imaginaryOption=EImaginaryOption.PRINCIPAL_PART)
    mb, mf = np.array([0.0, 0.3, -4.0, 50.0]), np.array([0.0, 2.0, 700.0])
    nb, nf = np.array([1.0, 3.0, 1.0, 6.0]), np.array([12.0, 4.0, 2.0])
    out = []
    for T in (0.5, 1.0, 3.0):
        out.append(float(np.asarray(pot.potentialOneLoopThermal((mb * T * T, nb, 0, 0), (mf * T * T, nf, 0, 0), T))))
    return np.array(out)


def _h_apply(d, op):
    from WallGo import EExtrapolationType as E

    if op[0] == "construct":
        return _h_potential_value(op[1])
    if op[0] == "set":
        for J in (d.Jb, d.Jf):
            J.setExtrapolationType(getattr(E, op[1]), getattr(E, op[2]))
        return None
    if op[0] == "other-potential-configures-its-integrals":
        other = _pot_class()()
        other.integrals.Jb.newInterpolationTable(0.0, 10.0, 60)
        other.integrals.Jb.setExtrapolationType(E.CONSTANT, E.CONSTANT)
        return None
    if op[0] == "probe-outside":
        out = []
        for J in (d.Jb, d.Jf):
            for x in H_OUTSIDE:
                try:
                    out.append([round(float(v), 9) for v in np.asarray(J(x), dtype=float).ravel()])
                except Exception as e:
                    out.append(type(e).__name__)
        return out
    raise ValueError(op)


def _h_key(d) -> str:
    from .. import bfs

    obs = {}
    for name, J in (("b", d.Jb), ("f", d.Jf)):
        obs[name] = {
            "lower": J.extrapolationTypeLower, "upper": J.extrapolationTypeUpper, "adaptive": J._bUseAdaptiveInterpolation,
            "n": J.numPoints(), "min": float(J.interpolationRangeMin()), "max": float(J.interpolationRangeMax()),
            "extrapolate-flag": bool(J._interpolatedFunction.extrapolate),
        }
    # state that is NOT on the shared object but decides future observations: what a potential built with the defaults starts from
    probe = _pot_class()()
    obs["fresh-default-potential"] = {"Jb-has-table": bool(probe.integrals.Jb.hasInterpolation()), "Jf-has-table": bool(probe.integrals.Jf.hasInterpolation()),
                                      "shares-default-object": probe.integrals is _PT().defaultIntegrals}
    return bfs.digest(obs)


def case_history(p: dict) -> dict:
    from .. import bfs

    r = Rel(p["id"])
    init = tuple(p["initial"])
    d0 = _h_fresh()
    base_inside = _h_observe_inside(d0)
    base_V = {}
    for cfg in ("default-interpolation", "direct", "passed-default"):
        _h_fresh()
        base_V[cfg] = _h_potential_value(cfg)
    def build(history):
        d = _h_fresh()
        for op in history:
            _h_apply(d, tuple(op))
        return d

    def ops(d, history):
        return H_OPS

    def check(d, history, op, outcome):
        bad = []
        hid = ">".join(":".join(str(t) for t in o) for o in history) or "initial"
        try:
            now = _h_observe_inside(d)
        except Exception as e:
            return [{"relation": f"inside-evaluates@{hid}", "detail": {"error": repr(e)}}]
        for k, v in now.items():
            err = float(np.max(np.abs(v - base_inside[k])))
            # same knots, same spline coefficients: bit-identical is expected; 64 eps x |value| allowed
            if not err <= 64 * EPS * 20.0:
                bad.append({"relation": f"inside-equal-{k}@{hid}", "detail": {"err": err}})
        if op is not None and op[0] == "construct":
            err = float(np.max(np.abs(np.asarray(outcome) - base_V[op[1]])))
            if not err <= 64 * EPS * float(np.max(np.abs(base_V[op[1]]))) * 8:
                bad.append({"relation": f"potential-equal-{op[1]}@{hid}", "detail": {"err": err, "got": outcome, "want": base_V[op[1]]}})
        r.n += len(now) + 1
        return bad

    h0 = [("set",) + init]
    try:
        res = bfs.explore(build, ops, _h_apply, _h_key, check, depth=p["depth"], initial_histories=[h0])
    except RuntimeError as e:
        if "nondeterministic replay" not in str(e):
            raise
        # the same history replayed on freshly initialised shared objects reaches a different state: something outside the objects
        # this check re-initialises (a class-level or module-level object) carries state from one replay to the next
        r.true("history-replay-deterministic(no hidden shared state)", False, error=str(e)[:400])
        return r.result(nontrivial=True)
    r.viol.extend({"relation": v["relation"], "detail": {**(v.get("detail") or {}), "history": v["history"]}} for v in res.violations)
    r.detail.update(states=res.states, transitions=res.transitions, max_depth=res.max_depth,
                    outcomes={k: len(v) for k, v in res.outcomes.items()}, samples=res.samples)
    r.tag(f"history-initial-{init[0]}/{init[1]}")
    if len(res.outcomes.get("probe-outside", ())) > 1:
        r.tag("outside-value-depends-on-history")
    return r.result(nontrivial=res.transitions > 0)


# ----------------------------------------------------------------------------- (H) one potential object in long use
LONG_SCAN = 640  # distinct temperatures of the scan (more than any internal "evaluate so many points, then tabulate" threshold I could find: 500)


def longuse_cases() -> list[dict]:
    out = []
    for how in ("default-constructor", "own-Integrals-object"):
        for kind in ("tachyonic+heavy", "light-only"):
            out.append({"id": f"potential={how},scan={kind},temperatures={LONG_SCAN}", "how": how, "scan": kind})
    return with_ids(out)


def case_longuse(p: dict) -> dict:
    """A potential that evaluates its integrals directly (built with the defaults / with its own Integrals()) is used the way a
    phase tracer uses it - hundreds of evaluations at distinct temperatures with masses from tachyonic to heavy - and is then
    asked for the limits the property states. The answers must be those of the defining integrals whatever the object did before."""
    from WallGo.PotentialTools import EImaginaryOption

    r = Rel(p["id"])
    PT = _PT()
    P = _pot_class()
    pot = P(imaginaryOption=EImaginaryOption.PRINCIPAL_PART) if p["how"] == "default-constructor" else P(
        integrals=PT.Integrals(), imaginaryOption=EImaginaryOption.PRINCIPAL_PART)
    nb, nf = np.array([1.0, 3.0, 6.0]), np.array([12.0, 4.0])
    one = np.ones(3), np.ones(2)

    def V(xb, xf, T):
        return float(np.asarray(pot.potentialOneLoopThermal((np.asarray(xb) * T * T, nb, 1.5 * one[0], one[0]), (np.asarray(xf) * T * T, nf, 1.5 * one[1], one[1]), T)))

    probes = {"massless": ([0.0, 0.0, 0.0], [0.0, 0.0]), "light": ([0.05, 0.3, 1.0], [0.02, 0.5]), "tachyonic": ([-0.5, 0.3, -4.0], [0.02, 0.5]),
              "heavy": ([400.0, 650.0, 900.0], [500.0, 700.0])}
    temps = (0.7, 1.0, 60.0)

    def observe():
        return {f"{k}@T={T:g}": V(xb, xf, T) for k, (xb, xf) in probes.items() for T in temps}

    def judge(tag, obs):
        for T in temps:
            sb = -(nb.sum() + 7.0 / 8.0 * nf.sum()) * math.pi**2 * T**4 / 90.0
            # Stefan-Boltzmann: J_b(0) = -pi^4/45, J_f(0) = -7 pi^4/360; quad's own promise 1.49e-8 per integral (as in section potential)
            r.close(f"{tag}:stefan-boltzmann@T={T:g}", obs[f"massless@T={T:g}"], sb, T**4 / (2 * math.pi**2) * (nb.sum() + nf.sum()) * 1.49e-8)
            pref = T**4 / (2 * math.pi**2)
            for k, (xb, xf) in probes.items():
                ref = tol = 0.0
                for kind, ns, xs in (("b", nb, xb), ("f", nf, xf)):
                    for n, x in zip(ns, xs):
                        re, _, err, pieces = O.quad_pieces(kind, float(x))
                        ref += n * float(re)
                        tol += n * tol_value(float(x), pieces, "re")
                r.close(f"{tag}:{k}-vs-defining-integral@T={T:g}", obs[f"{k}@T={T:g}"], pref * ref, pref * tol + 64 * EPS * abs(pref * ref))

    def tables():
        return [bool(pot.integrals.Jb.hasInterpolation()), bool(pot.integrals.Jf.hasInterpolation())]

    try:
        first = observe()
        judge("fresh", first)
        r.true("fresh:no-table(direct evaluation was asked for)", tables() == [False, False], tables=tables())
        # the scan: LONG_SCAN distinct temperatures, mass parameters fixed in absolute terms so that m^2/T^2 sweeps a wide range
        if p["scan"] == "tachyonic+heavy":
            m2b, m2f = np.array([-4.0, 30.0, 225.0]), np.array([0.5, 180.0])
        else:
            m2b, m2f = np.array([0.01, 0.3, 2.0]), np.array([0.02, 0.5])
        for i in range(LONG_SCAN):
            T = 1.0 + 3.0 * i / LONG_SCAN
            pot.potentialOneLoopThermal((m2b, nb, 1.5 * one[0], one[0]), (m2f, nf, 1.5 * one[1], one[1]), T)
        after = observe()
        judge("after-scan", after)
        r.true("after-scan:no-table(direct evaluation was asked for)", tables() == [False, False], tables=tables())
        for k in first:  # direct evaluation is a pure function of its argument: identical bits
            r.close(f"after-scan==fresh:{k}", after[k], first[k], 0.0)
        # ... and the same through a freshly built object
        pot2 = P(imaginaryOption=EImaginaryOption.PRINCIPAL_PART)
        pot, keep = pot2, pot
        fresh2 = observe()
        pot = keep
        for k in first:
            r.close(f"after-scan==other-fresh-object:{k}", after[k], fresh2[k], 0.0)
    except Exception as e:  # noqa: BLE001
        r.true("no-exception", False, error=repr(e)[:400])
    r.tag(f"longuse-{p['how']}", f"scan-{p['scan']}")
    return r.result()


# ----------------------------------------------------------------------------- driver
SECTIONS = {
    "direct": case_direct,
    "direct-scan": case_scan,
    "table-rows": case_row,
    "table-mid": case_mid,
    "table-smooth": case_smooth,
    "potential": case_potential,
    "continuity": case_continuity,
    "cw": case_cw,
    "history": case_history,
    "long-use": case_longuse,
}


def run(ctx) -> None:
    only = getattr(ctx, "only", None)

    def want(name):
        return only in (None, name)

    for k in KINDS:  # load the raw tables before the workers are forked
        _table(k)
    if want("direct"):
        ctx.run_lattice("direct", direct_cases(), case_direct, timeout=600)
    if want("direct-scan"):
        ctx.run_lattice("direct-scan", scan_cases(), case_scan, timeout=600)
    rows = row_cases(ctx.tier)
    if want("table-rows"):
        ctx.run_lattice("table-rows", rows, case_row, timeout=600)
    if want("table-smooth"):
        ctx.run_lattice("table-smooth", with_ids([{"id": f"J{k}-col{c}", "kind": k, "col": c} for k in KINDS for c in (1, 2)]),
                        case_smooth, timeout=900)
    if want("table-mid"):
        mids = [dict(c) for c in rows if c["row"] < NROWS - 1]
        ctx.run_lattice("table-mid", mids, case_mid, timeout=600)
    if want("potential"):
        ctx.run_lattice("potential", potential_cases(), case_potential, timeout=90)
    if want("continuity"):
        ctx.run_lattice("continuity", continuity_cases(), case_continuity, timeout=600)
    if want("cw"):
        ctx.run_lattice("cw", cw_cases(), case_cw, timeout=600)
    if want("history"):
        cases = with_ids([{"id": f"initial={a}/{b}", "initial": [a, b], "depth": 3} for a, b in H_INITIAL])
        res = ctx.run_lattice("history", cases, case_history, timeout=1500)
        dets = [x.get("detail") if isinstance(x.get("detail"), dict) else {} for x in res]
        st = sum(d.get("states", 0) for d in dets)
        tr = sum(d.get("transitions", 0) for d in dets)
        ctx.add_bfs(st, tr, tr)
        ctx.note("history", {"depth": 3, "ops": [list(o) for o in H_OPS], "initial_mode_pairs": [list(i) for i in H_INITIAL],
                             "distinct_outcomes": [d.get("outcomes") for d in dets]})
    if want("long-use"):
        ctx.run_lattice("long-use", longuse_cases(), case_longuse, timeout=900)
    nrows = len(row_selection(ctx.tier))
    ctx.note("table_rows_checked_against_reference", {"per_table": nrows, "of": NROWS})
    ctx.note("table_rows_smoothness_tested", "all rows with x >= 5.2 (rows below are all compared with the reference in both tiers)")
    ctx.exhaustive = bool(ctx.tier == "thorough" and only is None)


def replay(rep: dict) -> dict:
    for k in KINDS:
        _table(k)
    fn = SECTIONS[rep["section"]]
    return fn(rep["params"])
