"""Shared EOS x Tn x vw lattice for the hydrodynamics properties C02, C03, C05, C06, C15."""
from __future__ import annotations

import numpy as np

from ..oracles import eos as E

TIGHT = dict(rtol=1e-9, atol=1e-12, name="tight")
DEFAULT = dict(rtol=1e-6, atol=1e-10, name="default")
TMAX, TMIN = 10.0, 0.01


QUADS = {  # (a_s, b_s, c_s, a_b, b_b, c_b) of oracles.eos.Quad: temperature-dependent sound speeds, physical down to 0.3 Tn
    "Q1": (1, 0, -0.1, 0.6, 0.3, 0),  # c_b^2(T) > 1/3, rising towards low T (0.39 ... 0.46); c_s^2 = 1/3
    "Q2": (1, 0, 0, 0.9, -0.1, 0.2),  # c_b^2(T) < 1/3, falling towards low T
    "Q3": (1, -0.1, 0, 0.85, 0, 0.05),  # c_s^2(T) < 1/3 varying, c_b^2 = 1/3
    "Q4": (1, -0.1, 0, 0.6, 0.3, 0),  # both vary, c_b > c_s
    "Q6": (1, 0.2, -0.3, 0.7, 0.4, 0),  # both vary, both above 1/3, strong transition
}


def eos_lattice(tier: str, families=("bag", "template", "twostep", "quad")) -> list[dict]:
    """Each entry: dict(kind=..., args=[...], Tn=...) - admissibility is decided at run time."""
    out = []
    units = [1.0, 1e-2, 1e2] if tier == "quick" else [1.0, 1e-2, 1e2, 1e-3, 1e3]
    if "bag" in families:
        for psi in (0.5, 0.8, 0.95):
            for tn in (0.6, 0.8, 0.95):
                for s in units if psi == 0.8 else units[:1]:
                    out.append(dict(kind="bag", args=[psi], Tn=tn, s=s))
    if "template" in families:
        als = [1e-3, 1e-2, 0.05, 0.1, 0.3, 0.6, 1.0]
        psis = [0.5, 0.75, 0.95, 1.0]
        cs = [0.2, 0.27, 1 / 3]
        for al in als:
            for psi in psis:
                for cb2 in cs:
                    for cs2 in cs:
                        if tier == "quick" and (al in (1e-3, 0.6) or psi == 0.75) and not (cb2 == cs[1] and cs2 == cs[2]):
                            continue  # quick: thin out the interior of the box, keep its faces
                        for s in units if (al == 0.1 and psi == 0.95 and cb2 == cs[1]) else units[:1]:
                            out.append(dict(kind="template", args=[al, psi, cb2, cs2], Tn=1.0, s=s))
        # points just below the runaway threshold of the LTE velocity with cb^2 < cs^2: the LTE root is a fast hybrid whose
        # shock front is close to the wall (v+ vw between cb^2 and cs^2) - a region the regular box does not reach
        for (al, psi, cb2, cs2) in ((0.21, 0.8, 0.30, 1 / 3), (0.19, 0.8, 0.30, 1 / 3), (0.2, 0.9, 0.25, 0.31)):
            out.append(dict(kind="template", args=[al, psi, cb2, cs2], Tn=1.0, s=1.0))
    if "twostep" in families:
        for (ab, a_s, mu2) in ((0.2, 0.1, 0.4), (0.3, 0.1, 0.5), (0.15, 0.12, 0.3)):
            for tn in (0.5, 0.7, 0.9):
                for s in units if (ab == 0.2 and tn == 0.7) else units[:1]:
                    out.append(dict(kind="twostep", args=[ab, a_s, mu2], Tn=tn, s=s))
        out.append(dict(kind="twostep", args=[0.4, 0.1, 0.6], Tn=0.8, s=1.0))  # fast-hybrid LTE root (0.709 < vJ)
    if "quad" in families:
        pts = [("Q1", 0.6), ("Q1", 0.8), ("Q2", 0.8), ("Q3", 0.8), ("Q4", 0.9), ("Q6", 0.7)]
        if tier != "quick":
            pts += [("Q1", 0.95), ("Q2", 0.9), ("Q3", 0.95), ("Q4", 0.8), ("Q6", 0.9)]
        for (q, tn) in pts:
            for s in units if (q == "Q1" and tn == 0.8) else units[:1]:
                out.append(dict(kind="quad", args=list(QUADS[q]), Tn=tn, s=s, label=q))
    for c in out:
        if c["kind"] == "quad":
            c["id"] = f"quad({c['label']}),Tn={c['Tn']:g},units={c['s']:g}"
            continue
        c["id"] = f"{c['kind']}({','.join(f'{a:.4g}' for a in c['args'])}),Tn={c['Tn']:g},units={c['s']:g}"
    return out


def build_eos(c: dict) -> tuple[E.EOS, float]:
    """Returns (eos in the chosen units, Tn in those units)."""
    s = c.get("s", 1.0)
    if c["kind"] == "bag":
        base = E.Bag(c["args"][0], c["Tn"])
    elif c["kind"] == "template":
        base = E.Template(*c["args"], c["Tn"])
    elif c["kind"] == "twostep":
        base = E.TwoStep(*c["args"])
    elif c["kind"] == "quad":
        base = E.Quad(*c["args"])
    else:
        raise ValueError(c["kind"])
    if s != 1.0:
        return E.Scaled(base, s), c["Tn"] * s
    return base, c["Tn"]


def admissible(eos: E.EOS, Tn: float) -> str | None:
    """First-order transition with the broken phase favoured at Tn and positive sound speeds."""
    if not (eos.p("b", Tn) > eos.p("s", Tn)):
        return "broken phase not favoured at Tn"
    for ph in ("s", "b"):
        for t in (0.3 * Tn, Tn, 3 * Tn):
            c = eos.csq(ph, t)
            if not (0 < c < 1) or not eos.w(ph, t) > 0:
                return f"unphysical sound speed/enthalpy in phase {ph} at {t / Tn:g} Tn"
    if not eos.alpha_n(Tn) > 0:
        return "alpha_n <= 0"
    return None


def make_hydro(eos: E.EOS, Tn: float, tol: dict, ranges=None, window=None):
    """window = (tmin, tmax) of the hydrodynamic temperature window in units of Tn (default 0.01, 10 as in the configuration file)."""
    import WallGo

    th = eos.thermo(Tn, ranges)
    tmin, tmax = window if window else (TMIN, TMAX)
    # The Thermodynamics object has been used before - by ANOTHER Hydrodynamics object with the same settings at another nucleation
    # temperature, the way a scan over Tn re-uses one equation of state (thermo.Tnucl = Tn; Hydrodynamics(thermo, ...)). Nothing of
    # that earlier object may reach the one under test (every relation of C02/C03/C05/C06/C15 is judged on the second object).
    try:
        th.Tnucl = 0.93 * Tn
        WallGo.Hydrodynamics(th, tmax, tmin, tol["rtol"], tol["atol"])
    except Exception:  # noqa: BLE001 - the earlier point of the scan need not be a good one
        pass
    finally:
        th.Tnucl = Tn
    return WallGo.Hydrodynamics(th, tmax, tmin, tol["rtol"], tol["atol"]), th


def velocity_lattice(hyd, eos: E.EOS, Tn: float, n_extra: int = 0) -> list[tuple[str, float]]:
    """16 wall velocities from max(vMin, 2e-3) to 0.99 incl. both sides of cb and vJ."""
    vJ = float(hyd.vJ)
    vmin = max(float(hyd.vMin), 2e-3)
    cb = float(np.sqrt(eos.csq("b", Tn)))
    pts = [("vmin", vmin * 1.0000001 + 1e-9), ("slow1", 0.01), ("slow2", 0.03), ("v0.1", 0.1), ("v0.2", 0.2), ("v0.3", 0.3),
           ("v0.4", 0.4), ("cb-", cb - 1e-3), ("cb+", cb + 1e-3), ("hyb-mid", 0.5 * (cb + vJ)), ("vJ-", vJ - 1e-4),
           ("vJ+", vJ + 1e-4), ("det-mid", 0.5 * (vJ + 1)), ("v0.9", 0.9), ("v0.99", 0.99), ("v0.05", 0.05)]
    # the deflagration/hybrid boundary is where vw = c_b(T-(vw)), not c_b(Tn): for a temperature-dependent c_b locate it (with the
    # matchings of the code under test - they only choose INPUTS here, the oracles judge) and put points on both sides of it and
    # between it and c_b(Tn)
    vstar = _true_boundary(hyd, eos, cb, vmin, vJ) if abs(eos.csq("b", 0.9 * Tn) - cb * cb) > 1e-9 else None
    if vstar is not None and abs(vstar - cb) > 2e-5:
        pts += [("cbT-", vstar - 1e-4), ("cbT+", vstar + 1e-4)]
        if abs(vstar - cb) > 4e-4:
            pts.append(("cbT|cbTn", 0.5 * (vstar + cb)))
    out = []
    for name, v in pts:
        if v < vmin or v >= 1 or not np.isfinite(v):
            continue
        out.append((name, float(v)))
    return out


def _true_boundary(hyd, eos, cb, vmin, vJ):
    """vw with vw^2 = c_b^2(T-(vw)) near c_b(Tn), by bisection over findMatching; None if not bracketed / not computable."""
    lo, hi = max(vmin, cb - 0.05), min(vJ - 1e-4, cb + 0.05)
    if not lo < hi:
        return None

    def g(v):
        _, _, _, Tm = hyd.findMatching(v)
        return v * v - eos.csq("b", float(Tm))

    try:
        glo, ghi = g(lo), g(hi)
        if not (np.isfinite(glo) and np.isfinite(ghi)) or glo * ghi > 0:
            return None
        for _ in range(22):
            mid = 0.5 * (lo + hi)
            gm = g(mid)
            if not np.isfinite(gm):
                return None
            if gm * glo > 0:
                lo, glo = mid, gm
            else:
                hi, ghi = mid, gm
        return 0.5 * (lo + hi)
    except Exception:
        return None


def branch_of(hyd, eos, v, Tm=None) -> str:
    if v > hyd.vJ:
        return "detonation"
    cb2 = eos.csq("b", Tm) if Tm else eos.csq("b", hyd.Tnucl)
    return "hybrid" if v * v > cb2 else "deflagration"
