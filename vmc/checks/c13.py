"""C13 - out-of-equilibrium moments are the momentum integrals they are defined to be.

(L, complete basis)  BoltzmannSolver.getDeltas(deltaF) is a linear map deltaF -> (Delta00, Delta02, Delta20, Delta11).
Per grid size it is checked on a complete (spanning) set of deviations whose integrand lies in the exactness class
of the Gauss-Chebyshev-Lobatto rule, against closed-form Chebyshev moments; plus linearity on pairs, a smooth
Boltzmann-suppressed deviation against mpmath on a ladder of N, and EOM.deltaToTmunu against the direct integral of
p^mu p^nu deltaF boosted with the oracle's own Lorentz matrix.

Frame conventions (derived, not copied): BoltzmannBackground.velocityMid is the plasma velocity in the wall frame;
BoltzmannSolver.setBackground boosts to the frame moving with velocityMid ("plasma frame"), and the momenta of the
grid are the components in that frame (momentumWall = gamma_w (pz - v_w E) with v_w = -velocityMid in
buildLinearEquations). Hence wall-frame components = Lambda(velocityMid) . plasma-frame components with
Lambda = [[g,0,0,gv],[0,1,0,0],[0,0,1,0],[gv,0,0,g]], and T_wall = Lambda T_pl Lambda^T with
T_pl^{mu nu} = int d^3p/((2pi)^3 E) p^mu p^nu deltaF  (LC22 eq. (14)-(15) is the u/ubar decomposition of this).
"""
from __future__ import annotations

import math

import numpy as np

from ..lattice import Rel, with_ids
from .. import wg
from ..oracles import c13_oracle as O

LEVEL = "exploration"
RULE = (
    "moments: for every (M,N) x momentum scale T0 x mass profile x basis variant x weight w in {1,pz^2,E^2,E pz}: ALL "
    "monomial pairs rho_z^a rho_par^c, a<=2N-3, c<=2N-5 (exactness class of the quadrature with the vanishing-at-infinity "
    "factors); deltaF is built so that w*measure*deltaF*sqrt(1-rho^2) = (1-rho_z^2) rho_z^a (1-rho_par^2) rho_par^c in every "
    "(particle, z) slot (slot-dependent amplitude), value at the p_par=0 node set to a finite non-zero number (it must not "
    "contribute). These deviations span all grid functions, so each of the four linear functionals is determined completely "
    "per grid size. One case = (config, w, a) with all c; linearity on the pairs (c,c+1), c even, and one cross-weight pair. "
    "ladder: smooth Boltzmann-suppressed deltaF, N ladder, vs mpmath (monotone aggregate error, bound at largest N) and vs the "
    "oracle's own Gauss-Chebyshev-Lobatto sum (to rounding). tmunu: v_mid x #particles x T0 x mass profile x every z index. "
    "A case is non-trivial if a non-zero expected value was compared (a even) or an antisymmetric zero (a odd); distinct = case id."
)
ASSUMPTIONS = [
    "exact up to rounding = |got-want| <= 64*eps*sum|quadrature terms| (terms computed by the oracle); for Chebyshev-basis input "
    "the terms are amplified by |B||B^-1| of the coefficient<->grid-value conversion done in the harness",
    "N odd (property quantifier): no node at pz=0, so every weight is non-zero on the grid",
    "deltaF finite at the kept node p_par=0: the measure p_par dp_par vanishes there, so its value must not matter",
    "ladder bounds at the largest N are empirical envelopes (10x the error measured on the pinned tree): convergence for "
    "thermal-like deltaF is only algebraic (log end-point singularities of the tanh/exp compactification); nothing is claimed beyond the ladder",
    "BoltzmannSolver needs an indexable collisionArray for the linearisation criteria computed inside getDeltas; a zero array is injected "
    "with setCollisionArray (the moments do not depend on it)",
]

EPS = O.EPS
WNAMES = O.WEIGHTS


# =============================================================================== building real WallGo objects
def _field_profile(M: int, T0: float) -> np.ndarray:
    """Field values at all M+1 Gauss-Lobatto z nodes (end points included), a tanh wall."""
    chi = O.z_nodes(M, endpoints=True)
    return T0 * (0.6 + 0.5 * np.tanh(1.7 * chi))


MASSFUN = {  # per particle: m^2(phi, T0)
    "zero": [lambda f, T0: 0.0 * f, lambda f, T0: 0.0 * f, lambda f, T0: 0.0 * f],
    "const": [
        lambda f, T0: 0.0 * f + (0.7 * T0) ** 2,
        lambda f, T0: 0.0 * f + (2.3 * T0) ** 2,
        lambda f, T0: 0.0 * f + (1.1 * T0) ** 2,
    ],
    "tanh": [
        lambda f, T0: 0.5 * f**2,
        lambda f, T0: 3.0 * f**2 + (0.1 * T0) ** 2,
        lambda f, T0: 1.3 * f**2,
    ],
}
DOFS = [12, 9, 2]
STATS = ["Fermion", "Boson", "Boson"]


def _particles(mass: str, T0: float, P: int):
    import WallGo

    out = []
    for i in range(P):
        fn = MASSFUN[mass][i]
        out.append(
            WallGo.Particle(
                name=f"p{i}",
                index=i,
                msqVacuum=(lambda flds, fn=fn: fn(flds.getField(0), T0)),
                msqDerivative=(lambda flds: 0.0 * flds),
                statistics=STATS[i],
                totalDOFs=DOFS[i],
            )
        )
    return out


def _solver(M: int, N: int, T0: float, mass: str, basisM: str, basisN: str, P: int, vmid: float = -0.5, rescaled: bool = False):
    """A real Grid/BoltzmannSolver with a synthetic background; returns also the oracle's msq (P, M-1) at interior z.
    rescaled: the grid is built with another momentum scale and brought to T0 by changeMomentumFalloffScale (nodes AND the
    integration measure the moments use must follow)."""
    import WallGo
    from WallGo.grid import Grid

    if rescaled:
        grid = Grid(M, N, 1.0 / T0, 0.4 * T0)
        grid.changeMomentumFalloffScale(T0)
    else:
        grid = Grid(M, N, 1.0 / T0, T0)
    phi = _field_profile(M, T0)
    fields = WallGo.Fields(phi[:, None])
    chi = O.z_nodes(M, endpoints=True)
    v = vmid + 0.03 * chi
    T = T0 * (1.0 + 0.02 * chi)
    bg = WallGo.BoltzmannBackground(vmid, v, fields, T, "Cardinal")
    parts = _particles(mass, T0, P)
    bs = WallGo.BoltzmannSolver(grid, basisM, basisN, "Spectral")
    bs.updateParticleList(parts)
    bs.setBackground(bg)
    bs.setCollisionArray(np.zeros((P, N - 1, N - 1, P, N - 1, N - 1)))
    msq = np.array([MASSFUN[mass][i](phi[1:-1], T0) for i in range(P)])
    return grid, bs, msq, parts, phi


BASES = {"CC": ("Cardinal", "Cardinal"), "CT": ("Cardinal", "Chebyshev"), "TT": ("Chebyshev", "Chebyshev")}


class _Conv:
    """Grid values <-> the coefficient array expected by the solver in the given basis variant (harness-side algebra)."""

    def __init__(self, M, N, basisM, basisN):
        self.mats = {}
        if basisM == "Chebyshev":
            self.mats[1] = O.tbar_matrix("z", M, N)
        if basisN == "Chebyshev":
            self.mats[2] = O.tbar_matrix("pz", M, N)
            self.mats[3] = O.tbar_matrix("pp", M, N)
        self.inv = {ax: np.linalg.inv(B) for ax, B in self.mats.items()}
        self.amp = {ax: np.abs(B) @ np.abs(self.inv[ax]) for ax, B in self.mats.items()}

    @staticmethod
    def _apply(A, g, ax):
        return np.moveaxis(np.tensordot(A, g, axes=([1], [ax])), 0, ax)

    def coeffs(self, g):
        for ax, Binv in self.inv.items():
            g = self._apply(Binv, g, ax)
        return g

    def amplify(self, absg):
        """Elementwise bound on the grid-value error per unit relative rounding: |B||B^-1||g| along converted axes."""
        for ax, A in self.amp.items():
            absg = self._apply(A, absg, ax)
        return absg


_MALLOC_TUNED = False


def _tune_malloc() -> None:
    """Performance only: getDeltas allocates several 10-100 MB temporaries per call (linearisation criteria); with 16
    workers the default glibc policy (mmap/munmap each of them) spends most of the time in page faults. Keep freed
    blocks in the heap instead. No effect on any computed number."""
    global _MALLOC_TUNED
    if _MALLOC_TUNED:
        return
    _MALLOC_TUNED = True
    try:
        import ctypes

        libc = ctypes.CDLL("libc.so.6")
        libc.mallopt(-3, 1 << 30)  # M_MMAP_THRESHOLD
        libc.mallopt(-1, 1 << 31)  # M_TRIM_THRESHOLD
    except Exception:
        pass


def _cmp(r: Rel, name: str, got, want, tol, **extra) -> None:
    """max |got-want|/tol <= 1 with array tolerances."""
    got = np.asarray(got, dtype=float)
    want = np.asarray(want, dtype=float)
    r.n += 1
    if got.shape != want.shape:
        r.viol.append({"relation": name, "detail": {"error": "shape", "got": got.shape, "want": want.shape}})
        return
    err = np.abs(got - want)
    ratio = err / tol
    if not np.all(np.isfinite(ratio)):
        r.viol.append({"relation": name, "detail": {"error": "non-finite", "got": got, "want": want, **extra}})
        return
    m = float(np.max(ratio))
    r.margin = max(r.margin, m)
    if m > 1.0:
        r.viol.append({"relation": name, "detail": {"got": got, "want": want, "tol": tol, "ratio": m, **extra}})


def _deltas(bs, deltaF):
    """Real call. Returns array (4, P, Z) in the order of WNAMES."""
    res = bs.getDeltas(deltaF)
    D = res.Deltas
    return np.array([np.asarray(getattr(D, "Delta" + w).coefficients, dtype=float) for w in WNAMES])


# =============================================================================== section: moments (complete basis)
def _target(geo, a, c):
    """sqrt(1-rz^2) rz^a * sqrt(1-rp^2) rp^c on the (pz, pp) grid: the GCL rule multiplies by sqrt(1-rho^2) once more."""
    rz, rp = geo["rz"], geo["rp"]
    return (np.sqrt(1 - rz**2) * rz**a)[None, None, :, None] * (np.sqrt(1 - rp**2) * rp**c)[None, None, None, :]


def _basis_deltaF(geo, wname, a, c, amp):
    """deltaF (P,Z,pz,pp) with measure*w*deltaF = amp * target; finite non-zero filler at p_par = 0 (0/0 there)."""
    Jw = geo["J"] * O.weight(wname, geo["E"], geo["PZ"])
    with np.errstate(all="ignore"):
        df = amp[:, :, None, None] * _target(geo, a, c) / Jw
    df[..., 0] = 3.0 * df[..., 1] + amp[:, :, None] * 1e-3 / np.abs(Jw[..., 1])
    return df


def case_moments(p: dict) -> dict:
    _tune_malloc()
    r = Rel(p["id"])
    M, N, T0, mass, basis, wname, a = p["M"], p["N"], p["T0"], p["mass"], p["basis"], p["w"], p["a"]
    basisM, basisN = BASES[basis]
    P = 2
    grid, bs, msq, _, _ = _solver(M, N, T0, mass, basisM, basisN, P, rescaled=bool(p.get("rescaled")))
    geo = O.geometry(N, T0, msq)
    conv = _Conv(M, N, basisM, basisN)
    Z = M - 1
    amp = 1.0 + 0.5 * np.arange(P)[:, None] + 0.25 * np.arange(Z)[None, :]  # slot-dependent amplitude: detects slot mixing

    # the code's nodes are the documented Gauss-Lobatto nodes / compactification (a few ulp; atanh/log amplify 1/(1-rho^2))
    r.close("grid-rz", grid.rzValues, geo["rz"], 4 * EPS)
    r.close("grid-rp", grid.rpValues, geo["rp"], 4 * EPS)
    _cmp(r, "grid-pz", grid.pzValues, geo["pz"], 16 * EPS * (np.abs(geo["pz"]) + 2 * T0 / (1 - geo["rz"] ** 2)))
    _cmp(r, "grid-pp", grid.ppValues, geo["pp"], 16 * EPS * (np.abs(geo["pp"]) + T0 / (1 - geo["rp"])) + 1e-300)

    W = np.array([np.abs(O.gcl_functional(N, geo, w)) for w in WNAMES])  # (4,P,Z,pz,pp) |functional weights| for rounding bounds
    iw = WNAMES.index(wname)

    def rounding(absg):
        """64 eps sum_grid |W_w| * (|g| amplified by the harness-side basis conversion): bound for all four moments."""
        return 64 * EPS * np.sum(W * conv.amplify(absg)[None], axis=(3, 4)) + 1e-300

    ncs = 2 * N - 4  # c = 0 .. 2N-5
    Ia = O.cheb_moment(a)
    # node-position rounding: the rule is exact at the exact nodes, the floats are off by <= 1 ulp(1) = eps, so the sampled
    # polynomial G(x)=(1-x^2)x^a differs by |G'| eps per node:  |G'| <= a |x|^(a-1) (1-x^2) + 2 |x|^(a+1)
    rz, rp = geo["rz"], geo["rp"]
    qz, qp = math.pi / N, math.pi / (N - 1)

    def Gabs(x, k):
        return (1 - x**2) * np.abs(x) ** k

    def dGabs(x, k):
        return (k * np.abs(x) ** (k - 1) * (1 - x**2) if k > 0 else 0.0) + 2 * np.abs(x) ** (k + 1)

    def node_rounding(c):
        return 8 * EPS * qz * qp * (np.sum(dGabs(rz, a)) * np.sum(Gabs(rp, c)) + np.sum(Gabs(rz, a)) * np.sum(dGabs(rp, c)))
    store = {}
    for c in range(ncs):
        g = _basis_deltaF(geo, wname, a, c, amp)
        try:
            D = _deltas(bs, conv.coeffs(g))
        except Exception as e:  # the property says values are returned
            r.true(f"no-exception-c={c}", False, error=repr(e))
            continue
        r.true(f"shape-c={c}", D.shape == (4, P, Z), got=D.shape)
        if D.shape != (4, P, Z):
            continue
        store[c] = (g, D)
        want = amp * Ia * O.cheb_moment(c)  # closed-form Chebyshev-moment product
        # tolerance: rounding of the quadrature sum, 64*eps*sum|terms| (terms = |W| |deltaF|, incl. the filler node)
        _cmp(r, f"moment-c={c}", D[iw], want, rounding(np.abs(g))[iw] + amp * node_rounding(c), w=wname, a=a, c=c)
    # linearity on pairs (all four moments, exact class or not)
    al, be = 2.0, -3.0
    for c in range(0, ncs - 1, 2):
        if c not in store or c + 1 not in store:
            continue
        (g1, D1), (g2, D2) = store[c], store[c + 1]
        try:
            D12 = _deltas(bs, conv.coeffs(al * g1 + be * g2))
        except Exception as e:
            r.true(f"no-exception-linear-c={c}", False, error=repr(e))
            continue
        _cmp(r, f"linear-c={c},{c + 1}", D12, al * D1 + be * D2, 3 * rounding(abs(al) * np.abs(g1) + abs(be) * np.abs(g2)))
    # one cross-weight pair: this case's (w,a,c=0) with the next weight's (a+1 mod, c=1)
    if 0 in store:
        w2 = WNAMES[(iw + 1) % 4]
        a2 = (a + 1) % (2 * N - 2)
        g2 = _basis_deltaF(geo, w2, a2, min(1, ncs - 1), amp[::-1])
        try:
            D2 = _deltas(bs, conv.coeffs(g2))
            D12 = _deltas(bs, conv.coeffs(al * store[0][0] + be * g2))
            _cmp(r, "linear-cross", D12, al * store[0][1] + be * D2, 3 * rounding(abs(al) * np.abs(store[0][0]) + abs(be) * np.abs(g2)))
        except Exception as e:
            r.true("no-exception-linear-cross", False, error=repr(e))
    r.tag(f"N{N}-{basis}-w{wname}", f"mass-{mass}", f"T0-{T0:g}", "a-even(nonzero)" if a % 2 == 0 else "a-odd(antisymmetric-zero)")
    r.detail["monomials"] = ncs
    return r.result(nontrivial=True)


SIZES_QUICK = [(4, 3), (6, 5), (6, 7), (8, 11)]
SIZES_THOROUGH = SIZES_QUICK + [(6, 13), (4, 15)]
T0S = [1.0, 100.0]
T0S_EXTREME = [1e-10, 1e-4, 1e4, 1e10]
MASSES = ["zero", "const", "tanh"]


def moments_cases(tier: str) -> list[dict]:
    out = []
    sizes = SIZES_QUICK if tier == "quick" else SIZES_THOROUGH
    for (M, N) in sizes:
        for T0 in T0S:
            for mass in MASSES:
                for basis in BASES:
                    if tier == "quick" and basis != "CC" and N >= 11 and not (T0 == 100.0 and mass == "tanh"):
                        continue  # quick: Chebyshev-input variants at N=11 for one configuration only (all at N<=7)
                    for w in WNAMES:
                        for a in range(2 * N - 2):  # a = 0 .. 2N-3
                            out.append(dict(M=M, N=N, T0=T0, mass=mass, basis=basis, w=w, a=a))
    # extreme momentum scales (the property quantifies over EVERY momentum scale: an absolute constant anywhere in the measure or the
    # energy would bite in units where momenta are tiny or huge): the two smallest sizes, every mass profile, basis, weight and degree
    for (M, N) in sizes[:2]:
        for T0 in T0S_EXTREME:
            for mass in MASSES:
                for basis in ("CC", "TT"):
                    for w in WNAMES:
                        for a in range(2 * N - 2):
                            out.append(dict(M=M, N=N, T0=T0, mass=mass, basis=basis, w=w, a=a))
    # the same moments on a grid whose momentum scale was changed after construction (smallest size, every weight and degree)
    M0, N0 = sizes[0]
    for T0 in T0S:
        for basis in ("CC", "TT"):
            for w in WNAMES:
                for a in range(2 * N0 - 2):
                    out.append(dict(M=M0, N=N0, T0=T0, mass=MASSES[-1], basis=basis, w=w, a=a, rescaled=True))
    for c in out:
        c["id"] = f"M{c['M']}N{c['N']},T0={c['T0']:g},mass={c['mass']},basis={c['basis']},w={c['w']},a={c['a']}" + (",grid=rescaled" if c.get("rescaled") else "")
    return with_ids(out)


# =============================================================================== section: ladder (smooth deltaF vs mpmath)
KS = (1.0, 0.6, -0.2, 0.15)
# empirical envelopes of the aggregate relative error at N=21 (10x measured on the pinned tree, see ASSUMPTIONS);
# key: (tau = T_deltaF/T0, m/T0)
LADDER_BOUND = {
    (0.5, 0.0): 0.12, (0.5, 1.0): 4.5e-3, (0.5, 3.0): 4e-2,
    (0.3333, 0.0): 0.25, (0.3333, 1.0): 2.5e-4, (0.3333, 3.0): 4.5e-3,
    (0.25, 0.0): 0.45, (0.25, 1.0): 2.5e-5, (0.25, 3.0): 4e-4,
}
# tau = 1 (deltaF ~ exp(-E/T0), the physically typical shape): the aggregate error is still 0.37-0.40 at N=21 (the E*pz moment;
# its integrand peaks at |pz| ~ 4 T0, rho_z ~ 0.96, where the tanh map leaves 1-2 nodes). Only monotone decrease is required there.
LADDER_NO_BOUND = {1.0}


def _gcl_sum(Wsigned, g):
    return np.array([[math.fsum((Wsigned[i, j] * g[i, j]).ravel()) for j in range(g.shape[1])] for i in range(g.shape[0])])


def case_ladder(p: dict) -> dict:
    _tune_malloc()
    r = Rel(p["id"])
    if p.get("kind") == "oracle2d":
        # harness self-check: two independent mpmath routes to the same defining integral (spherical+Gauss-Legendre vs
        # the literal dpz dpp form). A mismatch is a broken oracle -> harness-error, never a violation.
        a = O.moment_ref(KS, p["tau"], p["m"], p["w"])
        b = O.moment_ref_cartesian(KS, p["tau"], p["m"], p["w"])
        rel = float(abs(a - b) / abs(a))
        if not rel < 1e-10:
            raise RuntimeError(f"oracle routes disagree: {a} vs {b}")
        r.n += 1
        r.detail["rel"] = rel
        r.tag("oracle-selfcheck")
        return r.result(nontrivial=False)
    tau, mr, T0, Ns = p["tau"], p["m"], p["T0"], p["Ns"]
    T = tau * T0
    m = mr * T0
    refs = {w: float(O.moment_ref(KS, tau, mr, w)) * T0 ** (2 + int(w[0]) + int(w[1])) for w in WNAMES}  # dimension T0^(2+m+n)
    agg = []
    M = 4
    for N in Ns:
        import WallGo
        from WallGo.grid import Grid

        grid = Grid(M, N, 1.0 / T0, T0)
        chi = O.z_nodes(M, endpoints=True)
        fields = WallGo.Fields(np.ones((M + 1, 1)))
        bg = WallGo.BoltzmannBackground(-0.5, -0.5 + 0.03 * chi, fields, T0 * (1 + 0.02 * chi), "Cardinal")
        part = WallGo.Particle("p", 0, lambda f: 0.0 * f.getField(0) + m * m, lambda f: 0.0 * f, "Fermion", 12)
        bs = WallGo.BoltzmannSolver(grid, "Cardinal", "Cardinal", "Spectral")
        bs.updateParticleList([part])
        bs.setBackground(bg)
        bs.setCollisionArray(np.zeros((1, N - 1, N - 1, 1, N - 1, N - 1)))
        msq = np.full((1, M - 1), m * m)
        geo = O.geometry(N, T0, msq)
        g = O.family_np(KS, T, geo["E"], geo["PZ"])
        try:
            D = _deltas(bs, g)
        except Exception as e:
            r.true(f"no-exception-N={N}", False, error=repr(e))
            continue
        errs = []
        for iw, w in enumerate(WNAMES):
            Wf = O.gcl_functional(N, geo, w)
            own = _gcl_sum(Wf, g)
            # the code's value is the Gauss-Chebyshev-Lobatto sum of the defined integrand: 64*eps*sum|terms|
            _cmp(r, f"gcl-N={N}-w={w}", D[iw], own, 64 * EPS * np.sum(np.abs(Wf * g), axis=(2, 3)) + 1e-300)
            errs.append(float(np.max(np.abs(D[iw] - refs[w])) / abs(refs[w])))
        agg.append((N, max(errs), errs))
    r.detail["errors"] = [(N, e) for N, e, _ in agg]
    for (N0, e0, _), (N1, e1, _) in zip(agg, agg[1:]):
        r.true(f"monotone-N={N0}->{N1}", e1 < e0, e0=e0, e1=e1)
    if agg and agg[-1][0] >= 21:
        # bound checked at N=21 (the design's largest ladder size); larger N only extend the monotone chain
        e21 = [x for x in agg if x[0] == 21][0]
        bound = LADDER_BOUND.get((round(tau, 4), mr))
        if round(tau, 4) in LADDER_NO_BOUND:
            r.tag("slow-family-monotone-only")
        elif bound is None:
            raise RuntimeError(f"no ladder bound for {(tau, mr)}; measured {e21}")
        else:
            r.close("bound-N=21", e21[1], 0.0, bound, per_weight=e21[2])
    r.tag(f"tau-{tau:.3g}", f"m/T0-{mr:g}", f"T0-{T0:g}")
    return r.result(nontrivial=True)


def ladder_cases(tier: str) -> list[dict]:
    out = []
    taus = [1.0, 0.5, round(1 / 3, 4)] if tier == "quick" else [1.0, 0.5, round(1 / 3, 4), 0.25]
    Ns = [7, 11, 15, 21] if tier == "quick" else [7, 11, 15, 21, 27]
    for tau in taus:
        for mr in (0.0, 1.0, 3.0):
            for T0 in T0S:
                out.append(dict(kind="ladder", tau=tau, m=mr, T0=T0, Ns=Ns, id=f"ladder,tau={tau:.4g},m={mr:g},T0={T0:g}"))
    for w in WNAMES + ("perp",):
        for mr in (0.0, 1.0) if tier == "quick" else (0.0, 1.0, 3.0):
            out.append(dict(kind="oracle2d", tau=0.5, m=mr, w=w, id=f"oracle2d,tau=0.5,m={mr:g},w={w}"))
    return with_ids(out)


# =============================================================================== section: tmunu
def case_tmunu(p: dict) -> dict:
    from WallGo.containers import BoltzmannDeltas
    from WallGo.equationOfMotion import EOM
    from WallGo.polynomial import Polynomial
    import WallGo

    _tune_malloc()
    r = Rel(p["id"])
    v, P, T0, mass, M = p["v"], p["P"], p["T0"], p["mass"], 4
    Z = M - 1
    N = 11
    grid, bs, msq, parts, phi = _solver(M, N, T0, mass, "Cardinal", "Cardinal", P, vmid=v)
    taus = [0.5, round(1 / 3, 4), 0.25][:P]  # each species its own smooth deviation
    kss = [KS, (0.4, -0.7, 0.3, 0.2), (-0.8, 0.2, 0.5, -0.1)][:P]
    names = WNAMES + ("perp",)
    # mpmath moments of every species at every z slot (dimensionless integrals in units of T0)
    ref = np.zeros((5, P, Z))
    for i in range(P):
        for j in range(Z):
            mr = math.sqrt(msq[i, j]) / T0
            for k, nm in enumerate(names):
                dim = 4 if nm == "perp" else 2 + int(nm[0]) + int(nm[1])
                ref[k, i, j] = float(O.moment_ref(kss[i], taus[i], round(mr, 12), nm)) * T0**dim
    eom = wg.construct_eom(grid=grid, particles=parts)  # real constructor; the particles reach the EOM through its BoltzmannSolver
    interior = WallGo.Fields(phi[1:-1, None])

    def poly(arr):  # what getDeltas returns: Polynomial over (particle, z)
        return Polynomial(np.array(arr), grid, ("Array", "Cardinal"), ("Array", "z"), False)

    # (A) exact moments in, compare with the boosted direct integral
    dA = BoltzmannDeltas(Delta00=poly(ref[0]), Delta02=poly(ref[1]), Delta20=poly(ref[2]), Delta11=poly(ref[3]))
    # (B) the object produced by the real getDeltas for the same deviations
    geo = O.geometry(N, T0, msq)
    g = np.array([O.family_np(kss[i], taus[i] * T0, geo["E"][i], geo["PZ"][0]) for i in range(P)])
    try:
        dB = bs.getDeltas(g).Deltas
        DB = np.array([np.asarray(getattr(dB, "Delta" + w).coefficients, dtype=float) for w in WNAMES])
    except Exception as e:
        r.true("no-exception-getDeltas", False, error=repr(e))
        dB = None
    gam2 = 1.0 / (1.0 - v * v)
    # the object has been used before, for ANOTHER frame velocity (a wall solver calls it for one wall after the other): the result
    # must depend on the arguments of the call only
    try:
        eom.deltaToTmunu(0, interior.getFieldPoint(0), -0.73 if abs(v + 0.73) > 1e-9 else 0.41, dA)
        r.tag("object-used-before-with-other-frame-velocity")
    except Exception as e:  # noqa: BLE001
        r.true("no-exception-previous-call", False, error=repr(e))
    for j in range(Z):
        Tpl = np.zeros((4, 4))
        for i in range(P):
            # direct tensor of species i: T00=int E^2, T03=int E pz, T33=int pz^2, Tperp=int p_par^2 (separate mpmath integrals)
            Tpl += DOFS[i] * O.tmunu_plasma(ref[2, i, j], ref[3, i, j], ref[1, i, j], ref[4, i, j])
        Tw = O.boost_tensor(Tpl, v)
        want30, want33 = Tw[3, 0], Tw[3, 3]
        # rounding of the assembling formula: 64*eps*sum of |terms| (coefficients <= 4, boost factors <= gamma^2 (1+|v|)^2)
        S = sum(DOFS[i] * (4 * abs(ref[2, i, j]) + 4 * abs(ref[1, i, j]) + 2 * msq[i, j] * abs(ref[0, i, j]) + 4 * abs(ref[3, i, j])) for i in range(P))
        amp = gam2 * (1 + abs(v)) ** 2
        tolA = 64 * EPS * S * amp + 1e-300
        fp = interior.getFieldPoint(j)
        try:
            t30, t33 = eom.deltaToTmunu(j, fp, v, dA)
            r.close(f"T30-exactmoments-z={j}", float(t30), want30, tolA)
            r.close(f"T33-exactmoments-z={j}", float(t33), want33, tolA)
            r.true(f"tensor-symmetric-z={j}", abs(Tw[0, 3] - Tw[3, 0]) <= tolA)
        except Exception as e:
            r.true(f"no-exception-A-z={j}", False, error=repr(e))
        if dB is not None:
            # chain getDeltas -> deltaToTmunu (real object types, slot selection): differs from the direct integral by at most
            # the measured, slot-matched quadrature error of the four moments times a bound on the coefficients of any bilinear
            # assembly in u, ubar (|coefficient| <= 4 gamma^2 (1+|v|)^2; factor 2 of slack). This is a compatibility/indexing
            # check; the sharp check of the formula is the exact-moments relation above.
            dS = sum(
                DOFS[i] * (8 * abs(DB[2, i, j] - ref[2, i, j]) + 8 * abs(DB[1, i, j] - ref[1, i, j])
                           + 4 * msq[i, j] * abs(DB[0, i, j] - ref[0, i, j]) + 8 * abs(DB[3, i, j] - ref[3, i, j]))
                for i in range(P)
            )
            tolB = dS * amp + tolA
            try:
                t30, t33 = eom.deltaToTmunu(j, fp, v, dB)
                r.close(f"T30-chain-z={j}", float(t30), want30, tolB)
                r.close(f"T33-chain-z={j}", float(t33), want33, tolB)
                r.detail[f"chain-rel-z={j}"] = [abs(float(t30) - want30) / (abs(want30) + 1e-300), tolB / (abs(want30) + 1e-300)]
            except Exception as e:
                r.true(f"no-exception-B-z={j}", False, error=repr(e))
    r.tag(f"v={v:g}", f"P={P}", f"mass-{mass}", f"T0-{T0:g}", "v=0-limit" if v == 0 else ("v<0" if v < 0 else "v>0"))
    return r.result(nontrivial=True)


def tmunu_cases(tier: str) -> list[dict]:
    vs = [-0.1, -0.5, -0.9, 0.0, 0.5] if tier == "quick" else [-0.1, -0.5, -0.9, 0.0, 0.5, -0.99, -0.3, 0.9]
    out = []
    for v in vs:
        for P in (1, 2, 3):
            for T0 in T0S:
                for mass in MASSES:
                    out.append(dict(v=v, P=P, T0=T0, mass=mass, id=f"v={v:g},P={P},T0={T0:g},mass={mass}"))
    return with_ids(out)


# =============================================================================== driver
SECTIONS = {
    "moments": (moments_cases, case_moments),
    "ladder": (ladder_cases, case_ladder),
    "tmunu": (tmunu_cases, case_tmunu),
}


def run(ctx) -> None:
    for name, (gen, fn) in SECTIONS.items():
        if ctx.only and ctx.only != name:
            continue
        ctx.run_lattice(name, gen(ctx.tier), fn, timeout=600)
    sizes = SIZES_QUICK if ctx.tier == "quick" else SIZES_THOROUGH
    ctx.exhaustive = True
    ctx.note(
        "exhaustive_scope",
        "moments: per grid size the complete monomial basis of the exactness class (a<=2N-3, c<=2N-5) for each of the four "
        "weights, i.e. each linear functional is determined completely; ladder/tmunu: finite stated lattices, not the reals",
    )
    ctx.note("grid_sizes_MN", sizes)
    ctx.note("ladder_N", [7, 11, 15, 21] if ctx.tier == "quick" else [7, 11, 15, 21, 27])
    ctx.note("quick_tier_restriction", "Chebyshev-input variants (CT, TT) at N=11 only for T0=100/mass=tanh; all variants at N<=7" if ctx.tier == "quick" else "none")


def replay(rep: dict) -> dict:
    return SECTIONS[rep["section"]][1](rep["params"])
