"""C17 - grid coordinate maps are monotone bijections with consistent Jacobians.

(L) sections `g3` / `g1`: full cross product of the scale parameters of Grid3Scales / Grid; on every grid
    object the maps are evaluated on the collocation points plus a 201-point dense set and checked for strict
    monotonicity, z(0)==centre, Jacobian == numerical derivative of `decompactify` (complex step where the map
    is analytic in numpy complex arithmetic; the three-scale position map takes `.real` of its arctanh terms, so
    there a 6th-order central difference with a derived tolerance is used), slope at the centre == L/r,
    compactify(decompactify(x)) == x on the same object, cached arrays == freshly computed.
    The position round trip of the three-scale grid is its own section `inv3` (one relation per parameter set,
    evaluated on the points of all six spacing/size grids) so that it is keyed once per parameter set.
(H) sections `bfs3` / `bfs1`: breadth-first search over all histories of <= 3 calls of
    changePositionFalloffScale / changeMomentumFalloffScale on one real object; in every distinct reached state
    every public attribute and the result of every public method on probe points must equal those of a grid
    *constructed* with the final scales (the final scales come from a plain reference model of the history).
(L) section `updategrid`: EOM._updateGrid on a lattice of wall parameters (1-3 fields), velocities, mean free
    paths, with/without out-of-equilibrium particles and 0/1 previous calls; scales against a field-by-field
    oracle, then the same map relations and the same "equals a constructed grid" relation.
"""
from __future__ import annotations

import collections
import itertools

import numpy as np

from .. import bfs as B
from ..lattice import Rel, with_ids
from ..oracles import c17_oracle as O

LEVEL = "model_checking"
RULE = (
    "g3: full cross product L x tailIn x tailOut x r x smoothing x centre x spacing x (M,N), momentum scale looped "
    "inside each case; inv3: L x tailIn x tailOut x r x smoothing x centre with the six (spacing,(M,N)) grids inside; "
    "g1: L x spacing x (M,N) with momentum scale inside; every map evaluated on collocation "
    "points + 201 dense points. bfs3/bfs1: all histories of <=3 rescaling calls per shard (shard = initial grid), "
    "states merged by the digest of (attribute dict of the object, reference model of the expected scales), "
    "invariant evaluated once per distinct state. "
    "updategrid: wall set x velocity x mean free path x offEq x (r,s) x previous call. A case is non-trivial if "
    "the grid was constructed and all directions were evaluated; distinct = distinct case id / state digest."
)
ASSUMPTIONS = [
    "admissible = preconditions asserted by Grid3Scales._updateParameters (tails > L(1/2+s)/r, 0<r<1, s>0, L>0); the lattice only contains admissible points",
    "complex-step derivative (h=1e-30) is exact to rounding: tol = 64*eps*|J|*(1+c/(1-x^2)) (conditioning of 1-x^2)",
    "three-scale position map: 6th-order central difference, step h=theta*rho(x) (rho = distance to the nearest complex "
    "singularity), truncation bounded by Cauchy's estimate on the disc of radius rho/2, rounding bounded by "
    "64*eps*sum|coef_i|(|arctanh u_i| + cond_i) of the five arctanh terms (oracle module); step chosen from a fixed ladder to minimise the bound",
    "round trip tolerance = 64*eps + 2*noise(map)/J (+ INVERSE_XTOL, 0 now: to be set to the root-finder xtol if the "
    "three-scale inverse ever becomes numerical)",
    "'equal to a constructed grid' compares values rounded to 12 significant digits (vmc.bfs.digest); both grids get bit-identical inputs",
    "max_margin is taken over relations that hold; failing relations are reported as violations with their own err/tol",
    "strict monotonicity is asked of points >= 1e-6 apart in the compact coordinate (closer dense points are merged into the collocation point)",
]

EPS = O.EPS
INVERSE_XTOL = 0.0
CSTEP = 1e-30

# ----------------------------------------------------------------------------------------- alphabets (DESIGN C17)
LS = [1e-2, 1.0, 1e2]
KS = [1.3, 3.0, 30.0]  # tail length in units of the admissibility limit L(1/2+s)/r
RS = [0.2, 0.5, 0.8]
SS = [0.01, 0.1, 0.5]
CFS = [0.0, -3.0, 10.0]  # wall centre in units of L
TS = [1e-2, 1.0, 1e2]
SPACINGS = ["Spectral", "Uniform"]
MNS = [(6, 5), (20, 11), (40, 11)]

DENSE = np.arange(-100, 101) * 0.0099  # chi, rho_z: 201 points in [-0.99, 0.99], exact 0 in the middle
DENSE_PP = -1.0 + 1.99 * np.arange(201) / 200.0  # rho_par in [-1, 0.99]
ZERO = np.zeros(1)


def _pts(grid_vals, dense):
    """Collocation points + those dense points that are not within 1e-6 of a collocation point, sorted.
    (Strict monotonicity can only be asked of points further apart than the rounding of the map; e.g. the
    Chebyshev midpoint -cos(pi/2) = -6e-17 and the dense point 0 are the same point for this purpose.)"""
    g = np.asarray(grid_vals, dtype=float)
    keep = [d for d in dense if np.min(np.abs(g - d)) > 1e-6]
    return np.sort(np.concatenate([g, keep]))


def _tail(k, L, r, s):
    return k * L * (0.5 + s) / r


def _g3(p, T=None, **over):
    """Construct the real Grid3Scales of a parameter dict (keys L,kin,kout,r,s,cf,spacing,M,N,T)."""
    from WallGo.grid3Scales import Grid3Scales

    q = {**p, **over}
    L, r, s = q["L"], q["r"], q["s"]
    return Grid3Scales(
        q["M"], q["N"], _tail(q["kin"], L, r, s), _tail(q["kout"], L, r, s), L,
        q["T"] if T is None else T, r, s, q["cf"] * L, q["spacing"],
    )


def _scales(p):
    L, r, s = p["L"], p["r"], p["s"]
    return dict(L=L, r=r, s=s, tin=_tail(p["kin"], L, r, s), tout=_tail(p["kout"], L, r, s), centre=p["cf"] * L)


# ----------------------------------------------------------------------------------------- relation helpers
def _ratio(r: Rel, name: str, got, want, tol, pts=None, **extra) -> bool:
    """elementwise |got-want| <= tol; records the worst point only (keeps replay files small)."""
    r.n += 1
    try:
        got = np.asarray(got, dtype=float)
        want = np.broadcast_to(np.asarray(want, dtype=float), got.shape)
        tol = np.broadcast_to(np.asarray(tol, dtype=float), got.shape)
    except (ValueError, TypeError) as e:  # WallGo returned something of the wrong shape/type: that is a violation
        r.viol.append({"relation": name, "detail": {"error": repr(e)}})
        return False
    if got.size == 0:
        return True
    err = np.abs(got - want)
    with np.errstate(all="ignore"):
        q = np.where(err == 0, 0.0, err / tol)
    q = np.where(np.isnan(err) | np.isnan(q), np.inf, q)
    i = int(np.argmax(q))
    if q.flat[i] <= 1:  # margin = residual/tolerance of relations that hold (failures are reported as violations)
        r.margin = max(r.margin, float(q.flat[i]))
    if q.flat[i] > 1:
        d = {"got": float(got.flat[i]), "want": float(want.flat[i]), "err": float(err.flat[i]), "tol": float(tol.flat[i]),
             "n_bad": int(np.sum(q > 1)), "n": int(got.size)}
        if pts is not None:
            d["x"] = float(np.asarray(pts).flat[i])
        r.viol.append({"relation": name, "detail": {**d, **extra}})
        return False
    return True


def _increasing(r: Rel, name: str, x, y) -> bool:
    y = np.asarray(y, dtype=float)
    d = np.diff(y)
    ok = bool(np.all(np.isfinite(y)) and np.all(d > 0))
    if ok:
        return r.true(name, True)
    bad = np.where(~(d > 0))[0]
    i = int(bad[0]) if bad.size else 0
    return r.true(name, False, x=[float(x[i]), float(x[min(i + 1, len(x) - 1)])], y=[float(y[i]), float(y[min(i + 1, len(y) - 1)])], n_bad=int(bad.size))


def _same(a, b) -> bool:
    a, b = np.asarray(a), np.asarray(b)
    return a.shape == b.shape and bool(np.array_equal(a, b))


# ----------------------------------------------------------------------------------------- per-object relations
def check_compact(r: Rel, g, pre=""):
    """compact collocation points: documented formula, strictly increasing inside (-1,1) (rho_par starts at -1)."""
    chi, rz, rp = O.compact_points(g.M, g.N, g.spacing)
    for name, got, want in (("chi", g.chiValues, chi), ("rz", g.rzValues, rz), ("rp", g.rpValues, rp)):
        got = np.asarray(got)
        if not r.true(f"{pre}compact-{name}-count", got.shape == want.shape, got=got.shape, want=want.shape):
            continue
        _ratio(r, f"{pre}compact-{name}-formula", got, want, 64 * EPS)  # policy 64*eps*sum|terms|, terms: -1 and k*step <= 2
        lo_ok = got[0] > -1 if name != "rp" else got[0] == -1
        r.true(f"{pre}compact-{name}-ordered-inside", bool(np.all(np.diff(got) > 0) and lo_ok and got[-1] < 1))


def check_position_3scale(r: Rel, g, sc, pre=""):
    """Position-map relations of the property on one Grid3Scales object (the inverse: see roundtrip_z3 / `inv3`).
    sc: oracle scales."""
    L, rr, s, tin, tout, centre = sc["L"], sc["r"], sc["s"], sc["tin"], sc["tout"], sc["centre"]
    pts = _pts(g.chiValues, DENSE)

    def zmap(x):
        return np.asarray(g.decompactify(x, ZERO, ZERO)[0], dtype=float)

    z = zmap(pts)
    J = np.asarray(g.compactificationDerivatives(pts, ZERO, ZERO)[0], dtype=float)
    _increasing(r, pre + "monotone-z", pts, z)
    r.true(pre + "jacobian-z-positive", bool(np.all(J > 0)), min=float(np.min(J)))
    noise0 = float(O.map_noise(0.0, L, rr, tin, tout, s, centre))  # 64*eps*sum|terms| of the five-term map at chi=0
    # z(0) == centre, array and scalar call (rounding of T(0)-T(0)+centre)
    _ratio(r, pre + "z(0)==centre", zmap(np.array([0.0])), centre, noise0)
    try:
        zs = float(np.asarray(g.decompactify(0.0, 0.0, -1.0)[0]))
        _ratio(r, pre + "z(0)==centre-scalar-call", zs, centre, noise0)
    except Exception as e:  # a value must be returned
        r.true(pre + "z(0)==centre-scalar-call", False, error=repr(e))
    # reported Jacobian at the centre == L/r (three products of O(tail) numbers: 64*eps*sum|terms|)
    tolJ0 = 64 * EPS * (abs(2 * tin - L / rr) + abs(2 * tout - L / rr) + abs(1 - 2 * s) * L / rr)
    J0 = g.compactificationDerivatives(np.array([0.0]), ZERO, ZERO)[0]
    _ratio(r, pre + "jacobian(0)==L/r", J0, L / rr, tolJ0)
    # Jacobian == derivative of the map (tolerance: see oracle.fd_plan)
    h, tol = O.fd_plan(pts, L, rr, tin, tout, s, centre)
    D = O.fd6(zmap, pts, h)
    _ratio(r, pre + "jacobian-z==d(map)", J, D, tol, pts)
    r.detail[pre + "fd-rel-tol-max"] = float(np.max(tol / np.abs(D)))
    # slope of the map itself at the centre == L/r
    h0, tol0 = O.fd_plan(np.array([0.0]), L, rr, tin, tout, s, centre)
    _ratio(r, pre + "slope-at-centre==L/r", O.fd6(zmap, np.array([0.0]), h0), L / rr, tol0 + tolJ0)


def roundtrip_z3(g, sc):
    """compactify(decompactify(x)) - x on the collocation + dense points of one Grid3Scales object, in units of
    the tolerance. Error budget in chi: rounding of the map divided by the Jacobian, plus the rounding of chi itself."""
    L, rr, s, tin, tout, centre = sc["L"], sc["r"], sc["s"], sc["tin"], sc["tout"], sc["centre"]
    pts = _pts(g.chiValues, DENSE)
    z = np.asarray(g.decompactify(pts, ZERO, ZERO)[0], dtype=float)
    J = np.asarray(g.compactificationDerivatives(pts, ZERO, ZERO)[0], dtype=float)
    back = np.asarray(g.compactify(z, ZERO, ZERO)[0], dtype=float)
    tol = 64 * EPS + 2 * O.map_noise(pts, L, rr, tin, tout, s, centre) / J + INVERSE_XTOL
    return pts, back, tol


def check_position_simple(r: Rel, g, L, pre=""):
    pts = _pts(g.chiValues, DENSE)
    z = np.asarray(g.decompactify(pts, ZERO, ZERO)[0], dtype=float)
    J = np.asarray(g.compactificationDerivatives(pts, ZERO, ZERO)[0], dtype=float)
    c2 = 1.0 / (1.0 - pts**2)  # conditioning of 1-x^2
    _increasing(r, pre + "monotone-z", pts, z)
    r.true(pre + "jacobian-z-positive", bool(np.all(J > 0)))
    _ratio(r, pre + "z(0)==centre", g.decompactify(np.array([0.0]), ZERO, ZERO)[0], 0.0, 0.0)
    # documented closed form chi = xi/sqrt(xi^2+L^2); (1-x^2)^(-1/2): relative error <= eps*(1+x^2)/(1-x^2)/2 + few eps
    _ratio(r, pre + "z-closed-form", z, O.simple_z(pts, L), 64 * EPS * np.abs(z) * (1 + c2) + 1e-300, pts)
    # complex step: Im z(x+ih)/h is the derivative up to O(h^2)=1e-60 relative and rounding; (1-x^2)^(-3/2)
    cs = np.asarray(g.decompactify(pts + 1j * CSTEP, ZERO, ZERO)[0]).imag / CSTEP
    _ratio(r, pre + "jacobian-z==d(map)", J, cs, 64 * EPS * np.abs(cs) * (1 + 3 * c2), pts)
    _ratio(r, pre + "jacobian(0)==L", g.compactificationDerivatives(np.array([0.0]), ZERO, ZERO)[0], L, 8 * EPS * L)
    back = np.asarray(g.compactify(z, ZERO, ZERO)[0], dtype=float)
    # d(chi)/d(xi) = 1/J: relative rounding of xi moves chi by eps*|xi|/J = eps*|x|(1-x^2) <= eps
    _ratio(r, pre + "roundtrip-z", back, pts, 64 * EPS * (1 + np.abs(z) / J), pts)


def check_momentum(r: Rel, g, T, sfx):
    """p_z(rho_z) and p_par(rho_par) of either class (both maps are analytic: complex step)."""
    rzp = _pts(g.rzValues, DENSE)
    rpp = _pts(g.rpValues, DENSE_PP)
    _, pz, pp = (np.asarray(a, dtype=float) for a in g.decompactify(ZERO, rzp, rpp))
    _, Jz, Jp = (np.asarray(a, dtype=float) for a in g.compactificationDerivatives(ZERO, rzp, rpp))
    _increasing(r, f"monotone-pz-{sfx}", rzp, pz)
    _increasing(r, f"monotone-pp-{sfx}", rpp, pp)
    r.true(f"jacobian-p-positive-{sfx}", bool(np.all(Jz > 0) and np.all(Jp > 0)))
    # origin: rho_z=0 <-> p_z=0 and rho_par=-1 <-> p_par=0 (exact: arctanh(0)=log(1)=0)
    _ratio(r, f"pz(0)==0-{sfx}", g.decompactify(ZERO, np.array([0.0]), np.array([-1.0]))[1], 0.0, 0.0)
    _ratio(r, f"pp(-1)==0-{sfx}", g.decompactify(ZERO, np.array([0.0]), np.array([-1.0]))[2], 0.0, 0.0)
    # documented closed forms (class docstring), written with log1p: each log accurate to an ulp
    _ratio(r, f"pz-closed-form-{sfx}", pz, O.simple_pz(rzp, T), 64 * EPS * T * (np.abs(np.log1p(rzp)) + np.abs(np.log1p(-rzp))) + 1e-300, rzp)
    _ratio(r, f"pp-closed-form-{sfx}", pp, O.simple_pp(rpp, T), 64 * EPS * T * (np.log(2.0) + np.abs(np.log1p(-rpp))), rpp)
    # complex step; conditioning of (1-rho^2) resp. (1-rho)
    _, cz, cp = g.decompactify(ZERO, rzp + 1j * CSTEP, rpp + 1j * CSTEP)
    cz, cp = np.asarray(cz).imag / CSTEP, np.asarray(cp).imag / CSTEP
    _ratio(r, f"jacobian-pz==d(map)-{sfx}", Jz, cz, 64 * EPS * np.abs(cz) * (1 + 2 / (1 - rzp**2)), rzp)
    _ratio(r, f"jacobian-pp==d(map)-{sfx}", Jp, cp, 64 * EPS * np.abs(cp) * (1 + 1 / (1 - rpp)), rpp)
    # inverse on the same object: d(rho)/dp = 1/J, relative rounding of p moves rho by eps*|p|/J
    _, bz, bp = (np.asarray(a, dtype=float) for a in g.compactify(ZERO, pz, pp))
    _ratio(r, f"roundtrip-pz-{sfx}", bz, rzp, 64 * EPS * (1 + np.abs(pz) / Jz), rzp)
    _ratio(r, f"roundtrip-pp-{sfx}", bp, rpp, 64 * EPS * (1 + np.abs(pp) / Jp), rpp)


def check_cache(r: Rel, g, sfx):
    """cached coordinate arrays == freshly computed (same object, same code: bitwise), getters consistent."""
    # the maps are functions: they leave their (float ndarray) arguments alone - in particular the arrays handed out by the
    # grid's own getters, which ARE the grid's cache - and give the same answer when asked again
    try:
        phys = g.getCoordinates()
        comp = g.getCompactCoordinates()
        before_p, before_c = [np.array(a, dtype=float) for a in phys], [np.array(a, dtype=float) for a in comp]
        first = [np.array(a, dtype=float) for a in g.compactify(*phys)]
        r.true(f"compactify-leaves-arguments-{sfx}", all(_same(a, b) for a, b in zip(phys, before_p)))
        r.true(f"compactify-leaves-grid-coordinates-{sfx}", all(_same(a, b) for a, b in zip(g.getCoordinates(), before_p)))
        again = [np.array(a, dtype=float) for a in g.compactify(*phys)]
        r.true(f"compactify-repeatable-{sfx}", all(_same(a, b) for a, b in zip(first, again)))
        d1 = [np.array(a, dtype=float) for a in g.decompactify(*comp)]
        j1 = [np.array(a, dtype=float) for a in g.compactificationDerivatives(*comp)]
        r.true(f"decompactify-leaves-arguments-{sfx}", all(_same(a, b) for a, b in zip(comp, before_c))
               and all(_same(a, b) for a, b in zip(g.getCompactCoordinates(), before_c)))
        d2 = [np.array(a, dtype=float) for a in g.decompactify(*comp)]
        r.true(f"decompactify-repeatable-{sfx}", all(_same(a, b) for a, b in zip(d1, d2)) and all(np.all(np.isfinite(a)) for a in j1))
    except Exception as e:  # noqa: BLE001
        r.true(f"maps-on-getter-arrays-no-exception-{sfx}", False, error=repr(e)[:300])
    fresh = g.decompactify(g.chiValues, g.rzValues, g.rpValues)
    fresh_d = g.compactificationDerivatives(g.chiValues, g.rzValues, g.rpValues)
    names = ("xiValues", "pzValues", "ppValues")
    dnames = ("dxidchi", "dpzdrz", "dppdrp")
    for nm, f in zip(names + dnames, tuple(fresh) + tuple(fresh_d)):
        r.true(f"cache-{nm}-{sfx}", _same(getattr(g, nm), f))
    inf = np.inf
    got = g.getCoordinates()
    r.true(f"getCoordinates-{sfx}", all(_same(a, getattr(g, n)) for a, n in zip(got, names)))
    xi, pz, pp = g.getCoordinates(endpoints=True)
    r.true(
        f"getCoordinates-endpoints-{sfx}",
        _same(xi, np.concatenate([[-inf], g.xiValues, [inf]])) and _same(pz, np.concatenate([[-inf], g.pzValues, [inf]]))
        and _same(pp, np.concatenate([g.ppValues, [inf]])),
    )
    r.true(f"getDerivatives-{sfx}", all(_same(a, getattr(g, n)) for a, n in zip(g.getCompactificationDerivatives(), dnames)))
    d1, d2, d3 = g.getCompactificationDerivatives(endpoints=True)
    r.true(
        f"getDerivatives-endpoints-{sfx}",
        _same(d1, np.concatenate([[inf], g.dxidchi, [inf]])) and _same(d2, np.concatenate([[inf], g.dpzdrz, [inf]]))
        and _same(d3, np.concatenate([g.dppdrp, [inf]])),
    )
    c1, c2, c3 = g.getCompactCoordinates(endpoints=True)
    r.true(
        f"getCompact-endpoints-{sfx}",
        _same(c1, np.concatenate([[-1.0], g.chiValues, [1.0]])) and _same(c2, np.concatenate([[-1.0], g.rzValues, [1.0]]))
        and _same(c3, np.concatenate([g.rpValues, [1.0]])),
    )
    r.true(
        f"getCompact-directions-{sfx}",
        _same(g.getCompactCoordinates(direction="z"), g.chiValues) and _same(g.getCompactCoordinates(direction="pz"), g.rzValues)
        and _same(g.getCompactCoordinates(direction="pp"), g.rpValues),
    )


# ----------------------------------------------------------------------------------------- (L) g3 / g1
def case_g3(p: dict) -> dict:
    r = Rel(p["id"])
    sc = _scales(p)
    if not O.admissible(sc["L"], sc["r"], sc["tin"], sc["tout"], sc["s"]):
        return r.result(inadmissible="tail-too-short")
    first = None
    built = 0
    for T in TS:
        try:
            g = _g3(p, T=T)
        except Exception as e:  # admissible parameters: a grid must be returned
            r.true(f"constructs-T={T:g}", False, error=repr(e))
            continue
        built += 1
        sfx = f"T={T:g}"
        if first is None:
            first = g
            check_compact(r, g)
            check_position_3scale(r, g, sc)
        else:  # the position direction must not depend on the momentum scale (bitwise: same code, same inputs)
            r.true(f"z-independent-of-{sfx}", _same(g.xiValues, first.xiValues) and _same(g.dxidchi, first.dxidchi))
        check_momentum(r, g, T, sfx)
        check_cache(r, g, sfx)
    a_min = min(O.smoothing_width(sc["L"], sc["r"], sc["tin"], sc["s"]), O.smoothing_width(sc["L"], sc["r"], sc["tout"], sc["s"]))
    r.tag("g3", f"spacing-{p['spacing']}", f"grid-{p['M']}x{p['N']}", "tails-equal" if p["kin"] == p["kout"] else "tails-differ",
          "centre-zero" if p["cf"] == 0 else ("centre-negative" if p["cf"] < 0 else "centre-positive"),
          "sharp-step(a<0.05)" if a_min < 0.05 else "smooth-step")
    return r.result(nontrivial=built == len(TS))


def g3_cases(tier: str) -> list[dict]:
    """quick = the design's alphabet (full cross product); thorough adds intermediate tail lengths, ratios and
    smoothings (superset, ids unchanged)."""
    ks, rs, ss = (KS, RS, SS) if tier == "quick" else ([1.3, 3.0, 10.0, 30.0], [0.2, 0.35, 0.5, 0.65, 0.8], [0.01, 0.03, 0.1, 0.25, 0.5])
    out = []
    for L, kin, kout, rr, s, cf in itertools.product(LS, ks, ks, rs, ss, CFS):
        for spacing in SPACINGS:
            for M, N in MNS:
                out.append(dict(L=L, kin=kin, kout=kout, r=rr, s=s, cf=cf, spacing=spacing, M=M, N=N))
    return with_ids(out)


def case_inv3(p: dict) -> dict:
    """The inverse map offered by a Grid3Scales object undoes its position map (one relation per parameter set,
    evaluated on the points of all six (spacing, size) grids and the dense set)."""
    r = Rel(p["id"])
    sc = _scales(p)
    worst = None
    nbad = ntot = 0
    for spacing in SPACINGS:
        for M, N in MNS:
            try:
                g = _g3({**p, "spacing": spacing, "M": M, "N": N, "T": 1.0})
                pts, back, tol = roundtrip_z3(g, sc)
            except Exception as e:  # a value must be returned
                r.true("roundtrip-z", False, error=repr(e), grid=f"{spacing}-{M}x{N}")
                return r.result()
            q = np.abs(back - pts) / tol
            q = np.where(np.isnan(q), np.inf, q)
            i = int(np.argmax(q))
            nbad += int(np.sum(q > 1))
            ntot += q.size
            if worst is None or q[i] > worst["q"]:
                worst = {"q": float(q[i]), "x": float(pts[i]), "got": float(back[i]), "err": float(abs(back[i] - pts[i])),
                         "tol": float(tol[i]), "grid": f"{spacing}-{M}x{N}"}
    r.n += 1
    if worst["q"] > 1:
        r.viol.append({"relation": "roundtrip-z", "detail": {**worst, "n_bad": nbad, "n": ntot}})
    else:
        r.margin = max(r.margin, worst["q"])
    r.tag("inv3", "tails-equal" if p["kin"] == p["kout"] else "tails-differ", "centre-zero" if p["cf"] == 0 else "centre-shifted")
    return r.result()


def inv3_cases(tier: str) -> list[dict]:
    # the design's alphabet in both tiers
    return with_ids([dict(L=L, kin=ki, kout=ko, r=rr, s=s, cf=cf) for L, ki, ko, rr, s, cf in itertools.product(LS, KS, KS, RS, SS, CFS)])


def case_g1(p: dict) -> dict:
    from WallGo.grid import Grid

    r = Rel(p["id"])
    first = None
    for T in TS:
        g = Grid(p["M"], p["N"], p["L"], T, p["spacing"])
        sfx = f"T={T:g}"
        if first is None:
            first = g
            check_compact(r, g)
            check_position_simple(r, g, p["L"])
        else:
            r.true(f"z-independent-of-{sfx}", _same(g.xiValues, first.xiValues) and _same(g.dxidchi, first.dxidchi))
        check_momentum(r, g, T, sfx)
        check_cache(r, g, sfx)
    r.tag("g1", f"spacing-{p['spacing']}", f"grid-{p['M']}x{p['N']}")
    return r.result()


def g1_cases(tier: str) -> list[dict]:
    return with_ids([dict(L=L, spacing=sp, M=M, N=N) for L in LS + [3.0] for sp in SPACINGS for M, N in MNS + [(20, 20)]])


# ----------------------------------------------------------------------------------------- (H) BFS over rescaling histories
DEPTH = 3
MAX_STATES = 30000  # per shard; a correct implementation has <= 3*81+1 states (the scales are overwritten, never accumulated)


def _ops(shard: dict) -> list[dict]:
    """Operation alphabet of a shard (simplest first). Position arguments come from the lattice."""
    if shard["cls"] == "g1":
        ops = [{"op": "P", "L": L} for L in LS + [3.0]]
    elif shard["alphabet"] == "thorough":
        ops = [{"op": "P", "L": L, "kin": ki, "kout": ko, "cf": cf} for L in LS for ki in KS for ko in KS for cf in CFS]
    else:  # quick: every L and centre, three tail pairs (equal, short-in/long-out, long-in/medium-out)
        ops = [{"op": "P", "L": L, "kin": ki, "kout": ko, "cf": cf} for L in LS for ki, ko in ((1.3, 1.3), (1.3, 30.0), (30.0, 3.0)) for cf in CFS]
    return ops + [{"op": "T", "T": T} for T in TS]


def _opid(op: dict) -> str:
    if op["op"] == "T":
        return f"T({op['T']:g})"
    if "kin" in op:
        return f"P(L={op['L']:g},in={op['kin']:g},out={op['kout']:g},c={op['cf']:g})"
    return f"P(L={op['L']:g})"


def _histid(hist: list) -> str:
    return ">".join(_opid(o) for o in hist) if hist else "<init>"


def _construct(shard: dict, model: dict):
    """A grid built directly with the scales of `model` (r, smoothing, sizes, spacing from the shard)."""
    if shard["cls"] == "g1":
        from WallGo.grid import Grid

        return Grid(shard["M"], shard["N"], model["L"], model["T"], shard["spacing"])
    return _g3({**shard, **model})


def _replay(shard: dict, hist: list):
    """Fresh real object with `hist` applied + the reference model of the final scales (last write wins)."""
    model = {k: shard[k + "0"] for k in (("L", "T") if shard["cls"] == "g1" else ("L", "kin", "kout", "cf", "T"))}
    obj = _construct(shard, model)
    for op in hist:
        if op["op"] == "T":
            obj.changeMomentumFalloffScale(op["T"])
            model["T"] = op["T"]
        elif shard["cls"] == "g1":
            obj.changePositionFalloffScale(op["L"])
            model["L"] = op["L"]
        else:
            L, rr, s = op["L"], shard["r"], shard["s"]
            obj.changePositionFalloffScale(_tail(op["kin"], L, rr, s), _tail(op["kout"], L, rr, s), L, op["cf"] * L)
            model.update(L=L, kin=op["kin"], kout=op["kout"], cf=op["cf"])
    return obj, model


def _observables(g, model: dict) -> dict:
    """Everything the public interface shows: public attributes + every public method on probe points."""
    L, T = model["L"], model["T"]
    c = model.get("cf", 0.0) * L
    cz = np.array([-0.97, -0.6, -0.2, 0.0, 0.05, 0.5, 0.9, 0.995])
    pz_phys = c + L * np.array([-30.0, -3.0, -0.5, 0.0, 0.1, 1.0, 4.0, 50.0])
    pm = T * np.array([-20.0, -1.0, 0.0, 0.5, 7.0])
    pq = T * np.array([0.0, 0.1, 1.0, 5.0, 30.0])
    obs = {}
    for k, v in vars(g).items():
        if not k.startswith("_"):
            obs["attr:" + k] = v
    obs["attr-names"] = sorted(k for k in vars(g) if not k.startswith("_"))
    comp = ("z", "pz", "pp")
    for ep in (False, True):  # every tuple-valued getter is stored component by component
        for d, v in zip(comp, g.getCompactCoordinates(endpoints=ep)):
            obs[f"getCompactCoordinates(endpoints={ep}):{d}"] = v
        for d in comp:
            obs[f"getCompactCoordinates(endpoints={ep},direction={d})"] = g.getCompactCoordinates(endpoints=ep, direction=d)
        for d, v in zip(comp, g.getCoordinates(endpoints=ep)):
            obs[f"getCoordinates(endpoints={ep}):{d}"] = v
        for d, v in zip(comp, g.getCompactificationDerivatives(endpoints=ep)):
            obs[f"getCompactificationDerivatives(endpoints={ep}):{d}"] = v
    dz, dpz, dpp = g.decompactify(cz, cz, cz)
    obs["decompactify:z"], obs["decompactify:pz"], obs["decompactify:pp"] = dz, dpz, dpp
    jz, jpz, jpp = g.compactificationDerivatives(cz, cz, cz)
    obs["compactificationDerivatives:z"], obs["compactificationDerivatives:pz"], obs["compactificationDerivatives:pp"] = jz, jpz, jpp
    bz, bpz, bpp = g.compactify(pz_phys, pm, pq)
    obs["compactify:z"], obs["compactify:pz"], obs["compactify:pp"] = bz, bpz, bpp
    return obs


def _state_key(g, model: dict) -> str:
    """State = (attribute dict of the real object, reference model of the scales it should have). In a correct
    implementation either determines the other; keeping both means that two histories are merged only if the
    object AND what it is expected to equal coincide, so the invariant never has to be re-evaluated for a merged history."""
    return B.digest({k: v for k, v in vars(g).items()}) + "|" + B.digest(model)


def _invariant(shard: dict, hist: list) -> dict:
    """Differential oracle in one state: grid reached through `hist` == grid constructed with the final scales."""
    r = Rel(_histid(hist))
    try:
        obj, model = _replay(shard, hist)
    except Exception as e:  # admissible arguments: the call must succeed
        r.true("rescale-call-succeeds", False, error=repr(e))
        return r.result()
    ref = _construct(shard, model)
    a, b = _observables(obj, model), _observables(ref, model)
    for name in sorted(set(a) | set(b)):
        if name not in a or name not in b:
            r.true("same-as-constructed:" + name, False, missing_in="rescaled" if name not in a else "constructed")
            continue
        same = B.digest(a[name]) == B.digest(b[name])
        if same:
            r.true("same-as-constructed:" + name, True)
        else:
            try:
                va, vb = np.asarray(a[name], dtype=float).reshape(-1), np.asarray(b[name], dtype=float).reshape(-1)
                diff = float(np.max(np.abs(va - vb))) if va.shape == vb.shape else None
                va, vb = va[:4].tolist(), vb[:4].tolist()
            except Exception:  # non-numeric observable (names, spacing)
                va, vb, diff = repr(a[name])[:200], repr(b[name])[:200], None
            r.true("same-as-constructed:" + name, False, rescaled=va, constructed=vb, maxdiff=diff)
    r.detail["model"] = model
    return r.result()


def case_bfs(shard: dict) -> dict:
    """Explore one shard completely (runs in a worker). Returns counts + the violating states."""
    ops = _ops(shard)
    obj0, model0 = _replay(shard, [])
    seen = {_state_key(obj0, model0): []}
    frontier = collections.deque([[]])
    transitions = 0
    relations = 0
    depth_reached = 0
    outcomes = {"P": set(), "T": set()}
    bad = []
    capped = False
    inv0 = _invariant(shard, [])
    relations += inv0["relations"]
    if inv0["verdict"] == "violation":
        bad.append({"history": [], "violations": inv0["violations"], "relations": inv0["relations"]})
    while frontier:
        hist = frontier.popleft()
        if len(hist) >= DEPTH:
            continue
        for op in ops:
            nh = hist + [op]
            try:
                obj, model = _replay(shard, nh)  # every transition is executed on a freshly built real object
                key = _state_key(obj, model)
            except Exception:
                key = "raises:" + _histid(nh)
            transitions += 1
            depth_reached = max(depth_reached, len(nh))
            outcomes[op["op"]].add(key)
            if key in seen:
                continue  # equal attribute dict and equal expected scales => same invariant verdict (methods read nothing else)
            if len(seen) >= MAX_STATES:
                capped = True
                continue
            seen[key] = nh
            frontier.append(nh)
            inv = _invariant(shard, nh)
            relations += inv["relations"]
            if inv["verdict"] == "violation":
                bad.append({"history": nh, "violations": inv["violations"], "relations": inv["relations"]})
    return {
        "id": shard["id"], "verdict": "ok", "relations": relations, "nontrivial": True,
        "tags": [f"bfs-{shard['cls']}", f"bfs-spacing-{shard['spacing']}"],
        "detail": {"states": len(seen), "transitions": transitions, "depth": depth_reached, "bad": bad,
                   "distinct_outcomes": {k: len(v) for k, v in outcomes.items()}, "ops": len(ops), "capped": capped},
    }


def bfs3_shards(tier: str) -> list[dict]:
    """quick: 3 (r,s) x spacing x (6,5) x 3 initial thicknesses with the 27+3 operation alphabet (ids end in A27).
    thorough: the same shards plus all 9 (r,s) x spacing x {(6,5),(20,11)} x 3 initial thicknesses with the full
    81+3 alphabet (ids end in A81)."""

    def shards(rs, mns, alphabet, tag):
        out = []
        for (rr, s), sp, (M, N), L0 in itertools.product(rs, SPACINGS, mns, LS):
            out.append(dict(cls="g3", alphabet=alphabet, r=rr, s=s, spacing=sp, M=M, N=N, L0=L0, kin0=3.0, kout0=3.0, cf0=0.0, T0=1.0,
                            id=f"r={rr:g},s={s:g},{sp},{M}x{N},L0={L0:g},{tag}"))
        return out

    out = shards([(0.2, 0.01), (0.5, 0.1), (0.8, 0.5)], [(6, 5)], "quick", "A27")
    if tier == "thorough":
        out += shards(list(itertools.product(RS, SS)), [(6, 5), (20, 11)], "thorough", "A81")
    return out


def bfs1_shards(tier: str) -> list[dict]:
    out = []
    for sp, (M, N), L0 in itertools.product(SPACINGS, [(6, 5), (20, 11)], LS):
        out.append(dict(cls="g1", alphabet=tier, spacing=sp, M=M, N=N, L0=L0, T0=1.0, id=f"{sp},{M}x{N},L0={L0:g}"))
    return out


def run_bfs(ctx, section: str, shards: list[dict]) -> None:
    """One record per shard. A failing observable yields ONE violation per shard whose relation name carries the
    exact set of violating states as `[k/n states #fingerprint]` (fingerprint = sha1 of the sorted violating
    history ids): a known finding listed by that key stays known only while exactly the same states fail."""
    import hashlib

    from ..lattice import run_cases

    results = run_cases(case_bfs, shards, timeout=1500)
    tot_states = tot_trans = 0
    vac = {}
    for shard, res in zip(shards, results):
        if res.get("verdict") == "harness-error":
            ctx.record(section, res, shard)
            continue
        d = res["detail"]
        tot_states += d["states"]
        tot_trans += d["transitions"]
        for k, v in d["distinct_outcomes"].items():
            vac[k] = max(vac.get(k, 0), v)
        if d.get("capped"):
            ctx.cap(f"{section}/{shard['id']}: more than {MAX_STATES} states; explored completely only below that")
        by_rel: dict = {}
        for b in d["bad"]:  # BFS order: the first entry of each relation is a shortest violating history
            for v in b["violations"]:
                by_rel.setdefault(v["relation"], []).append((b["history"], v["detail"]))
        viols = []
        for rel in sorted(by_rel):
            items = by_rel[rel]
            ids = sorted(_histid(h) for h, _ in items)
            fp = hashlib.sha1("\n".join(ids).encode()).hexdigest()[:8]
            viols.append({
                "relation": f"{rel}[{len(items)}/{d['states']} states #{fp}]",
                "detail": {"first_history": items[0][0], "first_history_id": _histid(items[0][0]), "first": items[0][1],
                           "more": [_histid(h) for h, _ in items[1:6]], "violating_states": len(items)},
            })
        out = {"id": shard["id"], "verdict": "violation" if viols else "ok", "violations": viols, "relations": res["relations"],
               "tags": res["tags"] + (["bfs-shard-with-violating-states"] if viols else []),
               "detail": {k: d[k] for k in ("states", "transitions", "depth", "ops", "distinct_outcomes")}}
        ctx.record(section, out, shard)
    ctx.add_bfs(tot_states, tot_trans, tot_trans)
    ctx.note(f"{section}_depth_completed", DEPTH)
    ctx.note(f"{section}_states", tot_states)
    ctx.note(f"{section}_distinct_outcomes_per_op(max over shards)", vac)
    for k, v in vac.items():
        if v <= 1:
            ctx.note(f"{section}_vacuous_op_{k}", "only one outcome observed")


# ----------------------------------------------------------------------------------------- (L) EOM._updateGrid
WALLS = {
    "1f": ([5.0], [0.0]),
    "2f": ([5.0, 8.0], [0.0, 0.4]),
    "2f-thin-shifted": ([0.05, 0.02], [0.0, -1.5]),
    "3f": ([1.0, 3.0, 0.5], [0.0, 0.3, -2.0]),
}
VELS = [0.05, 0.6, 0.99]
MFPS = [1.0, 100.0]


def _eom(grid, mfp, off_eq):
    """A real EOM (real constructor, stand-in thermodynamics / hydrodynamics: no model needed) on the given grid."""
    from .. import wg

    return wg.construct_eom(grid=grid, meanFreePathScale=mfp, includeOffEq=off_eq)


def _wallparams(name):
    from WallGo.containers import WallParams

    w, d = WALLS[name]
    return WallParams(widths=np.array(w, dtype=float), offsets=np.array(d, dtype=float))


def case_updategrid(p: dict) -> dict:
    r = Rel(p["id"])
    rr, s = p["r"], p["s"]
    base = dict(M=20, N=11, spacing="Spectral", r=rr, s=s, L=1.0, kin=3.0, kout=3.0, cf=0.0, T=1.0)
    g = _g3(base)
    eom = _eom(g, p["mfp"], p["offEq"])
    try:
        if p["prev"] != "none":
            eom._updateGrid(_wallparams(p["prev"]), 0.6)
        eom._updateGrid(_wallparams(p["wall"]), p["v"])
    except Exception as e:
        r.true("updateGrid-succeeds", False, error=repr(e))
        return r.result()
    w, d = WALLS[p["wall"]]
    want = O.update_grid_scales(w, d, p["v"], p["mfp"], p["offEq"], rr, s)
    scale = max(abs(x) * (1 + abs(y)) for x, y in zip(w, d))
    # a handful of products/sums of the widths: 64*eps*sum|terms|
    _ratio(r, "wallThickness", g.wallThickness, want["L"], 64 * EPS * 2 * scale)
    _ratio(r, "wallCenter", g.wallCenter, want["centre"], 64 * EPS * 3 * scale)
    _ratio(r, "tailLengthInside", g.tailLengthInside, want["tin"], 64 * EPS * want["tin"])
    _ratio(r, "tailLengthOutside", g.tailLengthOutside, want["tout"], 64 * EPS * want["tout"])
    r.true("ratio-and-smoothing-kept", g.ratioPointsWall == rr and g.smoothing == s)
    lim = want["L"] * (0.5 + s) / rr
    r.true("tails-admissible", g.tailLengthInside > lim and g.tailLengthOutside > lim)
    r.tag("updategrid", "tail-in-from-mfp" if want["tin"] > want["L"] * (0.5 + 1.05 * s) / rr else "tail-in-from-floor",
          "tail-out-from-mfp" if want["tout"] > want["L"] * (0.5 + 1.05 * s) / rr else "tail-out-from-floor",
          f"fields-{len(w)}", "prev-call" if p["prev"] != "none" else "first-call")
    # the re-mapped grid satisfies the map relations (the inverse is covered by `inv3` on constructed grids and by
    # `same-as-constructed:compactify:*` below) ...
    sc = dict(L=want["L"], r=rr, s=s, tin=want["tin"], tout=want["tout"], centre=want["centre"])
    check_position_3scale(r, g, sc)
    check_cache(r, g, "updated")
    # ... and equals a grid constructed with those scales. The scales are read back from the object (they were
    # compared with the oracle above), so both grids get bit-identical inputs and the 12-digit rounding of
    # the digest cannot sit on a rounding boundary.
    from WallGo.grid3Scales import Grid3Scales

    ref = Grid3Scales(20, 11, g.tailLengthInside, g.tailLengthOutside, g.wallThickness, 1.0, rr, s, g.wallCenter, "Spectral")
    model = {"L": float(g.wallThickness), "T": 1.0, "cf": float(g.wallCenter / g.wallThickness)}
    a, b = _observables(g, model), _observables(ref, model)
    for name in sorted(set(a) | set(b)):
        same = name in a and name in b and B.digest(a[name]) == B.digest(b[name])
        r.true("same-as-constructed:" + name, same)
    return r.result()


def updategrid_cases(tier: str) -> list[dict]:
    out = []
    for wall, v, mfp, off, (rr, s), prev in itertools.product(
        WALLS, VELS, MFPS, (False, True), [(0.5, 0.1), (0.2, 0.01), (0.8, 0.5)], ("none", "1f", "3f")
    ):
        out.append(dict(wall=wall, v=v, mfp=mfp, offEq=off, r=rr, s=s, prev=prev))
    return with_ids(out)


# ----------------------------------------------------------------------------------------- driver
LATTICE = {
    "g3": (g3_cases, case_g3),
    "inv3": (inv3_cases, case_inv3),
    "g1": (g1_cases, case_g1),
    "updategrid": (updategrid_cases, case_updategrid),
}
BFS = {"bfs3": bfs3_shards, "bfs1": bfs1_shards}


def run(ctx) -> None:
    for name, (gen, fn) in LATTICE.items():
        if ctx.only and ctx.only != name:
            continue
        cases = gen(ctx.tier)
        ctx.run_lattice(name, cases, fn, timeout=300)
        ctx.note(f"{name}_lattice_points", len(cases))
    for name, gen in BFS.items():
        if ctx.only and ctx.only != name:
            continue
        run_bfs(ctx, name, gen(ctx.tier))
    ctx.exhaustive = True
    ctx.note("exhaustive_scope", "the stated finite cross products and all histories of <=3 rescaling calls over the stated "
             "argument alphabets (per shard); not the reals")
    ctx.note("points_per_map", "collocation points + 201 dense points in [-0.99, 0.99] (+ chi=0)")


def replay(rep: dict) -> dict:
    section = rep["section"]
    if section in BFS:  # re-run the invariant in the first (shortest) violating state of the shard
        return _invariant(rep["params"], rep["detail"]["first_history"])
    return LATTICE[section][1](rep["params"])
