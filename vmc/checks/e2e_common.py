"""Shared end-to-end pipeline for the metamorphic properties C07 (units) and C08 (relabelling):
build the model, set up thermodynamics/hydrodynamics, LTE velocity, solve the wall, and return
every output together with the stage at which something raised (so a failure is localised)."""
from __future__ import annotations

import logging
import os
import pathlib
import shutil

import numpy as np

from .. import models as MD
from .. import wg

BASES = {
    "xsm2": lambda: (MD.xsm2(), "S1", "S0"),
    "xsm3": lambda: (MD.xsm3(), "S12", "S0"),
    "cubicB": lambda: (MD.Cubic1(0.4, 0.08, 0.1, 100.0, 12.0), "sym", "brk"),
    # T0 = 75 < 0.8*Tn for Tn = 100: the symmetric phase exists with a margin over the range the solver needs (Tc = 106.07, T1 = 113.4)
    "cubicD": lambda: (MD.Cubic1(0.2, 0.1, 0.1, 75.0, 12.0), "sym", "brk"),
    # cubicD plus a massive field that sits at 0 in both phases (last field): a permutation can put the field that does NOT change first
    "cubicS": lambda: (MD.Spectator(MD.Cubic1(0.2, 0.1, 0.1, 75.0, 12.0), 400.0, 0.3, 0.5, 0.4), "sym", "brk"),
    "cubicC": lambda: (MD.Cubic1(0.2, 0.05, 0.1, 90.0, 30.0), "sym", "brk"),
}


def build(spec):
    am, hi, lo = BASES[spec["base"]]()
    if spec.get("relabel"):
        perm, signs, shift = spec["relabel"]
        am = MD.Relabel(am, perm, signs, shift)
    s = spec.get("s", 1.0)
    if s != 1.0:
        am = MD.Scaled(am, s)
    return am, hi, lo


YT = 0.99  # Yukawa coupling of the out-of-equilibrium fermion ("top") to field 0 of the BASE model
OFFEQ_N = 5
WORK = pathlib.Path(__file__).resolve().parents[2] / ".work" / "e2e-offeq"


def base_coordinates(am, phi):
    """(phi in the coordinates of the BASE model, constant Jacobian J[i, a] = d phi_base_a / d phi_i, product S of unit factors)
    for field values phi (..., nf) given in the coordinates of the wrapped model `am` (any nesting of Scaled / Relabel)."""
    phi = np.asarray(phi, dtype=float)
    J = np.identity(am.nf)
    S = 1.0
    while True:
        if isinstance(am, MD.Scaled):
            phi, J, S, am = phi / am.s, J / am.s, S * am.s, am.b
        elif isinstance(am, MD.Relabel):
            phi, J, am = am.to_base(phi), J @ am.G, am.b
        else:
            return phi, J, S


def top_particle(am):
    """One out-of-equilibrium fermion whose mass is m^2 = yt^2 phi_0^2 / 2 in the BASE model, expressed - value and gradient -
    in the field coordinates and units of `am` ("the particle masses transformed consistently", C08; "mass parameters", C07)."""
    import WallGo

    def msq(fields):
        b, _, S = base_coordinates(am, np.asarray(fields, dtype=float).reshape(-1, am.nf))
        return S**2 * 0.5 * YT**2 * b[:, 0] ** 2

    def dmsq(fields):
        b, J, S = base_coordinates(am, np.asarray(fields, dtype=float).reshape(-1, am.nf))
        gb = np.zeros_like(b)
        gb[:, 0] = YT**2 * b[:, 0]
        return S**2 * gb @ J.T  # d/dphi_i = sum_a d/dphi_base_a * J[i, a]

    return WallGo.Particle(name="top", index=0, msqVacuum=msq, msqDerivative=dmsq, statistics="Fermion", totalDOFs=12)


def pipeline(spec: dict) -> dict:
    """spec: base, Tn (in base units), s, relabel, M, settings ('default'|'tight'), fscale/Tscale in base units;
    offeq = {"kappa":…, "basis":…, "dN":…}: the wall solve includes one out-of-equilibrium particle (top_particle) with the synthetic
    relaxation collision operator of c01_offeq (dimensionless: the solver multiplies it by T^2)."""
    import WallGo

    logging.disable(logging.CRITICAL)
    out = {"stage": "build", "spec": spec}
    am, hi, lo = build(spec)
    s = spec.get("s", 1.0)
    Tn = spec["Tn"] * s
    tight = spec.get("settings", "default") == "tight"

    def cfg(config):
        if tight:
            config.configEOM.errTol = 3e-4
            config.configThermodynamics.phaseTracerTol = 1e-8
            config.configHydrodynamics.relativeTol = 1e-8

    fscale = np.asarray(spec.get("fscale", [10.0] * am.nf), dtype=float)
    if spec.get("relabel"):
        fscale = fscale[spec["relabel"][0]]  # per-field scales permuted consistently
    try:
        out["stage"] = "setup"
        offeq = spec.get("offeq")
        if spec.get("previous") is not None:
            # the manager has served ANOTHER description of the physics before (e.g. the original labelling of the fields) at the same
            # nucleation temperature and is now set up again, as its documentation asks for "whenever details of the model change"
            pam, phi_, plo_ = build({**spec, **spec["previous"]})
            pfs = np.asarray(spec.get("fscale", [10.0] * pam.nf), dtype=float)
            if spec["previous"].get("relabel"):
                pfs = pfs[spec["previous"]["relabel"][0]]
            m = wg.setup_manager(pam, Tn, phi_, plo_, M=spec.get("M", 20), N=OFFEQ_N if offeq else 11, cfg=cfg,
                                 Tscale=spec.get("Tscale", 10.0) * s, fscale=pfs * s)
            wg.resetup(m, am, Tn, hi, lo, Tscale=spec.get("Tscale", 10.0) * s, fscale=fscale * s)
        else:
            m = wg.setup_manager(am, Tn, hi, lo, M=spec.get("M", 20), N=OFFEQ_N if offeq else 11, cfg=cfg, Tscale=spec.get("Tscale", 10.0) * s, fscale=fscale * s)
        hyd, th = m.hydrodynamics, m.thermodynamics
        out.update(
            Tn=Tn, vJ=float(hyd.vJ), vMin=float(hyd.vMin), alN=float(hyd.template.alN), psiN=float(hyd.template.psiN),
            cs2=float(hyd.template.cs2), cb2=float(hyd.template.cb2),
            TminHigh=float(th.freeEnergyHigh.minPossibleTemperature[0]), TmaxHigh=float(th.freeEnergyHigh.maxPossibleTemperature[0]),
            TminLow=float(th.freeEnergyLow.minPossibleTemperature[0]), TmaxLow=float(th.freeEnergyLow.maxPossibleTemperature[0]),
            flags=[bool(th.freeEnergyHigh.minPossibleTemperature[1]), bool(th.freeEnergyHigh.maxPossibleTemperature[1]),
                   bool(th.freeEnergyLow.minPossibleTemperature[1]), bool(th.freeEnergyLow.maxPossibleTemperature[1])],
            pHigh=float(th.pHighT(Tn)), pLow=float(th.pLowT(Tn)),
            phaseHigh=np.asarray(th.freeEnergyHigh(Tn).fieldsAtMinimum, dtype=float).reshape(-1),
            phaseLow=np.asarray(th.freeEnergyLow(Tn).fieldsAtMinimum, dtype=float).reshape(-1),
        )
        out["stage"] = "Tc"
        try:
            out["Tc"] = float(th.findCriticalTemperature(dT=0.1 * s, rTol=1e-8))
        except Exception as ex:
            out["Tc_error"] = repr(ex)[:200]
        out["stage"] = "LTE"
        out["vLTE"] = float(m.wallSpeedLTE())
        out["stage"] = "matching"
        out["matching"] = [[float(x) for x in hyd.findMatching(v)] for v in (0.3, 0.5 * (np.sqrt(out["cb2"]) + out["vJ"]), 0.9)]
        out["stage"] = "solveWall"
        directory = None
        if offeq:
            from .c01_offeq import write_collisions

            directory = WORK / f"run-{os.getpid()}"
            shutil.rmtree(directory, ignore_errors=True)
            write_collisions(directory, offeq["kappa"], OFFEQ_N + offeq.get("dN", 0), offeq.get("basis", "Cardinal"))
            m.model.addParticle(top_particle(am))
            m.setPathToCollisionData(directory)
        try:
            res = m.solveWall(wg.solver_settings(offeq=bool(offeq), thickness=5.0))
        finally:
            if directory is not None:
                shutil.rmtree(directory, ignore_errors=True)
        if offeq:
            out.update(
                deltaF=np.asarray(res.deltaF, dtype=float), truncationError=float(res.truncationError),
                lin1=np.asarray(res.linearizationCriterion1, dtype=float), lin2=np.asarray(res.linearizationCriterion2, dtype=float),
                hasOffEq=bool(res.hasOutOfEquilibrium), vwLTEres=res.wallVelocityLTE,
                **{k: np.array(getattr(res.Deltas, k).coefficients, dtype=float) for k in ("Delta00", "Delta02", "Delta20", "Delta11")},
            )
        out.update(
            vw=res.wallVelocity, success=bool(res.success), type=res.solutionType.name, Tplus=float(res.temperaturePlus), Tminus=float(res.temperatureMinus),
            widths=np.asarray(res.wallWidths, dtype=float), offsets=np.asarray(res.wallOffsets, dtype=float),
            fieldProfiles=np.asarray(res.fieldProfiles, dtype=float), temperatureProfile=np.asarray(res.temperatureProfile, dtype=float),
            velocityProfile=np.asarray(res.velocityProfile, dtype=float), errTol=float(m.config.configEOM.errTol), pRel=float(m.config.configEOM.pressRelErrTol),
        )
        out["stage"] = "done"
    except Exception as ex:
        out["error"] = type(ex).__name__ + ": " + str(ex)[:300]
    return out
