"""Shared end-to-end pipeline for the metamorphic properties C07 (units) and C08 (relabelling):
build the model, set up thermodynamics/hydrodynamics, LTE velocity, solve the wall, and return
every output together with the stage at which something raised (so a failure is localised)."""
from __future__ import annotations

import logging

import numpy as np

from .. import models as MD
from .. import wg

BASES = {
    "xsm2": lambda: (MD.xsm2(), "S1", "S0"),
    "xsm3": lambda: (MD.xsm3(), "S12", "S0"),
    "cubicB": lambda: (MD.Cubic1(0.4, 0.08, 0.1, 100.0, 12.0), "sym", "brk"),
    # T0 = 75 < 0.8*Tn for Tn = 100: the symmetric phase exists with a margin over the range the solver needs (Tc = 106.07, T1 = 113.4)
    "cubicD": lambda: (MD.Cubic1(0.2, 0.1, 0.1, 75.0, 12.0), "sym", "brk"),
    # cubicD plus a massive field that sits at 0 in both phases (last field): a permutation can put the field that does NOT change first
    "cubicS": lambda: (MD.Spectator(MD.Cubic1(0.2, 0.1, 0.1, 75.0, 12.0), 400.0, 0.3, 0.5, 0.4), "sym", "brk"),
    "cubicC": lambda: (MD.Cubic1(0.2, 0.05, 0.1, 90.0, 30.0), "sym", "brk"),
}


def build(spec):
    am, hi, lo = BASES[spec["base"]]()
    if spec.get("relabel"):
        perm, signs, shift = spec["relabel"]
        am = MD.Relabel(am, perm, signs, shift)
    s = spec.get("s", 1.0)
    if s != 1.0:
        am = MD.Scaled(am, s)
    return am, hi, lo


def pipeline(spec: dict) -> dict:
    """spec: base, Tn (in base units), s, relabel, M, settings ('default'|'tight'), fscale/Tscale in base units."""
    import WallGo

    logging.disable(logging.CRITICAL)
    out = {"stage": "build", "spec": spec}
    am, hi, lo = build(spec)
    s = spec.get("s", 1.0)
    Tn = spec["Tn"] * s
    tight = spec.get("settings", "default") == "tight"

    def cfg(config):
        if tight:
            config.configEOM.errTol = 3e-4
            config.configThermodynamics.phaseTracerTol = 1e-8
            config.configHydrodynamics.relativeTol = 1e-8

    fscale = np.asarray(spec.get("fscale", [10.0] * am.nf), dtype=float)
    if spec.get("relabel"):
        fscale = fscale[spec["relabel"][0]]  # per-field scales permuted consistently
    try:
        out["stage"] = "setup"
        m = wg.setup_manager(am, Tn, hi, lo, M=spec.get("M", 20), N=11, cfg=cfg, Tscale=spec.get("Tscale", 10.0) * s, fscale=fscale * s)
        hyd, th = m.hydrodynamics, m.thermodynamics
        out.update(
            Tn=Tn, vJ=float(hyd.vJ), vMin=float(hyd.vMin), alN=float(hyd.template.alN), psiN=float(hyd.template.psiN),
            cs2=float(hyd.template.cs2), cb2=float(hyd.template.cb2),
            TminHigh=float(th.freeEnergyHigh.minPossibleTemperature[0]), TmaxHigh=float(th.freeEnergyHigh.maxPossibleTemperature[0]),
            TminLow=float(th.freeEnergyLow.minPossibleTemperature[0]), TmaxLow=float(th.freeEnergyLow.maxPossibleTemperature[0]),
            flags=[bool(th.freeEnergyHigh.minPossibleTemperature[1]), bool(th.freeEnergyHigh.maxPossibleTemperature[1]),
                   bool(th.freeEnergyLow.minPossibleTemperature[1]), bool(th.freeEnergyLow.maxPossibleTemperature[1])],
            pHigh=float(th.pHighT(Tn)), pLow=float(th.pLowT(Tn)),
            phaseHigh=np.asarray(th.freeEnergyHigh(Tn).fieldsAtMinimum, dtype=float).reshape(-1),
            phaseLow=np.asarray(th.freeEnergyLow(Tn).fieldsAtMinimum, dtype=float).reshape(-1),
        )
        out["stage"] = "Tc"
        try:
            out["Tc"] = float(th.findCriticalTemperature(dT=0.1 * s, rTol=1e-8))
        except Exception as ex:
            out["Tc_error"] = repr(ex)[:200]
        out["stage"] = "LTE"
        out["vLTE"] = float(m.wallSpeedLTE())
        out["stage"] = "matching"
        out["matching"] = [[float(x) for x in hyd.findMatching(v)] for v in (0.3, 0.5 * (np.sqrt(out["cb2"]) + out["vJ"]), 0.9)]
        out["stage"] = "solveWall"
        res = m.solveWall(wg.solver_settings(offeq=False, thickness=5.0))
        out.update(
            vw=res.wallVelocity, success=bool(res.success), type=res.solutionType.name, Tplus=float(res.temperaturePlus), Tminus=float(res.temperatureMinus),
            widths=np.asarray(res.wallWidths, dtype=float), offsets=np.asarray(res.wallOffsets, dtype=float),
            fieldProfiles=np.asarray(res.fieldProfiles, dtype=float), temperatureProfile=np.asarray(res.temperatureProfile, dtype=float),
            velocityProfile=np.asarray(res.velocityProfile, dtype=float), errTol=float(m.config.configEOM.errTol), pRel=float(m.config.configEOM.pressRelErrTol),
        )
        out["stage"] = "done"
    except Exception as ex:
        out["error"] = type(ex).__name__ + ": " + str(ex)[:300]
    return out
