"""C04 - the plasma profile inside the wall conserves energy-momentum pointwise.

(L) lattice: potential {cubic1, xsm2, xsm3} x wall velocity (3 deflagrations, 2 hybrids, 3 detonations)
x grid size M {20,40} x tanh wall shape (widths {0.5,1,2} L0 per field, offsets {-1,0,0.7}) x
out-of-equilibrium moments {zero, D00, D02, D20, D11, all}.  The real
`Hydrodynamics.findHydroBoundaries` supplies (c1, c2, T+, T-, velocityMid), the real
`EOM.findPlasmaProfile` is run on every lattice point, and at EVERY grid point of every profile that kept
`successTemperatureProfile == True` the analytic model (V, dV/dT in closed form) is used to evaluate

    T30 = w gamma^2 v + T30_out                       (must equal c1)
    T33 = 1/2 phi'^2 - V + w gamma^2 v^2 + T33_out    (must equal c2)        w = -T dV/dT

Eliminating v with T30 = c1 gives Eq.(20) of arXiv:2204.13120, F(T) = 1/2 phi'^2 - V - w/2 + 1/2 sqrt(4 s1^2 + w^2) - s2
with s1 = c1 - T30_out, s2 = c2 - T33_out; T33 == c2 is F(T) == 0.

Three sections:
  boundaries : one case per (potential, v_w): sign conventions of c1 / velocityMid, admissibility of the matching
  profile    : one case per (potential, M, v_w, widths, offsets); the six moment variants are looped inside
  reuse      : all ordered pairs (previous wall -> judged wall) on ONE EOM object without a grid update in between: the judged
               profile is held to the same pointwise relations (a result that depends on what the object solved before fails them)
"""
from __future__ import annotations

import itertools
import math

import numpy as np

from ..lattice import Rel
from .. import models as MD
from .. import wg

LEVEL = "exploration"
RULE = (
    "full cross product potential{cubic1,xsm2,xsm3} x v_w{3 deflagrations,2 hybrids,3 detonations} x M{20,40} x widths{0.5,1,2}^nf L0 x "
    "offsets{-1,0,0.7}^nf (xsm3 thorough: first offset 0 plus the two uniform offsets; quick: 3-4 width x 3 offset combinations for nf>1, M=40 only for unit widths) x "
    "moments{zero,D00,D02,D20,D11,all}; every grid point of every successful profile is one oracle point (4 relations) plus 4 far-field relations "
    "per profile. A case is non-trivial if at least one profile kept successTemperatureProfile and the branch measured from the analytic sound speed "
    "(deflagration/hybrid/detonation) is the one the lattice point targets; distinct = distinct case id."
)
ASSUMPTIONS = [
    "oracle uses closed-form V and dV/dT of the analytic model at the fields given to the solver and the returned T; nothing of WallGo's EffectivePotential is called by the oracle",
    "out-of-equilibrium stress: the code's own EOM.deltaToTmunu output is used ONLY as an additive term (its correctness is C13's job), but it is called by the "
    "oracle with the oracle's own velocity argument -(v+ + v-)/2 taken from findMatching, so a wrong velocityMid convention is visible",
    "T33 tolerance = root finder guarantee: brentq(xtol=1e-10, rtol=errTol/10) returns T within xtol+rtol*T of a root of the code's F; the oracle demands a sign "
    "change (or |F| <= rounding slack) of the ANALYTIC F on 9 samples of [T(1-2 rtol)-2 xtol, T(1+2 rtol)+2 xtol] (factor 2 = safety)",
    "rounding slack of F and T30: 64*eps*sum|terms| plus the rounding of the code's 5-point finite-difference dV/dT, 1.5*64*eps*sum|V terms|/dx with "
    "dx = temperatureVariationScale*effectivePotentialError^(1/5) read from the potential object; the lattice potentials are polynomials of degree <= 4 in T, "
    "for which that stencil has no truncation error (C19)",
    "far field, two relations per end: (root) T[0], T[-1] equal the oracle's own bisection root of the analytic F on the physical branch (subsonic iff v+ < "
    "analytic c_s(T+)) within the root finder's guarantee 2(rtol T + xtol); (limit) |T[0]-T-|, |T[-1]-T+| <= root guarantee + 1e-3 T and |v + v-/+| <= |dv/dT| tol_T "
    "+ 1e-3: the 1e-3 is the stated finite-grid meaning of 'tends to' (the oracle-predicted tail displacement is recorded and is <= 1e-4 T), not a numerical tolerance",
    "admissible = both phases exist as analytic minima at T+ / T- inside the traced range, and the analytic fluxes at (T+,v+) and (T-,v-) agree to 1e-4 "
    "(matching converged; its accuracy is C02/C06's job); anything else, including findHydroBoundaries raising, is counted inadmissible",
    "profiles whose successTemperatureProfile is False are counted (tag profile-failed) and not judged; a point where the code returns the minimum of F although "
    "F>0 there (no root) while success stays True shows up as a T33-root violation (tag no-root-minimum-returned)",
]

EPS = float(np.finfo(float).eps)
A_RAD = 107.75 * np.pi**2 / 90

# --------------------------------------------------------------------------- lattice definition
# name -> (model factory, Tn, high phase, low phase, wall velocities by intended class)
POTS = {
    "cubic1": dict(make=lambda: MD.Cubic1(0.2, 0.1, 0.1, 75.0, A_RAD), Tn=100.0, high="sym", low="brk",
                   vw=dict(deflagration=[0.2, 0.4, 0.55], hybrid=[0.59, 0.63], detonation=[0.7, 0.8, 0.95])),
    "xsm2": dict(make=MD.xsm2, Tn=100.0, high="S1", low="S0",
                 vw=dict(deflagration=[0.2, 0.4, 0.55], hybrid=[0.59, 0.62], detonation=[0.64, 0.8, 0.95])),
    "xsm3": dict(make=MD.xsm3, Tn=100.0, high="S12", low="S0",
                 vw=dict(deflagration=[0.2, 0.4, 0.55], hybrid=[0.59, 0.62], detonation=[0.64, 0.8, 0.95])),
}
WIDTHS = (0.5, 1.0, 2.0)  # in units of L0 = 5/Tn (the solver's default wallThicknessGuess)
OFFSETS = (-1.0, 0.0, 0.7)
DELTAS = ("zero", "D00", "D02", "D20", "D11", "all")
DELTA_EPS = 0.02  # moments are DELTA_EPS * Tn^k * smooth bump: out-of-eq. stress is 0.1-1 % of c1, c2
MS = (20, 40)
PARTICLE_DOF = 12
FAR_ALLOW = 1e-3  # meaning of 'tends to' at the first/last grid point (relative for T, absolute for v)


def _nf(pot: str) -> int:
    return {"cubic1": 1, "xsm2": 2, "xsm3": 3}[pot]


def shapes(pot: str, tier: str) -> list[tuple[list, list]]:
    nf = _nf(pot)
    if nf == 1:
        return [([w], [o]) for w in WIDTHS for o in OFFSETS]
    if tier == "quick":
        if nf == 2:
            ws = [[1.0, 1.0], [0.5, 2.0], [2.0, 0.5], [0.5, 0.5]]  # the last one x offsets -1|0.7 has a no-root point without any Deltas
            os_ = [[0.0, 0.0], [-1.0, 0.7], [0.7, -1.0]]
        else:
            ws = [[1.0, 1.0, 1.0], [0.5, 1.0, 2.0], [2.0, 0.5, 1.0]]
            os_ = [[0.0, 0.0, 0.0], [0.0, -1.0, 0.7], [0.0, 0.7, -1.0]]
        return [(w, o) for w in ws for o in os_]
    ws = [list(w) for w in itertools.product(WIDTHS, repeat=nf)]
    if nf == 2:
        os_ = [list(o) for o in itertools.product(OFFSETS, repeat=2)]
    else:  # 27 x 27 is outside the budget: WallGo's own convention (first offset 0) plus the two uniform shifts
        os_ = [[0.0, a, b] for a in OFFSETS for b in OFFSETS] + [[-1.0] * 3, [0.7] * 3]
    return [(w, o) for w in ws for o in os_]


def _fl(xs) -> str:
    return "|".join(f"{x:g}" for x in xs)


def boundary_cases(tier: str) -> list[dict]:
    out = []
    for pot, spec in POTS.items():
        for cls, vws in spec["vw"].items():
            for vw in vws:
                out.append(dict(pot=pot, vw=vw, cls=cls, id=f"{pot},vw={vw:g}"))
    return out


def profile_cases(tier: str) -> list[dict]:
    out = []
    for pot, spec in POTS.items():
        for M in MS:
            for cls, vws in spec["vw"].items():
                for vw in vws:
                    for w, o in shapes(pot, tier):
                        if tier == "quick" and M != MS[0] and any(x != 1.0 for x in w):
                            continue  # quick: the finer grid only for the unit-width shapes (3 offsets each)
                        out.append(dict(pot=pot, M=M, vw=vw, cls=cls, widths=w, offsets=o,
                                        id=f"{pot},M={M},vw={vw:g},w={_fl(w)},o={_fl(o)}"))
    return out


def reuse_cases(tier: str) -> list[dict]:
    """All ordered pairs (previous wall -> judged wall) over one velocity per branch (thorough: over all eight velocities), unit
    wall shape, M = 20; the judged profile runs with the moment variants D00 and all (the previous call used 'all')."""
    out = []
    for pot, spec in POTS.items():
        vws = [(cls, v) for cls, vs in spec["vw"].items() for v in (vs if tier == "thorough" else vs[1:2])]
        nf = _nf(pot)
        for (clsA, vA), (clsB, vB) in itertools.permutations(vws, 2):
            out.append(dict(pot=pot, M=MS[0], vw=vB, cls=clsB, pre_vw=vA, widths=[1.0] * nf, offsets=[0.0] * nf, deltas=["D00", "all"],
                            id=f"{pot},M={MS[0]},previous-vw={vA:g},vw={vB:g}"))
    return out


# --------------------------------------------------------------------------- real objects (cached, inherited by fork)
_MGR: dict = {}
_BC: dict = {}


def _mgr(pot: str, M: int):
    """(analytic model, WallGoManager, EOM) for the potential, built once per process."""
    key = (pot, M)
    if key not in _MGR:
        spec = POTS[pot]
        am = spec["make"]()
        m = wg.setup_manager(am, spec["Tn"], spec["high"], spec["low"], M=M, N=11)
        ws = m.setupWallSolver(wg.solver_settings(offeq=False))
        _MGR[key] = (am, m, ws.eom)
    return _MGR[key]


def _boundaries(pot: str, vw: float) -> dict:
    """Run the real findHydroBoundaries (capturing the findMatching call it makes) - cached."""
    key = (pot, float(vw))
    if key in _BC:
        return _BC[key]
    am, m, eom = _mgr(pot, MS[0])
    h, th = m.hydrodynamics, m.thermodynamics
    seen = []
    orig = h.findMatching

    def spy(v):
        out = orig(v)
        seen.append(out)
        return out

    h.findMatching = spy  # instance-level wrapper, removed below
    try:
        c1, c2, Tp, Tm, vmid = h.findHydroBoundaries(vw)
    finally:
        del h.findMatching
    vp, vm, Tp2, Tm2 = seen[-1]
    out = dict(c1=float(c1), c2=float(c2), Tp=float(Tp), Tm=float(Tm), vmid=float(vmid), vp=float(vp), vm=float(vm),
               Tp_match=float(Tp2), Tm_match=float(Tm2), ncalls=len(seen), Tn=float(h.Tnucl), vJ=float(h.vJ))
    # positions of the phases exactly as EOM.wallPressure obtains them
    loL, hiL = th.freeEnergyLow.interpolationRangeMin(), th.freeEnergyLow.interpolationRangeMax()
    loH, hiH = th.freeEnergyHigh.interpolationRangeMin(), th.freeEnergyHigh.interpolationRangeMax()
    out["in_range"] = bool(loL <= Tm <= hiL and loH <= Tp <= hiH)
    out["vevLow"] = np.asarray(th.freeEnergyLow(min(max(Tm, loL), hiL)).fieldsAtMinimum, float).reshape(-1).tolist()
    out["vevHigh"] = np.asarray(th.freeEnergyHigh(min(max(Tp, loH), hiH)).fieldsAtMinimum, float).reshape(-1).tolist()
    _BC[key] = out
    return out


# --------------------------------------------------------------------------- analytic oracle
def _vabs(am, phi, T):
    """sum of |terms| of V (for rounding bounds)."""
    phi = np.asarray(phi, float)
    if isinstance(am, MD.QuarticZ2):
        u = phi**2
        return float(0.5 * np.sum(np.abs(am.M(np.asarray(T, float))) * u) + 0.25 * u @ np.abs(am.Lam) @ u + abs(am.a) * T**4)
    if isinstance(am, MD.Cubic1):
        f = abs(float(phi[0]))
        return float(abs(am.D) * (T**2 + am.T0**2) * f**2 + abs(am.E) * T * f**3 + abs(am.lam) * f**4 / 4 + abs(am.a) * T**4)
    raise TypeError(type(am))


class Point:
    """Analytic Eq.(20) at one grid point: fields phi, phi' and the constants s1 = c1 - T30out, s2 = c2 - T33out."""

    def __init__(self, am, phi, dphi, s1, s2, dxT, extra_abs=0.0):
        self.am, self.phi, self.s1, self.s2 = am, np.asarray(phi, float), float(s1), float(s2)
        self.K = 0.5 * float(np.sum(np.asarray(dphi, float) ** 2))
        self.dxT = dxT
        self.extra = extra_abs  # |c2| + |T33out| (rounding of s2)

    def w(self, T):
        return float(-T * self.am.dVdT(self.phi, T))

    def dwdT(self, T):
        return float(-self.am.dVdT(self.phi, T) - T * self.am.d2VdT2(self.phi, T))

    def dw_round(self, T):
        """bound on |w_code - w_analytic|: rounding of the 5-point stencil, sum|c_i| = 1.5, each V to 64 eps sum|terms|"""
        return T * 1.5 * 64 * EPS * _vabs(self.am, self.phi, T + 2 * self.dxT) / self.dxT

    def F(self, T):
        w = self.w(T)
        return self.K - float(self.am.V(self.phi, T)) - 0.5 * w + 0.5 * math.sqrt(4 * self.s1**2 + w**2) - self.s2

    def slackF(self, T):
        w = self.w(T)
        S = math.sqrt(4 * self.s1**2 + w**2)
        # |dF/dw| <= 1/2
        return 64 * EPS * (self.K + _vabs(self.am, self.phi, T) + abs(w) + S + abs(self.s2) + self.extra) + 0.5 * self.dw_round(T)

    def v(self, T):
        """velocity solving w gamma^2 v = s1 (stable form of (-w + sqrt(4 s1^2 + w^2)) / (2 s1))"""
        w = self.w(T)
        return 2 * self.s1 / (w + math.sqrt(4 * self.s1**2 + w**2))

    def dvdT(self, T):
        w = self.w(T)
        S = math.sqrt(4 * self.s1**2 + w**2)
        return (-1 + w / S) / (2 * self.s1) * self.dwdT(T)


def _cs2_phase(am, name, T):
    """analytic sound speed squared of a phase: p'/(T p'') along the minimum."""
    loc = am.phase(name, T)
    dp = -float(am.dVdT(loc, T))
    g = np.asarray(am.dgraddT(loc, T), float)
    H = np.asarray(am.hess(loc, T), float)
    act = np.abs(loc) > 0  # Z2 directions with phi=0 stay at 0 (dgraddT vanishes there anyway)
    ddp = -float(am.d2VdT2(loc, T))
    if np.any(act):
        ddp += float(g[act] @ np.linalg.solve(H[np.ix_(act, act)], g[act]))
    return dp / (T * ddp)


def _flux(am, name, T, v):
    loc = am.phase(name, T)
    w = float(-T * am.dVdT(loc, T))
    p = float(-am.V(loc, T))
    g2 = 1 / (1 - v * v)
    return w * g2 * v, p + w * g2 * v * v


def _admissible(am, spec, bc) -> str | None:
    Tp, Tm, vp, vm = bc["Tp"], bc["Tm"], bc["vp"], bc["vm"]
    if not (Tp > 0 and Tm > 0 and 0 < vp < 1 and 0 < vm < 1):
        return "no-matching-returned"
    if not bc["in_range"]:
        return "T-outside-traced-range"
    if not (am.is_minimum(spec["high"], Tp) and am.is_minimum(spec["low"], Tm)):
        return "phase-does-not-exist-at-Tpm"
    f30p, f33p = _flux(am, spec["high"], Tp, vp)
    f30m, f33m = _flux(am, spec["low"], Tm, vm)
    if abs(f30p - f30m) > 1e-4 * abs(f30p) or abs(f33p - f33m) > 1e-4 * abs(f33p):
        return "matching-not-converged"
    return None


def _measured_class(am, spec, bc) -> str:
    """branch by the physics: subsonic in front of the wall -> deflagration (v- = vw) or hybrid (v- < vw), else detonation"""
    csp = math.sqrt(_cs2_phase(am, spec["high"], bc["Tp"]))
    if bc["vp"] < csp:
        return "deflagration" if abs(bc["vm"] - bc["vw"]) <= 1e-9 else "hybrid"
    return "detonation"


# --------------------------------------------------------------------------- section: boundaries
def case_boundaries(p: dict) -> dict:
    r = Rel(p["id"])
    spec = POTS[p["pot"]]
    am, m, eom = _mgr(p["pot"], MS[0])
    try:
        bc = dict(_boundaries(p["pot"], p["vw"]), vw=p["vw"])
    except Exception as e:  # no matching, no boundary constants: nothing for C04 to judge (existence of matchings is C02/C06)
        r.detail["error"] = repr(e)[:300]
        return r.result(inadmissible="findHydroBoundaries-raised")
    r.detail.update({k: bc[k] for k in ("c1", "c2", "Tp", "Tm", "vmid", "vp", "vm", "vJ")})
    bad = _admissible(am, spec, bc)
    if bad:
        return r.result(inadmissible=bad)
    cls = _measured_class(am, spec, bc)
    r.tag(cls)
    # exact conventions (rounding only): velocityMid is the wall-frame midpoint with WallGo's negative sign, c1 < 0
    r.close("bc-velocityMid==-(v+ + v-)/2", bc["vmid"], -0.5 * (bc["vp"] + bc["vm"]), 8 * EPS)
    r.true("bc-c1-negative", bc["c1"] < 0, c1=bc["c1"])
    r.true("bc-one-matching-call-same-T", bc["Tp"] == bc["Tp_match"] and bc["Tm"] == bc["Tm_match"])
    # the |Tn - T+| < 1e-10 switch of findPlasmaProfilePoint must coincide with the physical branch
    r.true("bc-branch-switch-agrees", (abs(bc["Tn"] - bc["Tp"]) < 1e-10) == (cls == "detonation"), Tn=bc["Tn"], Tp=bc["Tp"], cls=cls)
    # c1, c2 against the analytic fluxes of the high phase at (T+, v+). Tolerance: WallGo's thermodynamics differentiates a
    # spline of the traced free energy (phaseTracerTol 1e-6 relative on the minimum) - 1e-5 relative is 10x that; the
    # observed agreement is ~1e-8. This relation is about the SIGN/assembly of c1, c2, not about EOS accuracy (C03).
    f30, f33 = _flux(am, spec["high"], bc["Tp"], bc["vp"])
    r.close("bc-c1==-w gamma^2 v+", bc["c1"], -f30, 1e-5 * abs(f30))
    r.close("bc-c2==p + w gamma^2 v+^2", bc["c2"], f33, 1e-5 * abs(f33))
    return r.result(nontrivial=(cls == p["cls"]))


# --------------------------------------------------------------------------- section: profile
def _bump(chi):
    # (1-chi^2)^4: ~1e-7 of the peak at the first/last grid point, so that the moments really vanish in the far field
    return (1 - chi**2) ** 4


def _deltas(eom, which: str, Tn: float):
    """BoltzmannDeltas for ONE particle: smooth profiles in the compact coordinate chi, vanishing at chi = +-1."""
    from WallGo import BoltzmannDeltas, Polynomial

    g = eom.grid
    chi = np.asarray(g.chiValues, float)
    b = _bump(chi)
    prof = {
        "D00": DELTA_EPS * Tn**2 * b,
        "D02": DELTA_EPS * Tn**4 * b * chi,
        "D20": DELTA_EPS * Tn**4 * b * (1 + chi) / 2,
        "D11": -DELTA_EPS * Tn**4 * b * (1 - chi) / 2,
    }

    def poly(name):
        a = prof[name] if which in (name, "all") else np.zeros_like(chi)
        return Polynomial(a[None, :].copy(), g, direction=("Array", "z"), basis=("Array", "Cardinal"))

    return BoltzmannDeltas(Delta00=poly("D00"), Delta02=poly("D02"), Delta20=poly("D20"), Delta11=poly("D11")), prof


def _particle():
    from WallGo import Particle

    # deltaToTmunu reads only totalDOFs and msqVacuum(fields); mass^2 = phi_0^2 / 2 (top-like, Yukawa 1)
    return Particle("top", index=0, msqVacuum=lambda f: 0.5 * f.getField(0) ** 2, msqDerivative=lambda f: f.getField(0),
                    statistics="Fermion", totalDOFs=PARTICLE_DOF)


def _root_window(pt: Point, T: float, rtol: float, xtol: float):
    """(margin, info): margin <= 1 iff the analytic F changes sign (or is within rounding of 0) inside the window."""
    js = range(-4, 5)
    Ts = [T * (1 + 2 * rtol * j / 4) + 2 * xtol * j / 4 for j in js]
    Fs = [pt.F(t) for t in Ts]
    slack = pt.slackF(T)
    f0 = Fs[4]
    info = dict(T=T, F_T=f0, F_lo=Fs[0], F_hi=Fs[-1], slack=slack)
    if abs(f0) <= slack:
        return 0.0, info
    s = 1.0 if f0 > 0 else -1.0
    best = None
    for k, f in enumerate(Fs):
        if s * f <= slack:  # opposite sign (or zero within rounding)
            # linear interpolation of the crossing between sample k and its neighbour towards T
            kn = k - 1 if k > 4 else k + 1
            fn = Fs[kn]
            frac = abs(fn) / (abs(fn) + abs(f)) if (abs(fn) + abs(f)) > 0 else 0.0
            cross = (abs(kn - 4) + frac) / 4.0
            best = cross if best is None else min(best, cross)
    if best is not None:
        return best, info
    # no sign change in the window: how far outside? (residual / largest variation inside the window)
    var = max(abs(f - f0) for f in Fs)
    return (1.0 + abs(f0) / var) if var > 0 else float("inf"), info


def _branch_root(pt: Point, Tguess: float, subsonic: bool):
    """The oracle's own root of the analytic F on the expected branch, near Tguess (plain bisections, no WallGo code).
    dF/dT = w/T - w_T v^2/(1+v^2) changes sign once (v = generalised sound speed): below it the flow is supersonic.
    Returns (T*, Tmin) or (None, Tmin) if F(Tmin) > 0 (no root at all), or (None, None) if the bracket assumptions fail."""

    def dF(T):
        v = pt.v(T)
        return pt.w(T) / T - pt.dwdT(T) * v * v / (1 + v * v)

    lo, hi = 0.5 * Tguess, 2.0 * Tguess
    if not (dF(lo) < 0 < dF(hi)):
        return None, None
    for _ in range(200):
        mid = 0.5 * (lo + hi)
        if dF(mid) < 0:
            lo = mid
        else:
            hi = mid
    Tmin = 0.5 * (lo + hi)
    if pt.F(Tmin) > pt.slackF(Tmin):
        return None, Tmin
    a = Tmin
    b = Tmin
    for _ in range(400):  # walk away from the minimum on the wanted side until F > 0
        b = b * 1.02 if subsonic else b / 1.02
        if pt.F(b) > 0:
            break
    else:
        return None, Tmin
    for _ in range(200):
        mid = 0.5 * (a + b)
        if pt.F(mid) > 0:
            b = mid
        else:
            a = mid
    return 0.5 * (a + b), Tmin


def case_profile(p: dict) -> dict:
    from WallGo import Fields, WallParams

    r = Rel(p["id"])
    spec = POTS[p["pot"]]
    am, m, eom = _mgr(p["pot"], p["M"])
    Tn = spec["Tn"]
    try:
        bc = dict(_boundaries(p["pot"], p["vw"]), vw=p["vw"])
    except Exception as e:
        r.detail["error"] = repr(e)[:300]
        return r.result(inadmissible="findHydroBoundaries-raised")
    bad = _admissible(am, spec, bc)
    if bad:
        return r.result(inadmissible=bad)
    cls = _measured_class(am, spec, bc)
    r.tag(cls, f"{p['pot']}-{cls}", f"M{p['M']}")
    c1, c2, Tp, Tm = bc["c1"], bc["c2"], bc["Tp"], bc["Tm"]
    vmid_oracle = -0.5 * (bc["vp"] + bc["vm"])  # the oracle's own frame velocity
    subsonic = cls != "detonation"  # expected sign of dF/dT: + on the deflagration/hybrid branch, - on the detonation branch

    # the solver must see the same Tnucl/T+ relation as the boundary computation (other manager instance, same numbers)
    assert eom.hydrodynamics.Tnucl == bc["Tn"]

    # wall shape: own tanh profile on the grid that wallPressure would set up for these parameters
    L0 = 5.0 / Tn
    widths = np.array(p["widths"], float) * L0
    offsets = np.array(p["offsets"], float)
    eom._updateGrid(WallParams(widths=widths, offsets=offsets), bc["vmid"])
    z = np.asarray(eom.grid.xiValues, float)
    vL, vH = np.array(bc["vevLow"]), np.array(bc["vevHigh"])
    arg = z[:, None] / widths[None, :] + offsets[None, :]
    phi = vL + 0.5 * (vH - vL) * (1 + np.tanh(arg))
    dphi = 0.5 * (vH - vL) / (widths[None, :] * np.cosh(arg) ** 2)
    fields, dfields = Fields.castFromNumpy(phi), Fields.castFromNumpy(dphi)
    npts = len(z)
    r.detail["npts"] = npts

    pot = m.thermodynamics.effectivePotential
    dxT = float(pot.derivativeSettings.temperatureVariationScale) * float(pot.effectivePotentialError) ** 0.2
    rtol, xtol = eom.errTol / 10, 1e-10  # what findPlasmaProfilePoint passes to root_scalar

    particle = _particle()
    if p.get("pre_vw") is not None:
        # section 'reuse': the SAME EOM object has just solved the profile of ANOTHER wall (other velocity, boundary constants and
        # frame velocity, non-zero moments) on this grid, and _updateGrid is not called again before the judged wall: the judged
        # profile must depend on its own arguments only (the relations below are the property's own, not a comparison of objects)
        try:
            bcA = _boundaries(p["pot"], p["pre_vw"])
            eom.particles = [particle]
            dA, _ = _deltas(eom, "all", Tn)
            eom.findPlasmaProfile(bcA["c1"], bcA["c2"], bcA["vmid"], fields, dfields, dA, bcA["Tp"], bcA["Tm"])
            r.tag("reuse-after-" + _measured_class(am, spec, bcA), f"reuse-{_measured_class(am, spec, bcA)}->{cls}")
        except Exception as e:
            r.tag("reuse-previous-call-raised")
            r.detail["pre_error"] = repr(e)[:200]
    good = 0
    far_tail = 0.0
    for which in p.get("deltas", DELTAS):
        eom.particles = [] if which == "zero" else [particle]  # instance attribute read by deltaToTmunu
        deltas, prof = _deltas(eom, which, Tn)
        if which == "zero":  # exactly the object wallPressure builds without out-of-equilibrium particles
            from WallGo import BoltzmannDeltas, Polynomial

            zp = Polynomial(np.zeros((0, npts)), eom.grid, direction=("Array", "z"), basis=("Array", "Cardinal"))
            deltas = BoltzmannDeltas(Delta00=zp, Delta02=zp, Delta20=zp, Delta11=zp)
        try:
            Tprof, vprof = eom.findPlasmaProfile(c1, c2, bc["vmid"], fields, dfields, deltas, Tp, Tm)
        except Exception as e:
            r.true(f"profile-returned[{which}]", False, error=repr(e))
            continue
        Tprof, vprof = np.asarray(Tprof, float), np.asarray(vprof, float)
        if not eom.successTemperatureProfile:
            r.tag(f"profile-failed", f"profile-failed-{cls}-{which}")
            continue
        good += 1
        r.tag(f"{cls}-{which}")
        pts = []
        for i in range(npts):
            T, v = float(Tprof[i]), float(vprof[i])
            fp = fields.getFieldPoint(i)
            # additive out-of-equilibrium stress: the code's own contraction, evaluated in the oracle's frame
            t30c, t33c = (0.0, 0.0) if which == "zero" else [float(np.asarray(x).reshape(-1)[0]) for x in eom.deltaToTmunu(i, fp, vmid_oracle, deltas)]
            # ... and the oracle's own: plasma-frame tensor of the deviation T'00 = D20, T'03 = D11, T'33 = D02 (the mass enters
            # only the transverse components), boosted with the frame velocity: T30 = g^2 [v (T'00 + T'33) + (1 + v^2) T'03],
            # T33 = g^2 [T'33 + v^2 T'00 + 2 v T'03], times the degrees of freedom. No mass term survives in T30 and T33.
            if which == "zero":
                t30o, t33o = 0.0, 0.0
            else:
                dd = {k: (prof[k][i] if which in (k, "all") else 0.0) for k in ("D00", "D02", "D20", "D11")}
                gm2 = 1.0 / (1.0 - vmid_oracle**2)
                t30o = PARTICLE_DOF * gm2 * (vmid_oracle * (dd["D20"] + dd["D02"]) + (1 + vmid_oracle**2) * dd["D11"])
                t33o = PARTICLE_DOF * gm2 * (dd["D02"] + vmid_oracle**2 * dd["D20"] + 2 * vmid_oracle * dd["D11"])
            # sum of |terms| inside deltaToTmunu (for rounding bounds only): dof * gamma_mid^2 * (4|D20| + 4|D02| + 4|D11| + 2 msq |D00|)
            on = [k for k in prof if which in (k, "all")]
            msq = 0.5 * phi[i, 0] ** 2
            outabs = PARTICLE_DOF / (1 - vmid_oracle**2) * sum((2 * msq if k == "D00" else 4.0) * abs(prof[k][i]) for k in on)
            pt = Point(am, phi[i], dphi[i], c1 - t30o, c2 - t33o, dxT, extra_abs=abs(c2) + outabs)
            pts.append(pt)
            tag = f"[{which},i={i}]"
            if which != "zero":
                r.close("Tout30==boosted-moments" + tag, t30c, t30o, 64 * EPS * outabs + 1e-300)
                r.close("Tout33==boosted-moments" + tag, t33c, t33o, 64 * EPS * outabs + 1e-300)
            if not (T > 0 and abs(v) < 1):
                r.true("T>0,|v|<1" + tag, False, T=T, v=v)
                continue
            # --- T33 == c2  <=>  root of the analytic F within the root finder's guarantee
            mg, info = _root_window(pt, T, rtol, xtol)
            if mg > 1 and info["F_T"] > 0:
                r.tag("no-root-minimum-returned")
                info["note"] = "analytic F > 0 on the whole window: returned T is not a root (minimum returned while success stays True?)"
            w = pt.w(T)
            g2 = 1 / (1 - v * v)
            info.update(T33_minus_c2_rel=(pt.K - float(am.V(phi[i], T)) + w * g2 * v * v + t33o - c2) / abs(c2))
            r.close("T33-root" + tag, mg, 0.0, 1.0, **info)
            # --- T30 == c1: v is a closed form of T, so this holds to rounding. Bound: gamma^2|v| dw_round (FD dV/dT instead of analytic)
            # + cancellation in (-w + S)/(2 s1): dv <= eps (|w|+S)/(2|s1|), dT30/dv = w gamma^4 (1+v^2) + plain rounding of the terms
            S = math.sqrt(4 * pt.s1**2 + w**2)
            tol30 = g2 * abs(v) * pt.dw_round(T) + 64 * EPS * ((abs(w) + S) / (2 * abs(pt.s1)) * abs(w) * g2 * g2 * (1 + v * v) + abs(c1) + abs(t30o) + outabs)
            r.close("T30" + tag, w * g2 * v + t30o, c1, tol30)
            # --- sign convention: fluid moves towards -z in the wall frame
            r.true("v-negative" + tag, v < 0, v=v)
            # --- branch: dF/dT > 0 (subsonic, deflagration/hybrid) or < 0 (detonation) unless the window contains the minimum of F
            lo, hi, mid, sl = info["F_lo"], info["F_hi"], info["F_T"], info["slack"]
            if mid < min(lo, hi) - 2 * sl or abs(hi - lo) <= 4 * sl:
                r.tag("degenerate-root")
            else:
                r.true("branch" + tag, (hi > lo) == subsonic, F_lo=lo, F_hi=hi, expected="dF/dT>0" if subsonic else "dF/dT<0")
        # --- far field: first grid point -> (T-, -v-), last grid point -> (T+, -v+)
        for end, i, Tinf, vinf in (("minus", 0, Tm, bc["vm"]), ("plus", npts - 1, Tp, bc["vp"])):
            if len(pts) != npts:
                break
            pt = pts[i]
            roottol = 2 * (rtol * Tinf + xtol)
            # (a) branch selection, sharp: the returned end value is the oracle's own root on the physical branch (this also decides
            #     the branch where the two roots nearly coincide and the pointwise 'branch' relation has to abstain)
            Tstar, Tmin = _branch_root(pt, Tinf, subsonic)
            if Tstar is None:  # the analytic equation has no root at this end point (reported by T33-root) - nothing to compare with
                r.tag(f"far-noroot-{end}")
            else:
                r.close(f"far-T{end}-root[{which}]", Tprof[i], Tstar, roottol, Tstar=Tstar, Tmin=Tmin)
            # (b) the limit itself. "Tends to" needs a meaning on a finite grid: the end values are within FAR_ALLOW (relative for T,
            #     absolute for v) of the matching values, plus the root finder's guarantee. FAR_ALLOW = 1e-3 is >> the oracle-predicted
            #     tail displacement |T* - T-/+| (recorded in the detail; <= 1e-4 T on this lattice) and << |v-/+| >= 0.19.
            tolT = roottol + FAR_ALLOW * Tinf
            r.close(f"far-T{end}-limit[{which}]", Tprof[i], Tinf, tolT, predicted_tail=None if Tstar is None else abs(Tstar - Tinf))
            tolv = 1.01 * abs(pt.dvdT(Tinf)) * tolT + FAR_ALLOW
            r.close(f"far-v{end}-limit[{which}]", vprof[i], -vinf, tolv)
            if Tstar is not None:
                far_tail = max(far_tail, abs(Tstar - Tinf) / Tinf)
    r.detail["max_predicted_tail_rel"] = far_tail
    eom.particles = []
    return r.result(nontrivial=(good > 0 and cls == p["cls"]))


SECTIONS = {"boundaries": (boundary_cases, case_boundaries), "profile": (profile_cases, case_profile), "reuse": (reuse_cases, case_profile)}


def run(ctx) -> None:
    wg.quiet()
    # build the six managers once; the forked workers inherit them
    for pot in POTS:
        for M in MS:
            _mgr(pot, M)
    # boundary constants: the real findHydroBoundaries runs once per (potential, v_w), in parallel; the results are put in the
    # parent's cache so that the workers forked for the sections below inherit them (a replay recomputes them on demand)
    from .. import lattice

    bcases = boundary_cases(ctx.tier)
    for c, out in zip(bcases, lattice.run_cases(_bc_worker, [dict(c) for c in bcases], timeout=300)):
        if out.get("bc") is not None:
            _BC[(c["pot"], float(c["vw"]))] = out["bc"]
    if not ctx.only or ctx.only == "boundaries":
        ctx.run_lattice("boundaries", bcases, case_boundaries, timeout=300)
    if not ctx.only or ctx.only == "profile":
        cases = profile_cases(ctx.tier)
        res = ctx.run_lattice("profile", cases, case_profile, timeout=600)
        tails = [x.get("detail", {}).get("max_predicted_tail_rel", 0.0) for x in res if isinstance(x.get("detail"), dict)]
        ctx.note("max_oracle_predicted_tail_displacement_rel", max(tails) if tails else None)
        ctx.note("profiles_per_case", len(DELTAS))
        ctx.note("shapes_per_potential", {pot: len(shapes(pot, ctx.tier)) for pot in POTS})
    if not ctx.only or ctx.only == "reuse":
        ctx.run_lattice("reuse", reuse_cases(ctx.tier), case_profile, timeout=600)
    ctx.exhaustive = False
    ctx.note("lattice", dict(potentials=list(POTS), vw={k: v["vw"] for k, v in POTS.items()}, M=list(MS), widths=list(WIDTHS),
                             offsets=list(OFFSETS), deltas=list(DELTAS), delta_eps=DELTA_EPS))


def _bc_worker(p: dict) -> dict:
    try:
        return {"id": p["id"], "verdict": "ok", "bc": _boundaries(p["pot"], p["vw"])}
    except Exception as e:
        return {"id": p["id"], "verdict": "ok", "bc": None, "error": repr(e)}


def replay(rep: dict) -> dict:
    wg.quiet()
    return SECTIONS[rep["section"]][1](rep["params"])
