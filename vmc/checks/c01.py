"""C01 - the reported wall velocity is a bracketed zero of the total pressure.

Three layers (the property has three quantifiers):
 (E) env     - the real EOM.solveWall under a scripted pressure environment, all answer sequences with <= 2 deviations;
     iter    - the real EOM.wallPressure iteration protocol under scripted iterate sequences;
 (L) e2e     - real end-to-end solves (no out-of-equilibrium particles) on a lattice of models/settings, sign change of the
               pressure probed with a FRESH solver at v -/+ 1.25 errTol, window, returned auxiliary data;
 (H) history - all call histories up to a depth on one WallGoManager, differential oracle: solveWall(s1) after the history
               is bit-identical to solveWall(s1) on a fresh manager.
"""
from __future__ import annotations

import itertools
import logging
import types

import numpy as np

from .. import bfs, envsearch
from ..lattice import Rel

LEVEL = "model_checking"
RULE = (
    "env: for each (pressure law, root position, errTol) shard every sequence of environment answers with <=2 non-default "
    "answers (menu of 7 per wallPressure call) is executed on the real solveWall, twice; iter: every scripted iterate "
    "sequence from a fixed family on the real wallPressure loop; e2e: full product of models x grid sizes x tolerances x "
    "thickness guesses (pairwise subset in quick); history: every operation sequence up to the stated depth on a real "
    "manager, states counted by digest of the manager's observable data. Non-trivial = reached a distinct outcome digest."
)
ASSUMPTIONS = [
    "out-of-equilibrium particles are excluded (the shipped collision files are git-LFS pointers here)",
    "env layer: pressure laws are strictly monotone or single-bump; the environment sets the two solver flags the way the real wallPressure/findPlasmaProfile do (rewritten by every evaluation)",
    "e2e sign change is probed at v -/+ 1.25*errTol with a fresh EOM; cases where |P| at the probe is below the pressure-iteration tolerance are inadmissible (sign not decidable)",
    "history layer: identical = bitwise equality of every array/float in the observable result tuple",
]

ERRTOL = 1e-3


# ============================================================================ (E) env
class _BR:  # stand-in for BoltzmannResults supporting the arithmetic solveWall performs
    def __init__(self, tag):
        self.tag = tag
        self.deltaF = np.array([tag])
        self.Deltas = ("Deltas", tag)
        self.truncationError = 0.0
        self.linearizationCriterion1 = np.zeros(1)
        self.linearizationCriterion2 = np.zeros(1)

    def __add__(self, o):
        return _BR(self.tag + o.tag)

    def __sub__(self, o):
        return _BR(self.tag - o.tag)

    def __mul__(self, x):
        return _BR(self.tag * x)

    __rmul__ = __mul__


DEVIATIONS = ["ok", "pressure-not-converged", "temperature-profile-failed", "Tminus-out-of-range", "Tplus-out-of-range",
              "width-saturates-lower", "offset-saturates-upper"]


def _law(kind, vstar):
    if kind == "inc":
        return lambda v: (v - vstar) * (1.0 + v)
    if kind == "steep":
        return lambda v: np.tanh(40 * (v - vstar)) + 1e-3 * (v - vstar)
    if kind == "bump":  # positive at very small v, negative on (0.015, vstar), positive above
        return lambda v: (v - vstar) * (v - 0.015) * 10.0
    raise ValueError(kind)


THICKNESS_BOUNDS = (0.1, 100.0)  # in units of 1/Tnucl (constructor contract)
OFFSET_BOUNDS = (-10.0, 10.0)


def _construct_eom(Tnucl, hydro_attrs, thermo_attrs, nbrFields, errTol, pressRelErrTol, maxIterations, forceImproveConvergence=False):
    """See vmc.wg.construct_eom: the EOM is built by its real constructor around stand-in collaborators."""
    from .. import wg

    return wg.construct_eom(Tnucl=Tnucl, hydro_attrs=hydro_attrs, thermo_attrs=thermo_attrs, nbrFields=nbrFields, thicknessBounds=THICKNESS_BOUNDS,
                            offsetBounds=OFFSET_BOUNDS, forceEnergyConservation=True, forceImproveConvergence=forceImproveConvergence,
                            errTol=errTol, maxIterations=maxIterations, pressRelErrTol=pressRelErrTol)


def _env_run(law_kind, vstar, errTol, vmin, vmax, script):
    import WallGo
    from WallGo.containers import WallParams
    from WallGo.equationOfMotion import EOM
    from WallGo.results import HydroResults

    law = _law(law_kind, vstar)
    TNUCL = 2.0
    vJ = 0.7
    eom = _construct_eom(
        TNUCL,
        dict(findvwLTE=lambda: 0.55, vJ=vJ, TMinLowT=0.5, TMaxLowT=2.0, TMinHighT=0.5, TMaxHighT=2.0, vMin=vmin, fastestDeflag=lambda: vmax,
             doesPhaseTraceLimitvmax=[False, False]),
        {}, nbrFields=2, errTol=errTol, pressRelErrTol=0.1, maxIterations=20)
    calls = []

    def wallPressure(v, wallParams, atol=None, rtol=None, boltzmannResultsInput=None):
        dev = script.choose(len(DEVIATIONS), f"wallPressure({v:.6g})")
        p = float(law(v))
        widths = np.array([1.0 + v, 2.0 + v])
        offsets = np.array([0.0, 0.1 * v])
        Tp, Tm = 1.0 + 0.1 * v, 1.0 - 0.05 * v
        eom.successWallPressure = True  # as the real function: reset at entry ...
        eom.successTemperatureProfile = True  # ... and rewritten by every findPlasmaProfile
        name = DEVIATIONS[dev]
        if name == "pressure-not-converged":
            eom.successWallPressure = False
        elif name == "temperature-profile-failed":
            eom.successTemperatureProfile = False
        elif name == "Tminus-out-of-range":
            Tm = 3.0
        elif name == "Tplus-out-of-range":
            Tp = 0.1
        elif name == "width-saturates-lower":
            widths[0] = THICKNESS_BOUNDS[0] / TNUCL  # the lower bound in physical units, by the constructor's contract
        elif name == "offset-saturates-upper":
            offsets[1] = OFFSET_BOUNDS[1]
        calls.append((float(v), name, p))
        bg = types.SimpleNamespace(velocityProfile=np.array([v, v]), fieldProfiles=np.array([[v, 2 * v]]), temperatureProfile=np.array([Tp, Tm]))
        return (p, WallParams(widths=widths, offsets=offsets), _BR(float(v)), bg, HydroResults(temperaturePlus=Tp, temperatureMinus=Tm, velocityJouguet=vJ))

    eom.wallPressure = wallPressure
    guess = WallParams(widths=np.array([2.5, 2.5]), offsets=np.zeros(2))
    try:
        res = eom.solveWall(vmin, vmax, guess)
        out = dict(
            v=res.wallVelocity, success=bool(res.success), type=res.solutionType.name, LTE=res.wallVelocityLTE,
            Tp=getattr(res, "temperaturePlus", None), Tm=getattr(res, "temperatureMinus", None), vJ=getattr(res, "velocityJouguet", None),
            widths=None if getattr(res, "wallWidths", None) is None else [float(x) for x in res.wallWidths],
            offsets=None if getattr(res, "wallOffsets", None) is None else [float(x) for x in res.wallOffsets],
            vprof=None if getattr(res, "velocityProfile", None) is None else [float(x) for x in res.velocityProfile],
            deltaF=None if getattr(res, "deltaF", None) is None else [float(x) for x in np.ravel(res.deltaF)],
            err=getattr(res, "wallVelocityError", None),
        )
    except Exception as ex:  # the protocol must not raise for these environments
        out = dict(exception=repr(ex)[:200])
    out["calls"] = calls
    return out


def _env_check(law_kind, vstar, errTol, vmin, vmax, baseline):
    law = _law(law_kind, vstar)

    def check(script, out):
        viol = []

        def bad(rel, **d):
            viol.append({"relation": rel, "detail": {**d, "out": {k: v for k, v in out.items() if k != "calls"}, "calls": out["calls"][-3:]}})

        if "exception" in out:
            bad("no-exception")
            return viol
        calls = out["calls"]
        final = calls[-1]
        v = out["v"]
        if out["type"] == "RUNAWAY":
            if v is not None:
                bad("runaway-no-velocity")
            if not (law(vmax) < 0):
                bad("runaway-pressure-at-top-negative", ptop=float(law(vmax)))
            return viol
        if out["success"] and out["type"] == "ERROR":
            bad("success-but-error-type")
        if not out["success"] and out["type"] != "ERROR":
            bad("unsuccessful-labelled-error")
        if out["success"] and v is not None:
            if not np.isfinite(v):
                bad("finite-velocity")
                return viol
            # sign change within the configured absolute tolerance (2*errTol window)
            lo, hi = v - 2 * errTol, v + 2 * errTol
            if not (law(lo) < 0 < law(hi)):
                bad("sign-change-within-tolerance", lo=float(law(lo)), hi=float(law(hi)), v=v)
            if not (vmin - 1e-12 <= v <= vmax + 1e-12):
                bad("inside-window", v=v, window=[vmin, vmax])
            # auxiliary data are those of the converged evaluation AT v (the tag makes this exact)
            if abs(final[0] - v) > 0:
                bad("final-evaluation-at-reported-velocity", final=final[0], v=v)
            if out["Tp"] != 1.0 + 0.1 * v or out["Tm"] != 1.0 - 0.05 * v:
                bad("temperatures-of-final-evaluation", Tp=out["Tp"], Tm=out["Tm"])
            if out["widths"] != [1.0 + v, 2.0 + v] or out["offsets"] != [0.0, 0.1 * v]:
                bad("wall-params-of-final-evaluation", widths=out["widths"], offsets=out["offsets"])
            if out["vprof"] != [v, v] or out["deltaF"] != [v]:
                bad("profiles-of-final-evaluation", vprof=out["vprof"], deltaF=out["deltaF"])
            if final[1] != "ok":
                bad("failed-final-evaluation-reported-as-success", deviation=final[1])
        # the result is a function of the final evaluation only: deviations at earlier evaluations (flags are
        # rewritten by every evaluation, the environment ignores the wall-parameter guess) must not change it
        ndev = sum(1 for c in calls if c[1] != "ok")
        if baseline is not None and ndev and final[1] == "ok" and len(calls) == len(baseline["calls"]):
            same = all(out[k] == baseline[k] for k in ("v", "success", "type", "Tp", "Tm", "widths", "offsets"))
            if not same:
                bad("earlier-deviation-changes-result", base={k: baseline[k] for k in ("v", "success", "type")})
        return viol

    return check


def case_env(c: dict) -> dict:
    logging.disable(logging.CRITICAL)
    r = Rel(c["id"])
    args = (c["law"], c["vstar"], c["errTol"], c["vmin"], c["vmax"])
    base = _env_run(*args, envsearch.Script([]))
    st = envsearch.explore(lambda s: _env_run(*args, s), _env_check(*args, base), bound=c["bound"],
                           outcome_key=lambda o: repr({k: v for k, v in o.items() if k != "calls"}))
    r.n = st.executions * 8
    for v in st.violations:
        r.viol.append({"relation": v["relation"], "detail": {**v["detail"], "script": v["script"], "labels": v["labels"]}})
    # collapse identical relation names (one finding key per relation per shard)
    seen, uniq = set(), []
    for v in r.viol:
        if v["relation"] not in seen:
            seen.add(v["relation"])
            uniq.append(v)
    r.viol = uniq
    r.tag("base-" + base.get("type", "EXC"))
    r.detail.update(executions=st.executions, points=st.points, max_points=st.max_points, by_deviations=st.by_deviations,
                    distinct_outcomes=len(st.outcomes), samples=st.samples, baseline={k: v for k, v in base.items() if k != "calls"})
    return r.result(nontrivial=len(st.outcomes) > 1)


def env_cases(tier):
    out = []
    vmin, vmax = 0.01, 0.6
    laws = [("inc", 0.3), ("inc", 0.01 + 5e-11), ("inc", 0.6 - 5e-11), ("inc", 0.005), ("inc", 0.65), ("steep", 0.4321), ("bump", 0.33),
            ("inc", 0.0137), ("bump", 0.5999)]
    for (law, vstar) in laws:
        for errTol in (1e-3, 1e-2) if tier == "quick" else (1e-3, 1e-2, 3e-4, 1e-5):
            out.append(dict(law=law, vstar=vstar, errTol=errTol, vmin=vmin, vmax=vmax, bound=2 if tier == "quick" else (2 if law == "steep" else 2),
                            id=f"law={law},vstar={vstar!r},errTol={errTol:g},window=[{vmin},{vmax}]"))
    return out


# ============================================================================ iter: wallPressure iteration protocol
# The wall-parameter iteration is modelled by a linear map x -> c + rho (x - c) on the first wall width, damped by the
# solver's own `multiplier` exactly where the real _intermediatePressureResults applies it; the pressure is a function of
# the new state. rho = 0: converges at once; 0.5 / 0.85: monotone convergence; -0.5: alternating convergence; -1: 2-cycle
# (convergent once the solver halves its multiplier); -1.3: alternating divergence; 2.5: monotone divergence (increments grow by 150 % per step: no difference-based criterion may accept it).
RHOS = {"at-once": 0.0, "mono-0.5": 0.5, "mono-0.85": 0.85, "alt-0.5": -0.5, "two-cycle": -1.0, "alt-diverge": -1.3, "mono-diverge": 2.5}
P0, XC = 3.0, 2.0


def case_iter(c: dict) -> dict:
    from WallGo.containers import WallParams
    from WallGo.equationOfMotion import EOM
    import WallGo.equationOfMotion as EQ

    logging.disable(logging.CRITICAL)
    r = Rel(c["id"])
    class _FE:
        interpolationRangeMax = staticmethod(lambda: 2.0)
        interpolationRangeMin = staticmethod(lambda: 0.5)

        def __call__(self, T):
            return types.SimpleNamespace(fieldsAtMinimum=np.zeros((1, 1)))

    eom = _construct_eom(1.0, dict(vJ=0.7, findHydroBoundaries=lambda v: (-1.0, 1.0, 1.1, 0.9, -0.4)),
                         dict(freeEnergyLow=_FE(), freeEnergyHigh=_FE()), nbrFields=1, errTol=1e-3, pressRelErrTol=c["rtol"],
                         maxIterations=c["maxit"], forceImproveConvergence=c["improve"])
    eom.pressAbsErrTol = 1e-8  # what solveWall sets before its first evaluation
    eom._updateGrid = lambda wp, vmid: None
    # wallPressure builds zero Polynomials/BoltzmannDeltas/BoltzmannResults before iterating: neutral stand-ins
    EQ.Polynomial = lambda *a, **k: ("poly",)
    EQ.BoltzmannDeltas = lambda **k: ("deltas",)
    EQ.BoltzmannResults = lambda **k: _BR(0.0)
    observed = []
    for idx, name in enumerate(c["calls"]):
        rho = RHOS[name]
        ncalls = [0]

        def inter(wallParams, vevLowT, vevHighT, c1, c2, velocityMid, boltzmannResults, Tplus, Tminus,
                  temperatureProfileInput=None, velocityProfileInput=None, multiplier=1.0):
            ncalls[0] += 1
            x = float(wallParams.widths[0])
            fx = XC + rho * (x - XC)
            xn = multiplier * fx + (1 - multiplier) * x
            bg = types.SimpleNamespace(temperatureProfile=np.ones(4), velocityProfile=np.ones(4))
            return (P0 * (1.0 + 0.5 * (xn - XC)), WallParams(widths=np.array([xn]), offsets=np.array([0.0])), boltzmannResults, bg)

        eom._intermediatePressureResults = inter
        wp = WallParams(widths=np.array([XC + 1.0]), offsets=np.array([0.0]))
        lab = f"call{idx}:{name}"
        try:
            p, wpo, *_ = eom.wallPressure(c["vw"], wp)
        except Exception as ex:
            r.true(f"{lab}:no-exception", False, error=repr(ex)[:300])
            continue
        flag = bool(eom.successWallPressure)
        observed.append((name, ncalls[0], flag, float(p)))
        r.true(f"{lab}:pressure-finite", np.isfinite(p), p=p)
        if flag:
            # accepted => the returned pressure and wall parameters are those of the converged solution (fixed point)
            r.close(f"{lab}:accepted=>pressure-at-fixed-point", p / P0, 1.0, 12 * c["rtol"], iterations=ncalls[0])
            r.close(f"{lab}:accepted=>wallparams-at-fixed-point", float(wpo.widths[0]), XC, 24 * c["rtol"], iterations=ncalls[0])
        if name == "at-once":
            r.true(f"{lab}:trivially-convergent-accepted(flag-reset)", flag, iterations=ncalls[0])
        if name in ("mono-diverge",):
            r.true(f"{lab}:divergent-not-accepted", not flag, p=float(p), iterations=ncalls[0])
        r.tag(f"{name}-{'accepted' if flag else 'capped'}")
    r.detail["observed"] = observed
    return r.result()


def iter_cases(tier):
    out = []
    names = list(RHOS)
    seqs = [[a] for a in names] + [[a, b] for a in names for b in names if a != b]
    if tier == "thorough":
        seqs += [[a, b, c] for a in ("alt-diverge", "mono-diverge", "two-cycle") for b in names for c in ("at-once", "mono-0.5")]
    for calls in seqs:
        for improve in (False, True):
            for vw in (0.5, 0.8):
                for maxit in (10, 20, 40):
                    for rtol in (0.1, 0.01):
                        out.append(dict(calls=calls, improve=improve, vw=vw, maxit=maxit, rtol=rtol,
                                        id=f"calls={'>'.join(calls)},improve={improve},vw={vw},maxit={maxit},rtol={rtol}"))
    return out


# ============================================================================ (L) end-to-end
def _model(c):
    from .. import models as MD

    if c["model"] == "xsm2":
        return MD.xsm2(), "S1", "S0"
    if c["model"] == "xsm3":
        return MD.xsm3(), "S12", "S0"
    if c["model"].startswith("cubic"):
        return MD.Cubic1(*c["args"]), "sym", "brk"
    raise ValueError(c["model"])


def _cfg(c):
    def f(config):
        config.configEOM.errTol = c["errTol"]
        config.configEOM.pressRelErrTol = c["pRel"]
        if c.get("thermo_tmax") is not None:
            config.configThermodynamics.tmax = c["thermo_tmax"]

    return f


def _tune_Tn_top(c, am, hi, lo):
    """Nucleation temperature at which the LTE root sits c['tune_top'] below the top min(vJ, fastestDeflag) of the
    deflagration/hybrid window: the switch between 'root found' and 'runaway' is made there, so the lattice needs points
    just below it (a solver that searches a slightly too small window reports a runaway although the pressure at the true
    top is positive). Only chooses an INPUT; nothing of the verdict depends on how well the tuning worked."""
    from scipy.optimize import brentq

    from .. import wg

    def g(Tn):
        m = wg.setup_manager(am, float(Tn), hi, lo, M=c["M"], N=11, cfg=_cfg(c))
        h = m.hydrodynamics
        v = float(m.wallSpeedLTE())
        top = min(float(h.vJ), float(h.fastestDeflag()))
        return (top - c["tune_top"]) - (v if 0 < v < 1 else top + 1.0)  # > 0: the root is below the target

    a, b = c["Tn_bracket"]
    try:
        if not (g(a) < 0 < g(b)):
            return None
        return float(brentq(g, a, b, xtol=1e-3, rtol=1e-12, maxiter=40))
    except Exception:
        return None


def case_e2e(c: dict) -> dict:
    from .. import wg

    logging.disable(logging.CRITICAL)
    r = Rel(c["id"])
    am, hi, lo = _model(c)
    if c.get("tune_top"):
        c = dict(c)
        c["Tn"] = _tune_Tn_top(c, am, hi, lo)
        if c["Tn"] is None:
            return r.result(inadmissible="no nucleation temperature with the LTE root at the requested distance below the window top in the bracket")
        r.detail.update(tuned_Tn=c["Tn"])
        r.tag("root-tuned-below-window-top")
    try:
        m = wg.setup_manager(am, c["Tn"], hi, lo, M=c["M"], N=11, cfg=_cfg(c))
    except Exception as ex:
        return r.result(inadmissible="manager setup failed: " + repr(ex)[:150])
    st = wg.solver_settings(offeq=False, thickness=c["thick"])
    res = m.solveWall(st)
    hyd = m.hydrodynamics
    errTol = c["errTol"]
    r.detail.update(v=res.wallVelocity, type=res.solutionType.name, success=bool(res.success), vJ=float(hyd.vJ), msg=res.message[:80])
    r.tag("e2e-" + res.solutionType.name)
    r.true("unsuccessful=>ERROR", res.success or res.solutionType.name == "ERROR")
    r.true("ERROR=>unsuccessful", not (res.success and res.solutionType.name == "ERROR"))
    vmin = hyd.vMin
    vmax = min(hyd.vJ, hyd.fastestDeflag())
    solver = m.setupWallSolver(st)  # fresh EOM for the probes
    eom = solver.eom
    # "every admissible tolerance setting": the configured tolerances are the ones the solver works with
    r.true("configured-tolerances-reach-the-solver", eom.errTol == c["errTol"] and eom.pressRelErrTol == c["pRel"]
           and eom.maxIterations == m.config.configEOM.maxIterations, errTol=eom.errTol, pRel=eom.pressRelErrTol)
    from WallGo.containers import WallParams

    def P(v, wp=None):
        if wp is None:
            wp = WallParams(widths=solver.initialWallThickness * np.ones(am.nf), offsets=np.zeros(am.nf))
        eom.pressAbsErrTol = 1e-8
        out = eom.wallPressure(v, wp)
        return out, bool(eom.successWallPressure), bool(eom.successTemperatureProfile)

    if res.solutionType.name == "RUNAWAY":
        r.true("runaway:no-velocity", res.wallVelocity is None, v=res.wallVelocity)
        (ptop, *_), ok1, ok2 = P(vmax)
        r.true("runaway:pressure-at-top-negative", ptop < 0, ptop=float(ptop), vmax=vmax)
        return r.result()
    if not res.success or res.wallVelocity is None:
        return r.result(nontrivial=False)
    v = float(res.wallVelocity)
    r.true("finite", np.isfinite(v))
    r.true("window:v>=vMin", v >= vmin - 1e-12, v=v, vmin=vmin)
    r.true("window:v<=min(vJ,fastestDeflag)", v <= vmax + 1e-12, v=v, vmax=vmax)
    # returned hydrodynamic data are those of the matching at v
    vp, vm_, Tp, Tm = hyd.findMatching(v)
    r.close("Tplus==findMatching(v)", res.temperaturePlus, Tp, 1e-12 * abs(Tp))
    r.close("Tminus==findMatching(v)", res.temperatureMinus, Tm, 1e-12 * abs(Tm))
    r.close("vJ==hydrodynamics.vJ", res.velocityJouguet, hyd.vJ, 0.0)
    r.close("vLTE==findvwLTE", res.wallVelocityLTE, hyd.findvwLTE(), 0.0)
    # widths/offsets/profiles are those of the converged solution at v: one more pressure evaluation at v,
    # started from the returned parameters, reproduces them within the pressure-iteration tolerance
    wp = WallParams(widths=np.array(res.wallWidths, dtype=float), offsets=np.array(res.wallOffsets, dtype=float))
    (p0, wp2, _, bg2, _), ok1, ok2 = P(v, wp)
    r.true("re-evaluation-converged", ok1 and ok2)
    ptol = c["pRel"]
    r.close("widths-of-converged-solution", wp2.widths / wp.widths, 1.0, 5 * ptol, new=wp2.widths, returned=wp.widths)
    r.close("offsets-of-converged-solution", wp2.offsets, wp.offsets, 5 * ptol * (1 + np.abs(wp.offsets)), new=wp2.offsets)
    # the profiles returned are those of the solution at v: their end points are the matching temperatures at v and the
    # two phases at those temperatures (a pointwise comparison with the re-evaluation is not meaningful: the grid is
    # re-mapped to the wall parameters of each evaluation)
    Tprof = np.asarray(res.temperatureProfile, dtype=float)
    r.close("temperature-profile-ends-at-Tminus/Tplus", [Tprof[0], Tprof[-1]], [Tm, Tp], 1e-12 * abs(Tp))
    fprof = np.asarray(res.fieldProfiles, dtype=float)
    th = m.thermodynamics
    lowT = min(max(Tm, th.freeEnergyLow.interpolationRangeMin()), th.freeEnergyLow.interpolationRangeMax())
    highT = min(max(Tp, th.freeEnergyHigh.interpolationRangeMin()), th.freeEnergyHigh.interpolationRangeMax())
    fscale = 1e-9 * (np.max(np.abs(fprof)) + 1.0)
    r.close("field-profile-starts-in-low-phase(Tminus)", fprof[0], np.asarray(th.freeEnergyLow(lowT).fieldsAtMinimum, dtype=float).reshape(-1), fscale)
    r.close("field-profile-ends-in-high-phase(Tplus)", fprof[-1], np.asarray(th.freeEnergyHigh(highT).fieldsAtMinimum, dtype=float).reshape(-1), fscale)
    vprof = np.asarray(res.velocityProfile, dtype=float)
    r.true("velocity-profile-negative-and-subluminal", np.all(vprof < 0) and np.all(vprof > -1), vmin=float(vprof.min()), vmax=float(vprof.max()))
    # sign change within the absolute velocity tolerance
    # brentq guarantees |v - root| <= xtol = errTol; the pressure noise is tuned by the solver (pressAbsErrTol) to move the
    # root by ~1% of errTol, so the sign change is probed at 1.25*errTol
    lo, hi = max(v - 1.25 * errTol, vmin), min(v + 1.25 * errTol, vmax)
    # The discretised pressure is a function of the velocity AND of the wall parameters an evaluation starts from (they fix the
    # grid mapping): on coarse grids the same velocity gives pressures that differ by the discretisation error (3e-3 relative
    # at M = 20 for cubicB, i.e. 2e-4 in the root). "The pressure" whose zero solveWall brackets is the documented one: started
    # from the linear interpolation, in the velocity, between the converged parameters at the two ends of the window, with the
    # absolute pressure tolerance the solver derives from errTol. The probes follow that protocol on the fresh solver.
    wp0 = WallParams(widths=solver.initialWallThickness * np.ones(am.nf), offsets=np.zeros(am.nf))
    eom.pressAbsErrTol = 1e-8
    pmax_, wpmax, brmax, *_ = eom.wallPressure(vmax, wp0)
    pmin_, wpmin, brmin, *_ = eom.wallPressure(vmin, wp0)
    eom.pressAbsErrTol = 0.01 * errTol * (1 - c["pRel"]) * min(abs(pmin_), abs(pmax_)) / 4

    def Psolver(vv):
        f = (vv - vmin) / (vmax - vmin)
        return float(eom.wallPressure(vv, wpmin + (wpmax - wpmin) * f, boltzmannResultsInput=brmin + (brmax - brmin) * f)[0])

    plo = pmin_ if lo <= vmin + 1e-12 else Psolver(lo)
    phi = pmax_ if hi >= vmax - 1e-12 else Psolver(hi)
    if hi >= vmax - 1e-12 and phi <= 0 and abs(v - vmax) < 2 * errTol:
        r.tag("root-at-window-top")
    r.true("pressure-negative-below", plo < 0 or lo <= vmin + 1e-12, plo=float(plo), lo=lo, v=v)
    r.true("pressure-positive-above", phi > 0 or hi >= vmax - 1e-12, phi=float(phi), hi=hi, v=v)
    # recorded, not judged: the same probes started from the RETURNED wall parameters (another grid mapping). A sign there that
    # differs from the solver's own means the configured errTol is below the discretisation floor of this grid size.
    eom.pressAbsErrTol = 1e-8
    (plo2, *_), _, _ = P(lo, wp)
    (phi2, *_), _, _ = P(hi, wp)
    if not (plo2 < 0 < phi2) and lo > vmin + 1e-12 and hi < vmax - 1e-12:
        r.tag("observation(errTol-below-discretisation-floor)")
    r.detail.update(plo=float(plo), phi=float(phi), p_at_v=float(p0), plo_from_returned_params=float(plo2), phi_from_returned_params=float(phi2))
    return r.result()


def e2e_cases(tier):
    out = []
    models = [
        dict(model="xsm2", Tn=100.0),
        dict(model="xsm2", Tn=95.0),
        dict(model="xsm2", Tn=103.0),
        dict(model="xsm2", Tn=90.0),
        dict(model="cubicA", args=[0.1, 0.05, 0.1, 80.0, 12.0], Tn=87.5),
        dict(model="cubicB", args=[0.4, 0.08, 0.1, 100.0, 12.0], Tn=105.5),
        dict(model="xsm3", Tn=100.0),
        dict(model="xsm2", Tn=100.0, thermo_tmax=1.01),
    ]
    full = list(itertools.product(models, (20, 30, 40), (1e-3, 3e-4, 1e-4), (0.1, 0.01), (3.0, 5.0, 8.0)))
    if tier == "quick":
        # pairwise-covering subset: every model with every M / errTol / pRel / thickness value at least once
        sel = []
        for i, mdl in enumerate(models):
            sel.append((mdl, (20, 30, 40)[i % 3], (1e-3, 3e-4, 1e-4)[i % 3], (0.1, 0.01)[(i // 2) % 2], (3.0, 5.0, 8.0)[(i + 1) % 3]))
            sel.append((mdl, (20, 30, 40)[(i + 1) % 3], (1e-3, 3e-4, 1e-4)[(i + 1) % 3], (0.1, 0.01)[(i // 2 + 1) % 2], (3.0, 5.0, 8.0)[(i + 2) % 3]))
        full = sel
    for mdl, M, errTol, pRel, thick in full:
        d = dict(mdl)
        d.update(M=M, errTol=errTol, pRel=pRel, thick=thick)
        d["id"] = f"{mdl['model']},Tn={mdl['Tn']:g}" + (f",tmax={mdl['thermo_tmax']}" if mdl.get("thermo_tmax") else "") + f",M={M},errTol={errTol:g},pRel={pRel:g},thick={thick:g}"
        out.append(d)
    # root tuned to sit just below the top of the deflagration/hybrid window (Tn found at run time inside the bracket)
    tops = [("xsm2", None, (90.5, 95.0), 2e-4), ("xsm2", None, (90.5, 95.0), 6e-4)]
    if tier != "quick":
        tops += [("xsm2", None, (90.5, 95.0), 1e-4), ("xsm2", None, (90.5, 95.0), 1.5e-3)]
    for model, args, br, delta in tops:
        for M in (20,) if tier == "quick" else (20, 30):
            d = dict(model=model, Tn=float("nan"), Tn_bracket=list(br), tune_top=delta, M=M, errTol=1e-4, pRel=0.01, thick=5.0)
            if args:
                d["args"] = args
            d["id"] = f"{model},root-{delta:g}-below-window-top,M={M},errTol=0.0001,pRel=0.01,thick=5"
            out.append(d)
    return out


# ============================================================================ (H) history independence
OPS = ["wallSpeedLTE", "solveWall(s1)", "solveWall(s2)", "findMatching(slow)", "findMatching(hybrid)", "fastestDeflag", "slowestDeton",
       "second-model+particle", "potential-defaultInterpolation", "findvwLTE-after-unconverged", "previous-benchmark-point", "other-grid-size",
       "solveWallDetonation(s1)"]


def _setup_point(m, am, Tn=100.0):
    """(re-)register a model and run setupThermodynamicsHydrodynamics on an EXISTING manager, the way a user moves on to
    another benchmark point."""
    import WallGo
    from .. import models as MD

    from .. import wg

    m.registerModel(MD.make_model(am))
    ph = wg.phase_info(am, Tn, "S1", "S0")  # bit-identical inputs to wg.setup_manager
    m.setupThermodynamicsHydrodynamics(ph, WallGo.VeffDerivativeSettings(temperatureVariationScale=10.0, fieldValueVariationScale=[10.0, 10.0]))


def _apply(m, op, am):
    import WallGo
    from .. import models as MD
    from .. import wg

    if op == "wallSpeedLTE":
        return m.wallSpeedLTE()
    if op == "solveWall(s1)":
        return m.solveWall(wg.solver_settings(thickness=5.0)).wallVelocity
    if op == "solveWall(s2)":
        return m.solveWall(wg.solver_settings(thickness=3.0, mfp=100.0)).wallVelocity
    if op == "solveWallDetonation(s1)":
        try:
            return [x.wallVelocity for x in m.solveWallDetonation(wg.solver_settings(thickness=5.0))]
        except Exception as ex:
            return "raised " + type(ex).__name__
    if op == "findMatching(slow)":
        return [float(x) for x in m.hydrodynamics.findMatching(0.011)]
    if op == "findMatching(hybrid)":
        return [float(x) for x in m.hydrodynamics.findMatching(0.5 * (0.577 + m.hydrodynamics.vJ))]
    if op == "fastestDeflag":
        return m.hydrodynamics.fastestDeflag()
    if op == "slowestDeton":
        return m.hydrodynamics.slowestDeton()
    if op == "findvwLTE-after-unconverged":
        m.hydrodynamics.success = False
        return m.hydrodynamics.findvwLTE()
    if op == "previous-benchmark-point":
        # another parameter point of the same model family at the SAME nucleation temperature, solved with the same
        # settings; then the manager is set up again for the original point
        _setup_point(m, MD.xsm2(lhs=0.95))
        v = m.solveWall(wg.solver_settings(thickness=5.0)).wallVelocity
        _setup_point(m, am)
        return v
    if op == "other-grid-size":
        old = m.config.configGrid.spatialGridSize
        m.config.configGrid.spatialGridSize = 16
        v = m.solveWall(wg.solver_settings(thickness=5.0)).wallVelocity
        m.config.configGrid.spatialGridSize = old
        return v
    if op == "second-model+particle":
        other = type(m.model)()  # same class => same class-level particle list
        p = WallGo.Particle(name="x", index=0, msqVacuum=lambda f: 0.0 * f.getField(0), msqDerivative=lambda f: 0.0 * f, statistics="Fermion", totalDOFs=12)
        other.addParticle(p)
        return len(m.model.outOfEquilibriumParticles)
    if op == "potential-defaultInterpolation":
        import WallGo.PotentialTools as PT

        class _P(PT.EffectivePotentialNoResum):
            fieldCount = 1

            def evaluate(self, fields, temperature):
                return 0.0

        try:
            _P(integrals=None, useDefaultInterpolation=True)
        except Exception as ex:
            return "raised " + type(ex).__name__
        return "ok"
    raise ValueError(op)


def _state_digest(m):
    import WallGo.PotentialTools as PT

    hyd = m.hydrodynamics
    th = m.thermodynamics
    obs = dict(
        hyd={k: v for k, v in hyd.__dict__.items() if isinstance(v, (int, float, bool, list, np.floating))},
        fe_high=dict(n=th.freeEnergyHigh.numPoints() if hasattr(th.freeEnergyHigh, "numPoints") else None,
                     rng=[th.freeEnergyHigh.interpolationRangeMin(), th.freeEnergyHigh.interpolationRangeMax()],
                     direct=getattr(th.freeEnergyHigh, "_directEvaluateCount", None)),
        fe_low=dict(n=th.freeEnergyLow.numPoints() if hasattr(th.freeEnergyLow, "numPoints") else None,
                    rng=[th.freeEnergyLow.interpolationRangeMin(), th.freeEnergyLow.interpolationRangeMax()],
                    direct=getattr(th.freeEnergyLow, "_directEvaluateCount", None)),
        thermo={k: v for k, v in th.__dict__.items() if isinstance(v, (int, float, bool, np.floating))},
        particles=len(type(m.model).outOfEquilibriumParticles),
        integrals=[str(getattr(PT.defaultIntegrals.Jb, "extrapolationTypeLower", None)), str(getattr(PT.defaultIntegrals.Jb, "extrapolationTypeUpper", None)),
                   str(getattr(PT.defaultIntegrals.Jf, "extrapolationTypeLower", None)), str(getattr(PT.defaultIntegrals.Jf, "extrapolationTypeUpper", None))],
    )
    return bfs.digest(obs)


def _array_settings(config):
    """The manager under a history gets its bounds as float numpy arrays holding the default numbers (a legitimate way of
    supplying them; the reference manager keeps the default lists): a solver object that converts or clips its copy in place
    would write through to the manager's configuration and change the next call."""
    config.configEOM.wallThicknessBounds = np.array(config.configEOM.wallThicknessBounds, dtype=float)
    config.configEOM.wallOffsetBounds = np.array(config.configEOM.wallOffsetBounds, dtype=float)


def _config_digest(m):
    import dataclasses

    out = {}
    for name in ("configGrid", "configEOM", "configHydrodynamics", "configThermodynamics", "configBoltzmannSolver"):
        sub = getattr(m.config, name, None)
        if sub is not None and dataclasses.is_dataclass(sub):
            out[name] = {f.name: (np.asarray(getattr(sub, f.name)).tolist() if isinstance(getattr(sub, f.name), (list, tuple, np.ndarray)) else getattr(sub, f.name))
                         for f in dataclasses.fields(sub)}
    return repr(sorted((k, sorted(v.items(), key=lambda kv: kv[0])) for k, v in out.items()))


def case_history(c: dict) -> dict:
    """One shard = one first operation; explores all continuations up to depth-1 more operations."""
    from .. import models as MD
    from .. import wg

    logging.disable(logging.CRITICAL)
    r = Rel(c["id"])
    am = MD.xsm2()
    fresh = wg.setup_manager(am, 100.0, "S1", "S0", M=20, N=11)
    ref = wg.result_tuple(fresh.solveWall(wg.solver_settings(thickness=5.0)))
    digests = set()
    ntrans = 0
    for hist in c["histories"]:
        m = wg.setup_manager(am, 100.0, "S1", "S0", M=20, N=11, cfg=_array_settings)
        cfg0 = _config_digest(m)
        outcomes = []
        for op in hist:
            try:
                outcomes.append(_apply(m, op, am))
            except Exception as ex:
                outcomes.append("raised " + type(ex).__name__ + ": " + str(ex)[:80])
            ntrans += 1
            digests.add(_state_digest(m))
        try:
            got = wg.result_tuple(m.solveWall(wg.solver_settings(thickness=5.0)))
        except Exception as ex:
            r.true(">".join(hist) + ":solveWall-after-history-no-exception", False, error=repr(ex)[:300], outcomes=outcomes)
            continue
        ntrans += 1
        r.true(">".join(hist) + ":configuration-untouched-by-solver-calls", _config_digest(m) == cfg0, before=cfg0[:400], after=_config_digest(m)[:400])
        diffs = []
        for k, want in ref.items():
            g = got[k]
            if isinstance(want, np.ndarray):
                same = isinstance(g, np.ndarray) and g.shape == want.shape and np.array_equal(g, want)
            else:
                same = g == want
            if not same:
                diffs.append(k)
        r.true(">".join(hist) + ":identical-to-fresh-manager", not diffs, differing=diffs, v_fresh=ref["wallVelocity"], v_after=got["wallVelocity"],
               outcomes=[o if isinstance(o, (str, float, int, list, type(None))) else repr(o) for o in outcomes])
    r.detail.update(states=len(digests), transitions=ntrans, histories=len(c["histories"]), reference_velocity=ref["wallVelocity"])
    r.tag("history")
    return r.result()


# operations that leave state behind on the manager / its model class / module-level singletons
DEPTH3_OPS = {"solveWall(s2)", "previous-benchmark-point", "other-grid-size", "second-model+particle", "findvwLTE-after-unconverged", "fastestDeflag"}


def history_cases(tier):
    depth = 2 if tier == "quick" else 3
    ops = OPS if tier == "thorough" else [o for o in OPS if o != "solveWallDetonation(s1)"]
    heavy = {"previous-benchmark-point", "other-grid-size"}
    hists = []
    for d in range(1, depth + 1):
        for h in itertools.product(ops, repeat=d):
            if tier == "quick" and d == 2 and not set(h) <= DEPTH3_OPS:
                continue  # quick: depth 1 over all operations, depth 2 over the six state-leaving operations
            if tier == "thorough" and d == 3 and not set(h) <= DEPTH3_OPS:
                continue  # depth 3 is complete over the six operations that leave state behind (see DEPTH3_OPS), depth 2 over all 13
            hists.append(list(h))
    # shard by first operation (and second for depth>=2 to balance)
    shards = {}
    for h in hists:
        key = h[0] if len(h) == 1 else h[0] + ">" + h[1]
        shards.setdefault(key, []).append(h)
    return [dict(id=f"first={k}", histories=v) for k, v in shards.items()]


from .c01_offeq import case_offeq, offeq_cases  # noqa: E402  (real solves WITH an out-of-equilibrium particle and a synthetic collision operator)

SECTIONS = {"env": (env_cases, case_env), "iter": (iter_cases, case_iter), "e2e": (e2e_cases, case_e2e), "offeq": (offeq_cases, case_offeq),
            "history": (history_cases, case_history)}


def run(ctx) -> None:
    for name, (gen, fn) in SECTIONS.items():
        if ctx.only and ctx.only != name:
            continue
        res = ctx.run_lattice(name, gen(ctx.tier), fn, timeout=3000)
        if name == "env":
            ex = sum(x.get("detail", {}).get("executions", 0) for x in res)
            pts = sum(x.get("detail", {}).get("points", 0) for x in res)
            ctx.add_bfs(states=sum(x.get("detail", {}).get("distinct_outcomes", 0) for x in res), transitions=pts, traces=ex)
            ctx.note("env_executions", ex)
            ctx.note("env_deviation_bound_completed", 2)
            ctx.note("env_by_deviations", {k: sum(x.get("detail", {}).get("by_deviations", {}).get(k, 0) for x in res) for k in (0, 1, 2)})
        if name == "history":
            ctx.add_bfs(states=sum(x.get("detail", {}).get("states", 0) for x in res), transitions=sum(x.get("detail", {}).get("transitions", 0) for x in res),
                        traces=sum(x.get("detail", {}).get("histories", 0) for x in res))
            ctx.note("history_depth_completed", "1 over all 12 operations, 2 over the 6 state-leaving operations" if ctx.tier == "quick" else "2 over all 13 operations, 3 over the 6 state-leaving operations")


def replay(rep: dict) -> dict:
    return SECTIONS[rep["section"]][1](rep["params"])
