"""C19 - finite-difference derivatives are exact on low-degree polynomials.

(L) complete enumeration of the coefficient tables in exact rational arithmetic, plus the
full cross product (order, n, position class x side, step, x-scale, shape) of run-time
calls of helpers.derivative/gradient/hessian and EffectivePotential derivatives with a
recording monomial.
"""
from __future__ import annotations

import itertools
import math
from fractions import Fraction

import numpy as np

from ..lattice import Rel, product, with_ids

LEVEL = "exploration"
RULE = (
    "tables: every (table, order, row) solved against the unique rational stencil for its positions; "
    "runtime: full cross product of order x n x bound-position class x side x step x scale x degree x shape "
    "(derivative), all axis subsets x degrees x shapes (gradient/hessian), EffectivePotential derivT/derivField/"
    "deriv2Field2/allSecondDerivatives on monomial potentials. A case is non-trivial if the derivative of the "
    "monomial is non-zero at the point or a one-sided row was selected; distinct = distinct case id."
)
ASSUMPTIONS = [
    "exact up to rounding = |result-exact| <= 64*eps*sum|c_i f(x_i)|/dx^n + position rounding term (bounded by ulp(x) f'/dx^n)",
    "bound intervals narrower than 4 steps are inadmissible (no tabulated stencil fits)",
    "hessian tables are required exact for total degree <= order+1 (their design exactness), not #points-1",
]

EPS = np.finfo(float).eps


def _frac(c: float) -> Fraction:
    f = Fraction(float(c)).limit_denominator(96)
    assert float(f) == float(c), (c, f)
    return f


def _unique_stencil(offsets: list[Fraction], n: int) -> list[Fraction]:
    """Solve sum_i c_i o_i^k = k! delta_{k,n}, k=0..m-1 exactly (Vandermonde, Gauss elimination)."""
    m = len(offsets)
    A = [[o**k for o in offsets] + [Fraction(math.factorial(n) if k == n else 0)] for k in range(m)]
    for col in range(m):
        piv = next(r for r in range(col, m) if A[r][col] != 0)
        A[col], A[piv] = A[piv], A[col]
        p = A[col][col]
        A[col] = [a / p for a in A[col]]
        for r in range(m):
            if r != col and A[r][col] != 0:
                fct = A[r][col]
                A[r] = [a - fct * b for a, b in zip(A[r], A[col])]
    return [A[i][m] for i in range(m)]


# --------------------------------------------------------------------------- tables
def case_table(p: dict) -> dict:
    import WallGo.helpers as H

    r = Rel(p["id"])
    kind, order, row = p["kind"], p["order"], p["row"]
    if kind in ("first", "second"):
        n = 1 if kind == "first" else 2
        coeff = (H.FIRST_DERIV_COEFF if n == 1 else H.SECOND_DERIV_COEFF)[str(order)][row]
        pos = (H.FIRST_DERIV_POS if n == 1 else H.SECOND_DERIV_POS)[str(order)][row]
        c = [_frac(x) for x in coeff]
        o = [_frac(x) for x in pos]
        r.true("positions-distinct-integers", len(set(o)) == len(o) and all(x.denominator == 1 for x in o), pos=list(map(str, o)))
        m = len(o)
        for k in range(m):
            got = sum(ci * oi**k for ci, oi in zip(c, o))
            want = Fraction(math.factorial(n) if k == n else 0)
            r.true(f"moment-k{k}", got == want, got=str(got), want=str(want))
        uniq = _unique_stencil(o, n)
        r.true("equals-unique-stencil", uniq == c, table=list(map(str, c)), unique=list(map(str, uniq)))
        # which offset selects this row, and does its stencil stay on the right side of the bound?
        nrows = 3 if order == 2 else 5
        off = row if row <= nrows // 2 else row - nrows
        r.detail["offset"] = off
        if off > 0:  # lower bound closer than (order/2 - off + 1) steps => no point below -(half-off)
            r.true("one-sided-lower", min(o) >= -(order // 2 - off), min=str(min(o)), off=off)
        if off < 0:
            r.true("one-sided-upper", max(o) <= (order // 2 + off), max=str(max(o)), off=off)
        r.tag(f"table-{kind}-o{order}")
    else:  # hessian
        c = [_frac(x) for x in H.HESSIAN_COEFF[str(order)]]
        px = [_frac(x) for x in H.HESSIAN_POS[str(order)][0]]
        py = [_frac(x) for x in H.HESSIAN_POS[str(order)][1]]
        deg = order + 1
        if row == 0:  # mixed derivative d2/dxdy on monomials x^a y^b
            for a in range(deg + 1):
                for b in range(deg + 1 - a):
                    got = sum(ci * x**a * y**b for ci, x, y in zip(c, px, py))
                    r.true(f"mixed-x{a}y{b}", got == (1 if (a, b) == (1, 1) else 0), got=str(got))
        else:  # diagonal: both shifts along the same variable
            for a in range(deg + 1):
                got = sum(ci * (x + y) ** a for ci, x, y in zip(c, px, py))
                r.true(f"diag-x{a}", got == (2 if a == 2 else 0), got=str(got))
        r.tag(f"table-hessian-o{order}")
    return r.result()


def table_cases() -> list[dict]:
    out = []
    for kind in ("first", "second"):
        for order in (2, 4):
            for row in range(3 if order == 2 else 5):
                out.append({"kind": kind, "order": order, "row": row})
    for order in (2, 4):
        for row in (0, 1):
            out.append({"kind": "hessian", "order": order, "row": row})
    return with_ids(out)


# --------------------------------------------------------------------------- derivative()
POSCLASSES = [  # distance to the bound in units of dx; None = far interior
    ("interior", None),
    ("d2.5", 2.5),
    ("d2", 2.0),
    ("d1.5", 1.5),
    ("d1", 1.0),
    ("d0.5", 0.5),
    ("d0", 0.0),
]
SHAPES = {"scalar": (), "vec3": (3,), "mat2x3": (2, 3), "ten4x2x3": (4, 2, 3)}


def _xpoints(shape, bounds, dx, cls, side, xs):
    """Array of the given shape; element 0 is in position class cls, the rest cycle over all classes."""
    lo, hi = bounds
    names = [c for c in POSCLASSES]
    n = int(np.prod(shape)) if shape else 1
    start = [c[0] for c in POSCLASSES].index(cls)
    vals = []
    for i in range(n):
        cname, d = names[(start + i) % len(names)]
        sd = side if i % 2 == 0 else ("upper" if side == "lower" else "lower")
        if i == 0:
            sd = side
        if d is None or (sd == "lower" and not np.isfinite(lo)) or (sd == "upper" and not np.isfinite(hi)):
            mid = 0.5 * (lo + hi) if np.isfinite(lo) and np.isfinite(hi) else (lo + 7.3 * dx + 0.37 * xs if np.isfinite(lo) else 0.37 * xs)
            vals.append(mid + 0.123 * dx * i)
        elif sd == "lower":
            vals.append(lo + d * dx)
        else:
            vals.append(hi - d * dx)
    return np.array(vals, dtype=float).reshape(shape)


def case_derivative(p: dict) -> dict:
    import WallGo.helpers as H

    r = Rel(p["id"])
    order, n, xs, rel_dx, cls, side, btype, shape_name, vec = (
        p["order"], p["n"], p["xs"], p["rdx"], p["cls"], p["side"], p["btype"], p["shape"], p["vec"],
    )
    dx = rel_dx * xs
    width = max(2.0 * xs, 12.0 * dx)
    if btype == "both":
        bounds = (-0.3 * xs, -0.3 * xs + width)
    elif btype == "lower0":
        bounds = (0.0, np.inf)
    elif btype == "upperonly":
        bounds = (-np.inf, 1.1 * xs)
    else:
        bounds = None
    b = bounds if bounds is not None else (-np.inf, np.inf)
    shape = SHAPES[shape_name]
    x = _xpoints(shape, b, dx, cls, side, xs)
    # floating point: lo + d*dx may land a hair outside a class boundary; that only changes
    # which (valid) row is picked. Never outside the bounds:
    x = np.clip(x, b[0], b[1])
    npts = order if n == 1 else order + 1
    onesided = cls != "interior" and ((n == 1 and order == 2 and cls in ("d0.5", "d0")) or order == 4 or (n == 2 and cls in ("d0.5", "d0")))
    for k in range(0, npts):  # degrees 0..#points-1 : complete monomial basis of the exactness class
        rec = []

        def f(t, k=k):
            t = np.asarray(t)
            rec.append(t.copy())
            val = (t / xs) ** k
            if vec:
                return np.stack([val, 2.0 * val - 1.0], axis=-1)
            return val

        try:
            got = H.derivative(f, x if shape else float(x), n=n, order=order, bounds=bounds, dx=dx)
        except Exception as e:
            r.true(f"no-exception-deg{k}", False, error=repr(e))
            continue
        got = np.asarray(got)
        want_shape = shape + ((2,) if vec else ())
        r.true(f"shape-deg{k}", got.shape == want_shape, got=got.shape, want=want_shape)
        if got.shape != want_shape:
            continue
        allpos = np.concatenate([q.reshape(-1) for q in rec])
        r.true(
            f"inside-bounds-deg{k}",
            np.all(allpos >= b[0]) and np.all(allpos <= b[1]),
            min=float(allpos.min()), max=float(allpos.max()), bounds=b,
        )
        # exact derivative of (t/xs)^k
        if k < n:
            exact = np.zeros(shape)
        else:
            exact = math.factorial(k) / math.factorial(k - n) * (x / xs) ** (k - n) / xs**n
        pos = rec[0]  # (npts,)+shape
        if k >= 1:
            dfd = k * np.max(np.abs(pos / xs), axis=0) ** (k - 1) / xs
        else:
            dfd = 0.0
        ulp = np.spacing(np.max(np.abs(pos), axis=0))
        posterm = 12.0 * dfd * ulp / dx**n
        comps = [(1.0, 0.0)] + ([(2.0, -1.0)] if vec else [])
        for comp, (sc, sh) in enumerate(comps):
            fvals = np.abs(sc * (pos / xs) ** k + sh)
            # rounding bound: evaluation of the weighted sum + rounding of the stencil positions
            csum = (np.sum(fvals, axis=0) * (2.0 if n == 1 else 4.0) * 3.0) / dx**n
            tol = 64 * EPS * csum + 8 * sc * posterm + 1e-300
            g = got[..., comp] if vec else got
            err = np.abs(g - sc * exact)
            ratio = float(np.max(err / tol))
            r.n += 1
            r.margin = max(r.margin, ratio)
            if ratio > 1:
                r.viol.append({"relation": f"exact-deg{k}-comp{comp}", "detail": {"x": x, "got": g, "want": sc * exact, "tol": tol, "dx": dx}})
    r.tag(f"n{n}-o{order}-{cls}-{side}" if cls != "interior" else f"n{n}-o{order}-interior")
    return r.result(nontrivial=True)


def derivative_cases(tier: str) -> list[dict]:
    steps = [1e-8, 1e-6, 1e-4, 1e-2, 1e-1] if tier == "quick" else [10.0**e for e in range(-8, 3)]
    scales = [1e-3, 1.0, 1e3]
    out = []
    for order, n in itertools.product((2, 4), (1, 2)):
        for xs in scales:
            for rdx in steps:
                for cls, _ in POSCLASSES:
                    sides = ("lower",) if cls == "interior" else ("lower", "upper")
                    for side in sides:
                        for btype in ("both", "lower0", "upperonly", "none"):
                            if btype == "none" and cls != "interior":
                                continue
                            if btype == "lower0" and side == "upper" and cls != "interior":
                                continue
                            if btype == "upperonly" and side == "lower" and cls != "interior":
                                continue
                            shapes = ("scalar", "vec3") if tier == "quick" and rdx not in (1e-4,) else tuple(SHAPES)
                            for shp in shapes:
                                for vec in (False, True):
                                    if vec and shp not in ("scalar", "mat2x3"):
                                        continue
                                    out.append(dict(order=order, n=n, xs=xs, rdx=rdx, cls=cls, side=side, btype=btype, shape=shp, vec=vec))
    return with_ids(out)


# --------------------------------------------------------------------------- gradient / hessian
def _monomials(nvar: int, deg: int):
    for e in itertools.product(range(deg + 1), repeat=nvar):
        if sum(e) <= deg:
            yield e


def _axis_selections(nvar: int):
    sels = [None]
    idx = list(range(nvar))
    for k in range(1, nvar + 1):
        for comb in itertools.combinations(idx, k):
            sels.append(list(comb))
    sels.append(-1)  # bare negative int
    sels.append(0)
    if nvar >= 2:
        sels.append([-1, 0])  # negative index, reordered
        sels.append([nvar - 1, -nvar])
    return sels


def _resolve(sel, nvar):
    if sel is None:
        return list(range(nvar))
    if isinstance(sel, int):
        return [sel % nvar]
    return [s % nvar for s in sel]


def case_gradhess(p: dict) -> dict:
    import WallGo.helpers as H

    r = Rel(p["id"])
    which, order, nvar, shape, dxmode, xs = p["which"], p["order"], p["nvar"], tuple(p["shape"]), p["dxmode"], p["xs"]
    base = np.array([0.7, -1.3, 0.45, 2.1])[:nvar] * xs
    npnt = int(np.prod(shape)) if shape else 1
    x = (base[None, :] * (1.0 + 0.31 * np.arange(npnt)[:, None])).reshape(shape + (nvar,))
    if dxmode == "float":
        dx = 1e-3 * xs
        dxv = np.full(nvar, dx)
    elif dxmode == "array":
        dxv = np.array([1e-3, 3e-2, 5e-4, 2e-1])[:nvar] * xs
        dx = dxv
    else:  # estimated from scale/epsilon
        dx = None
        dxv = None
    deg = order if which == "gradient" else order + 1
    sels = _axis_selections(nvar)
    rec_outside = []
    for e in _monomials(nvar, deg):
        def f(X, e=e):
            X = np.asarray(X)
            assert X.ndim == 2 and X.shape[1] == nvar
            v = np.ones(X.shape[0])
            for j, ej in enumerate(e):
                v = v * (X[:, j] / xs) ** ej
            return v

        def dmono(e2, idx):
            """derivative of monomial wrt variables in idx (list), evaluated at x"""
            e2 = list(e2)
            coef = np.ones(x.shape[:-1])
            for j in idx:
                if e2[j] == 0:
                    return np.zeros(x.shape[:-1])
                coef = coef * e2[j] / xs
                e2[j] -= 1
            v = coef
            for j, ej in enumerate(e2):
                v = v * (x[..., j] / xs) ** ej
            return v

        scale_est = xs if dxmode != "est" else xs
        kwargs = {"order": order}
        if dx is None:
            kwargs.update(epsilon=1e-16, scale=float(xs) if nvar == 1 or True else None)
            step = xs * 1e-16 ** (1 / ((1 if which == "gradient" else 2) + order))
            dxloc = np.full(nvar, step)
        else:
            kwargs.update(dx=dx)
            dxloc = dxv
        absmono = np.ones(x.shape[:-1])
        for j, ej in enumerate(e):
            absmono = absmono * (np.abs(x[..., j] / xs) + 2 * dxloc[j] / xs + 1e-30) ** ej
        if which == "gradient":
            for sel in sels:
                try:
                    got = np.asarray(H.gradient(f, x, axis=sel, **kwargs))
                except Exception as ex:
                    r.true(f"no-exception-{e}-axis{sel}", False, error=repr(ex))
                    continue
                ax = _resolve(sel, nvar)
                want = np.stack([dmono(e, [a]) for a in ax], axis=-1)
                r.true(f"shape-{e}-axis{sel}", got.shape == want.shape, got=got.shape, want=want.shape)
                if got.shape != want.shape:
                    continue
                tol = np.stack([64 * EPS * 6 * absmono / dxloc[a] * (1 + sum(e)) for a in ax], axis=-1) + 1e-300
                ratio = float(np.max(np.abs(got - want) / tol))
                r.n += 1
                r.margin = max(r.margin, ratio)
                if ratio > 1:
                    r.viol.append({"relation": f"exact-{e}-axis{sel}", "detail": {"got": got, "want": want, "tol": tol}})
        else:
            for sx, sy in p["selpairs"]:
                try:
                    got = np.asarray(H.hessian(f, x, xAxis=sx, yAxis=sy, **kwargs))
                except Exception as ex:
                    r.true(f"no-exception-{e}-x{sx}-y{sy}", False, error=repr(ex))
                    continue
                ax, ay = _resolve(sx, nvar), _resolve(sy, nvar)
                want = np.stack([np.stack([dmono(e, [a, b]) for b in ay], axis=-1) for a in ax], axis=-2)
                r.true(f"shape-{e}-x{sx}-y{sy}", got.shape == want.shape, got=got.shape, want=want.shape)
                if got.shape != want.shape:
                    continue
                tol = np.stack(
                    [np.stack([64 * EPS * 12 * absmono / (dxloc[a] * dxloc[b]) * (1 + sum(e)) ** 2 for b in ay], axis=-1) for a in ax],
                    axis=-2,
                ) + 1e-300
                ratio = float(np.max(np.abs(got - want) / tol))
                r.n += 1
                r.margin = max(r.margin, ratio)
                if ratio > 1:
                    r.viol.append({"relation": f"exact-{e}-x{sx}-y{sy}", "detail": {"got": got, "want": want, "tol": tol}})
    r.tag(f"{which}-o{order}-nvar{nvar}")
    return r.result()


def gradhess_cases(tier: str) -> list[dict]:
    out = []
    shapes = [(), (3,), (2, 3)]
    for which in ("gradient", "hessian"):
        for order in (2, 4):
            for nvar in (1, 2, 3):
                for shape in shapes:
                    for dxmode in ("float", "array", "est"):
                        for xs in (1.0, 100.0) if tier == "quick" else (1e-3, 1.0, 100.0):
                            c = dict(which=which, order=order, nvar=nvar, shape=list(shape), dxmode=dxmode, xs=xs)
                            if which == "hessian":
                                sels = _axis_selections(nvar)
                                if tier == "quick":
                                    pairs = [(s, s) for s in sels] + [(sels[0], s) for s in sels[1:]] + [(s, sels[-1]) for s in sels[:-1]]
                                else:
                                    pairs = [(a, b) for a in sels for b in sels]
                                c["selpairs"] = pairs
                            out.append(c)
    for c in out:
        c["id"] = ",".join(f"{k}={c[k]}" for k in ("which", "order", "nvar", "shape", "dxmode", "xs"))
    return out


# --------------------------------------------------------------------------- EffectivePotential
def case_veff(p: dict) -> dict:
    import WallGo
    from WallGo import Fields
    from WallGo.effectivePotential import EffectivePotential, VeffDerivativeSettings

    r = Rel(p["id"])
    e1, e2, eT = p["e"]
    fs, Ts = p["fs"], p["Ts"]
    recT = []

    class MonoPot(EffectivePotential):
        fieldCount = 2
        effectivePotentialError = 1e-15

        def evaluate(self, fields, temperature):
            f = Fields(fields)
            T = np.asarray(temperature)
            recT.append(np.array(T, dtype=float).reshape(-1).copy())
            return (f.getField(0) / fs) ** e1 * (f.getField(1) / (2 * fs)) ** e2 * (T / Ts) ** eT

    pot = MonoPot()
    pot.configureDerivatives(VeffDerivativeSettings(temperatureVariationScale=float(Ts), fieldValueVariationScale=[float(fs), float(2 * fs)]))
    dT = Ts * 1e-15 ** (1 / 5)
    # temperatures: within two steps of 0 and interior; fields: 3 points
    T = np.array([0.0, 0.5 * dT, dT, 1.5 * dT, 2 * dT, 2.5 * dT, 0.3 * Ts, 1.7 * Ts])
    phi = np.array([[0.6 * fs, -1.1 * fs]] * len(T)) * (1 + 0.1 * np.arange(len(T)))[:, None]
    fields = Fields.castFromNumpy(phi)

    def mono(d1, d2, dt):
        def fall(x, e, d, s):
            c = 1.0
            ee = e
            for _ in range(d):
                c = c * ee / s
                ee -= 1
                if ee < 0:
                    return np.zeros_like(x)
            return c * (x / s) ** ee
        return fall(phi[:, 0], e1, d1, fs) * fall(phi[:, 1], e2, d2, 2 * fs) * fall(T, eT, dt, Ts)

    amp = (np.abs(phi[:, 0] / fs) + 0.01) ** e1 * (np.abs(phi[:, 1] / (2 * fs)) + 0.01) ** e2 * (np.abs(T / Ts) + 4 * dT / Ts) ** eT
    # derivT: order-4 stencil (4 points): exact for T-degree <= 3 one-sided, <= 4 central
    if eT <= 3:
        recT.clear()
        got = np.asarray(pot.derivT(fields, T))
        allT = np.concatenate(recT)
        r.true("derivT-never-negative-T", np.all(allT >= 0.0), minT=float(allT.min()))
        want = mono(0, 0, 1)
        tol = 64 * EPS * 12 * amp / dT * 4 + 1e-300
        r.close("derivT-shape", got.shape, want.shape, 0)
        ratio = float(np.max(np.abs(got - want) / tol))
        r.n += 1
        r.margin = max(r.margin, ratio)
        if ratio > 1:
            r.viol.append({"relation": "derivT-exact", "detail": {"got": got, "want": want, "tol": tol}})
    Tpos = np.where(T == 0, 0.3 * Ts, T)  # field derivatives use central T steps: stay away from T<0
    Tpos = np.maximum(Tpos, 0.3 * Ts)
    T = Tpos
    amp = (np.abs(phi[:, 0] / fs) + 0.01) ** e1 * (np.abs(phi[:, 1] / (2 * fs)) + 0.01) ** e2 * (np.abs(T / Ts) + 0.01) ** eT
    dF = fs * 1e-15 ** (1 / 5)
    dH = fs * 1e-15 ** (1 / 6)
    dTH = Ts * 1e-15 ** (1 / 6)
    if e1 + e2 + eT <= 4:
        got = np.asarray(pot.derivField(fields, T))
        want = np.stack([mono(1, 0, 0), mono(0, 1, 0)], axis=-1)
        r.true("derivField-shape", got.shape == want.shape, got=got.shape)
        if got.shape == want.shape:
            tol = 64 * EPS * 12 * amp[:, None] / dF * 5 + 1e-300
            ratio = float(np.max(np.abs(got - want) / tol))
            r.n += 1
            r.margin = max(r.margin, ratio)
            if ratio > 1:
                r.viol.append({"relation": "derivField-exact", "detail": {"got": got, "want": want, "tol": tol}})
    if e1 + e2 + eT <= 5:
        tolH = 64 * EPS * 24 * amp / dH**2 * 36 + 1e-300
        got = np.asarray(pot.deriv2Field2(fields, T))
        want = np.stack([np.stack([mono(2, 0, 0), mono(1, 1, 0)], -1), np.stack([mono(1, 1, 0), mono(0, 2, 0)], -1)], -2)
        r.true("deriv2Field2-shape", got.shape == want.shape, got=got.shape)
        if got.shape == want.shape:
            ratio = float(np.max(np.abs(got - want) / tolH[:, None, None]))
            r.n += 1
            r.margin = max(r.margin, ratio)
            if ratio > 1:
                r.viol.append({"relation": "deriv2Field2-exact", "detail": {"got": got, "want": want}})
        got = np.asarray(pot.deriv2FieldT(fields, T))
        want = np.stack([mono(1, 0, 1), mono(0, 1, 1)], -1)
        tolFT = 64 * EPS * 24 * amp / (dH * dTH) * 36 + 1e-300
        r.true("deriv2FieldT-shape", got.shape == want.shape, got=got.shape)
        if got.shape == want.shape:
            ratio = float(np.max(np.abs(got - want) / tolFT[:, None]))
            r.n += 1
            r.margin = max(r.margin, ratio)
            if ratio > 1:
                r.viol.append({"relation": "deriv2FieldT-exact", "detail": {"got": got, "want": want}})
        h, g, tt = pot.allSecondDerivatives(fields, T)
        wanth = np.stack([np.stack([mono(2, 0, 0), mono(1, 1, 0)], -1), np.stack([mono(1, 1, 0), mono(0, 2, 0)], -1)], -2)
        wantg = np.stack([mono(1, 0, 1), mono(0, 1, 1)], -1)
        wantt = mono(0, 0, 2)
        tolTT = 64 * EPS * 24 * amp / dTH**2 * 36 + 1e-300
        for name, a, b, t in (("all2-hess", h, wanth, tolH[:, None, None]), ("all2-gradT", g, wantg, tolFT[:, None]), ("all2-TT", tt, wantt, tolTT)):
            a = np.asarray(a)
            r.true(name + "-shape", a.shape == b.shape, got=a.shape, want=b.shape)
            if a.shape == b.shape:
                ratio = float(np.max(np.abs(a - b) / t))
                r.n += 1
                r.margin = max(r.margin, ratio)
                if ratio > 1:
                    r.viol.append({"relation": name + "-exact", "detail": {"got": a, "want": b}})
    r.tag("veff")
    return r.result()


def veff_cases(tier: str) -> list[dict]:
    out = []
    for e in _monomials(3, 5):
        for fs, Ts in ((1.0, 1.0), (100.0, 10.0)) if tier == "quick" else ((1.0, 1.0), (100.0, 10.0), (1e-2, 1e2), (246.0, 100.0)):
            out.append({"e": list(e), "fs": fs, "Ts": Ts})
    return with_ids(out)


# --------------------------------------------------------------------------- driver
SECTIONS = {
    "tables": (lambda tier: table_cases(), case_table),
    "derivative": (derivative_cases, case_derivative),
    "gradhess": (gradhess_cases, case_gradhess),
    "veff": (veff_cases, case_veff),
}


def run(ctx) -> None:
    for name, (gen, fn) in SECTIONS.items():
        if ctx.only and ctx.only != name:
            continue
        ctx.run_lattice(name, gen(ctx.tier), fn, timeout=300)
    ctx.exhaustive = True  # tables: complete; runtime lattice: complete cross product (finite by construction)
    ctx.note("exhaustive_scope", "coefficient tables (all rows, exact rationals) and the stated finite cross product; not the reals")


def replay(rep: dict) -> dict:
    section = rep["section"]
    return SECTIONS[section][1](rep["params"])
