"""C14 - collision data act identically after loading, basis change and interpolation.

(L) sections `load`, `interp`, `basis`: the harness WRITES its own HDF5 directories (one file
    `collisions_<p1>_<p2>.hdf5` per ordered pair, group `metadata` with attributes "Basis Size"/"Basis Type",
    dataset "<p1>, <p2>" of shape (N-1,)*4 = [alpha, beta, j, k]); every tensor entry is a distinct integer that
    encodes (a,b,alpha,beta,j,k), so a misplaced entry names the place it came from.  The real
    BoltzmannSolver.loadCollisions / CollisionArray.changeBasis / interpolateCollisionArray run on every lattice
    point and are compared with vmc/oracles/c14_oracle.py (mpmath matrices written from the definitions).
(E) sections `faults`, `sequences`: the environment (= what the directory contains at each load) is enumerated
    completely: every subset of missing files, oversized targets, one ill-sized / ill-based / dataset-less file
    at every position, each on a fresh solver and after a successful first load; all load sequences of length <= 3 (thorough: 4)
    over the alphabet {good-1, good-2, missing, oversize, size-mismatch, basis-mismatch, no-dataset} against a
    three-state reference model (nothing / content-1 / content-2 installed).
"""
from __future__ import annotations

import hashlib
import itertools
import os
import pathlib
import shutil

import numpy as np

from ..lattice import Rel, with_ids
from ..oracles import c14_oracle as O

LEVEL = "fault_enumeration"
RULE = (
    "load/interp: full cross product of ordered particle lists drawn from 3 species (15 lists, 1..3 particles, all orders) "
    "x stored N x target N (odd <= stored) x stored basis x requested basis x grid class; basis: every sequence of <=3 "
    "changeBasis calls from each start basis; faults: all 2^(n^2) missing-file subsets for n<=3 (x target size), every "
    "(stored,target) oversize pair, one deviating file at every position for size/basis/dataset faults, each on a fresh "
    "solver and after a successful load; sequences: all load sequences of length <= 3 (quick; 7+49+343 per (n, mode), 5-symbol alphabet for n=1) / <= 4 (thorough). "
    "A case is non-trivial when the operation it targets actually ran (load succeeded / interpolation branch taken / "
    "exception raised); distinct = distinct case id."
)
ASSUMPTIONS = [
    "files are as WallGoCollision writes them: metadata attrs 'Basis Size' (int) and 'Basis Type' (bytes), dataset '<p1>, <p2>' [alpha,beta,j,k]",
    "same basis and same size => entries must be bit-identical to the stored integers (tolerance 0)",
    "otherwise tolerance = 64*eps*(cond(Tz)+cond(Tp))*max|A|max|B|*sum|C| accumulated along the chain of linear maps the code performs "
    "(norm-wise bound for the doubly inverted matrices of changeBasis; 4N*eps per product-form cardinal function)",
    "grid nodes and restricted Chebyshev/cardinal functions are those of the WallGo paper (Gauss-Lobatto, end points dropped); "
    "agreement of Grid.rzValues/rpValues with the oracle nodes is an admissibility precondition (C17 owns the grid)",
    "fault cases: 'either a complete array is installed or CollisionLoadError is raised and the previous array object is kept' is read literally: "
    "any other exception type is a violation; the state part (object identity + byte digest of its contents) is checked for every exception type",
    "size/basis mismatch need >= 2 files, so they are not enumerated for a single particle",
]

EPS = O.EPS
NAMES = ["top", "gluon", "W"]  # global particle ids 0,1,2
WORK = pathlib.Path(__file__).resolve().parents[2] / ".work" / "c14"
OTHER = {"Cardinal": "Chebyshev", "Chebyshev": "Cardinal"}
G2_OFFSET = 700000  # second good directory: every integer shifted beyond the range of the first


# =========================================================================== fixtures
class Scratch:
    """Per-case scratch directory /verif/.work/c14/run-<pid>/<hash>/ ; removed on exit."""

    def __init__(self, cid: str):
        self.run = WORK / f"run-{os.getpid()}"
        self.path = self.run / hashlib.sha1(cid.encode()).hexdigest()[:12]

    def __enter__(self) -> pathlib.Path:
        if self.path.exists():
            shutil.rmtree(self.path)
        self.path.mkdir(parents=True)
        return self.path

    def __exit__(self, *exc):
        shutil.rmtree(self.path, ignore_errors=True)
        try:
            self.run.rmdir()  # only succeeds when this worker has nothing else in flight
        except OSError:
            pass
        return False


def write_file(d: pathlib.Path, ga: int, gb: int, N: int, basis: str, offset: int = 0, dataset: bool = True) -> None:
    import h5py

    a, b = NAMES[ga], NAMES[gb]
    with h5py.File(str(d / f"collisions_{a}_{b}.hdf5"), "w") as f:
        meta = f.create_group("metadata")
        meta.attrs["Basis Size"] = np.int64(N)
        meta.attrs["Basis Type"] = np.bytes_(basis)
        if dataset:
            f.create_dataset(f"{a}, {b}", data=O.encode(ga, gb, N - 1, offset))


def write_dir(d: pathlib.Path, gids, N: int, basis: str, offset: int = 0, skip=(), override=None) -> pathlib.Path:
    """All ordered pairs of `gids`; `skip` = set of (ga,gb) not written; override[(ga,gb)] = kwargs for that file."""
    d.mkdir(parents=True, exist_ok=True)
    override = override or {}
    for ga in gids:
        for gb in gids:
            if (ga, gb) in skip:
                continue
            kw = dict(N=N, basis=basis, offset=offset)
            kw.update(override.get((ga, gb), {}))
            write_file(d, ga, gb, **kw)
    return d


def make_particles(gids):
    from WallGo import Particle

    return [Particle(NAMES[g], g, lambda f: 0.0, lambda f: 0.0, "Fermion", 12) for g in gids]


def make_grid(N: int, cls: str = "Grid"):
    if cls == "Grid3Scales":
        from WallGo import Grid3Scales

        return Grid3Scales(4, N, 5.0, 5.0, 1.0, 1.0)
    from WallGo import Grid

    return Grid(4, N, 1.0, 1.0)


def make_solver(N: int, rb: str, gids, gridcls: str = "Grid"):
    from WallGo.boltzmann import BoltzmannSolver

    s = BoltzmannSolver(make_grid(N, gridcls), basisM="Cardinal", basisN=rb)
    s.updateParticleList(make_particles(gids))
    return s


def attempt(solver, path):
    """Run the real load; return the exception (or None)."""
    try:
        solver.loadCollisions(path)
        return None
    except Exception as e:  # noqa: BLE001 - the *type* is the observation
        if type(e).__name__ == "_Timeout":
            raise
        return e


def digest(ca) -> tuple:
    """Everything the property can observe of an installed array."""
    if ca is None:
        return ("none",)
    c = np.ascontiguousarray(ca.polynomialData.coefficients)
    return (
        type(ca).__name__, ca.basisType, tuple(ca.polynomialData.basis), c.shape, int(ca.size),
        tuple(p.name for p in ca.particles), hashlib.sha1(c.tobytes()).hexdigest(),
    )


def nodes_admissible(N: int, grid) -> bool:
    rz, rp = O.nodes_float(N)
    return bool(np.allclose(grid.rzValues, rz, rtol=0, atol=8 * EPS) and np.allclose(grid.rpValues, rp, rtol=0, atol=8 * EPS))


def compare(r: Rel, name: str, got: np.ndarray, want: np.ndarray, tol: np.ndarray | float, **extra) -> bool:
    """Element-wise |got-want| <= tol (tol may be 0 = bit-identical). Records margin and, on failure, the worst entry
    together with the place its value was stored at (decoded integer) when it is a stored integer."""
    r.n += 1
    got = np.asarray(got, dtype=float)
    if got.shape != want.shape:
        r.viol.append({"relation": name, "detail": {"shape_got": got.shape, "shape_want": want.shape, **extra}})
        return False
    tol = np.broadcast_to(np.asarray(tol, dtype=float), want.shape)
    err = np.abs(got - want)
    err = np.where(np.isfinite(err), err, np.inf)
    bad = err > tol
    good = (~bad) & (tol > 0)  # margin = residual/tolerance over the entries that pass with a non-zero tolerance
    if np.any(good):
        m = float(np.max(err[good] / tol[good]))
        if m > r.margin:
            r.margin = m
            r.margin_at = name
    if np.any(bad):
        score = np.where(bad, err / (tol + 1e-300), 0.0)
        idx = np.unravel_index(int(np.argmax(np.where(np.isfinite(score), score, 1e300))), want.shape)
        det = {
            "n_bad": int(bad.sum()), "n_entries": int(bad.size), "worst_index[alpha,beta,p,q]": [int(i) for i in idx],
            "got": float(got[idx]), "want": float(want[idx]), "tol": float(tol[idx]),
            "max_abs_err": float(np.max(err[np.isfinite(err)])) if np.any(np.isfinite(err)) else "inf",
        }
        dec = O.decode(float(got[idx]), extra.get("offset", 0))
        if dec is not None:
            det["got_value_was_stored_at(a,b,alpha,beta,j,k)"] = list(dec)
        det.update(extra)
        r.viol.append({"relation": name, "detail": det})
        return False
    return True


def check_structure(r: Rel, ca, n: int, S: int, rb: str, prefix: str = "") -> bool:
    from WallGo.collisionArray import CollisionArray

    ok = r.true(prefix + "is-CollisionArray", isinstance(ca, CollisionArray), got=type(ca).__name__)
    if not ok:
        return False
    shp = tuple(np.shape(ca.polynomialData.coefficients))
    ok &= r.true(prefix + "shape", shp == (n, S, S, n, S, S), got=shp, want=(n, S, S, n, S, S))
    ok &= r.true(prefix + "basisType", ca.getBasisType() == rb, got=ca.getBasisType(), want=rb)
    want = ("Array", "Cardinal", "Cardinal", "Array", rb, rb)
    ok &= r.true(prefix + "polynomial-basis", tuple(ca.polynomialData.basis) == want, got=tuple(ca.polynomialData.basis), want=want)
    ok &= r.true(prefix + "basis-size", ca.getBasisSize() == S, got=ca.getBasisSize(), want=S)
    return bool(ok)


def expected_block(ga: int, gb: int, Ns: int, Nt: int, sb: str, rb: str, offset: int = 0):
    """Oracle value of the (ga,gb) block after 'load at grid size Nt, requested basis rb' and the rounding allowance.

    value: shortest chain (stored -> Chebyshev -> interpolate -> rb).  allowance: the chain of linear maps the code
    performs (source to Chebyshev, interpolate, back to the stored basis, then to the requested basis)."""
    stored = O.Tracked(O.encode(ga, gb, Ns - 1, offset))
    if Ns == Nt:
        e = O.change_basis(stored, Ns, sb, rb)
        return e.val, e.bound
    direct = O.change_basis(O.interpolate(O.change_basis(stored, Ns, sb, "Chebyshev"), Ns, Nt, (0, 1)), Nt, "Chebyshev", rb)
    path = O.change_basis(O.interpolate(O.change_basis(stored, Ns, sb, "Chebyshev"), Ns, Nt, (0, 1)), Nt, "Chebyshev", sb)
    path = O.change_basis(path, Nt, sb, rb)
    return direct.val, direct.bound + path.bound


def pair_name(ga: int, gb: int) -> str:
    return f"{NAMES[ga]}-{NAMES[gb]}"


# =========================================================================== (L) load + interpolation
def case_load(p: dict) -> dict:
    """One load through the solver; section `load` has Nt == Ns, section `interp` has Nt < Ns."""
    r = Rel(p["id"])
    gids, Ns, Nt, sb, rb, gcls = p["plist"], p["Ns"], p["Nt"], p["sb"], p["rb"], p["grid"]
    n, S = len(gids), Nt - 1
    equal = Ns == Nt
    with Scratch(p["id"]) as d:
        write_dir(d, [0, 1, 2], Ns, sb)  # the directory always holds all 9 pairs; the particle list selects
        solver = make_solver(Nt, rb, gids, gcls)
        if not (nodes_admissible(Nt, solver.grid) and nodes_admissible(Ns, make_grid(Ns))):
            return r.result(inadmissible="grid nodes differ from the Gauss-Lobatto definition")
        exc = attempt(solver, d)
        if not r.true("load-returns", exc is None, error=repr(exc)):
            return r.result()
        ca = solver.collisionArray
        r.tag(f"n{n}", "equal-size" if equal else "interpolated", f"{sb}->{rb}", gcls,
              "same-basis" if sb == rb else "basis-changed", "list-in-file-order" if gids == sorted(gids) else "list-reordered")
        if not check_structure(r, ca, n, S, rb):
            return r.result()
        arr = np.asarray(ca.polynomialData.coefficients)
        r.true("getitem-is-data", np.array_equal(np.asarray(ca[...]), arr))
        rel = "entries" if equal else "interp"
        for i, ga in enumerate(gids):
            for j, gb in enumerate(gids):
                want, tol = expected_block(ga, gb, Ns, Nt, sb, rb)
                got = arr[i, :, :, j, :, :]
                # (1) the block of the ordered pair (position i,j in the list) is the operator stored for (ga,gb)
                compare(r, f"{rel}-{pair_name(ga, gb)}", got, want, tol)
                # (2) same statement on the other complete basis of distributions (harness converts with its own matrices;
                #     conversion rounding: S^2 terms with mp-accurate matrices -> allowance kappa = 1 of the same crude form)
                if equal:
                    Y = OTHER[rb]
                    conv = O.change_basis(O.Tracked(got, bound=np.broadcast_to(tol, got.shape).copy()), Nt, rb, Y)
                    ref = O.change_basis(O.Tracked(O.encode(ga, gb, Ns - 1)), Ns, sb, Y)
                    compare(r, f"action-on-{Y}-basis-{pair_name(ga, gb)}", conv.val, ref.val, conv.bound + ref.bound)
        # (3) each block is what the same pair gives when loaded without the other particles (differential, no oracle values)
        if n > 1:
            cache: dict[tuple, np.ndarray] = {}
            for i, ga in enumerate(gids):
                for j, gb in enumerate(gids):
                    sub = [ga] if ga == gb else [ga, gb]
                    if sub == gids:
                        continue  # the list IS the pair: comparing a load with itself would be vacuous
                    key = tuple(sub)
                    if key not in cache:
                        s2 = make_solver(Nt, rb, sub, gcls)
                        e2 = attempt(s2, d)
                        cache[key] = None if e2 is not None else np.asarray(s2.collisionArray.polynomialData.coefficients)
                    small = cache[key]
                    if small is None:
                        r.true(f"alone-{pair_name(ga, gb)}", False, error="loading the pair alone failed")
                        continue
                    ii, jj = (0, 0) if ga == gb else (0, 1)
                    _, tol = expected_block(ga, gb, Ns, Nt, sb, rb)
                    compare(r, f"alone-{pair_name(ga, gb)}", arr[i, :, :, j, :, :], small[ii, :, :, jj, :, :], 2 * tol)
    return r.result(nontrivial=True)


ORDERED_LISTS = [list(perm) for k in (1, 2, 3) for comb in itertools.combinations(range(3), k) for perm in itertools.permutations(comb)]


def _lname(gids) -> str:
    return "+".join(NAMES[g] for g in gids)


def load_cases(tier: str, interp: bool) -> list[dict]:
    sizes = [5, 7, 9] + ([11, 13, 15] if tier == "thorough" else [])
    out = []
    for gids in ORDERED_LISTS:
        for Ns in sizes:
            targets = [Ns] if not interp else [t for t in range(3, Ns, 2)]
            for Nt in targets:
                for sb in ("Chebyshev", "Cardinal"):
                    for rb in ("Chebyshev", "Cardinal"):
                        for gcls in ("Grid", "Grid3Scales"):
                            out.append({
                                "id": f"list={_lname(gids)},stored={Ns},target={Nt},sb={sb},rb={rb},grid={gcls}",
                                "plist": gids, "Ns": Ns, "Nt": Nt, "sb": sb, "rb": rb, "grid": gcls,
                            })
    if interp and tier == "quick":
        # target grids with more than 64 and with a non-power-of-two number of momentum points ((N-1)^2 = 100, 144): anything that
        # treats the points of the new grid in blocks or batches has a remainder here (thorough has all stored sizes up to 13)
        for gids in ([0], [0, 1]):
            for Ns, Nt in ((13, 11), (15, 13)):
                for sb, rb in (("Chebyshev", "Cardinal"), ("Cardinal", "Chebyshev")):
                    out.append({"id": f"list={_lname(gids)},stored={Ns},target={Nt},sb={sb},rb={rb},grid=Grid3Scales",
                                "plist": gids, "Ns": Ns, "Nt": Nt, "sb": sb, "rb": rb, "grid": "Grid3Scales"})
    return out


# =========================================================================== (H) changeBasis histories
def case_basis(p: dict) -> dict:
    r = Rel(p["id"])
    gids, N, sb, seq = p["plist"], p["N"], p["sb"], p["seq"]
    n, S = len(gids), N - 1
    with Scratch(p["id"]) as d:
        write_dir(d, gids, N, sb)
        solver = make_solver(N, sb, gids)
        if not nodes_admissible(N, solver.grid):
            return r.result(inadmissible="grid nodes differ from the Gauss-Lobatto definition")
        exc = attempt(solver, d)
        if not r.true("load-returns", exc is None, error=repr(exc)):
            return r.result()
    ca = solver.collisionArray
    # reference operator per pair in both bases (exact) and the tracked allowance along the history
    cur = sb
    track = {(i, j): O.Tracked(O.encode(ga, gb, S)) for i, ga in enumerate(gids) for j, gb in enumerate(gids)}
    ref = {Y: {k: O.change_basis(O.Tracked(O.encode(gids[k[0]], gids[k[1]], S)), N, sb, Y) for k in track} for Y in OTHER}
    for t, target in enumerate(seq, start=1):
        try:
            ret = ca.changeBasis(target)
        except Exception as e:  # noqa: BLE001
            if type(e).__name__ == "_Timeout":
                raise
            r.true(f"step{t}-returns", False, error=repr(e))
            break
        r.true(f"step{t}-returns-self", ret is ca)
        r.tag("noop" if target == cur else f"{cur}->{target}")
        if target != cur:
            track = {k: O.change_basis(v, N, cur, target) for k, v in track.items()}
            cur = target
        if not check_structure(r, ca, n, S, cur, prefix=f"step{t}-"):
            break
        arr = np.asarray(ca.polynomialData.coefficients)
        for Y in ("Cardinal", "Chebyshev"):
            worst = 0
            for (i, j), tr in track.items():
                got = arr[i, :, :, j, :, :]
                if Y == cur:
                    ok = compare(r, f"step{t}-action-on-{Y}-basis-{pair_name(gids[i], gids[j])}", got, ref[Y][(i, j)].val,
                                 tr.bound + ref[Y][(i, j)].bound)
                else:
                    conv = O.change_basis(O.Tracked(got, bound=tr.bound.copy()), N, cur, Y)
                    ok = compare(r, f"step{t}-action-on-{Y}-basis-{pair_name(gids[i], gids[j])}", conv.val, ref[Y][(i, j)].val,
                                 conv.bound + ref[Y][(i, j)].bound)
                worst += 0 if ok else 1
    return r.result(nontrivial=any(a != b for a, b in zip([sb] + seq, seq)))


def basis_cases(tier: str) -> list[dict]:
    sizes = [5, 7, 9] + ([11, 13] if tier == "thorough" else [])
    seqs = [list(s) for k in (1, 2, 3) for s in itertools.product(("Cardinal", "Chebyshev"), repeat=k)]
    out = []
    for gids in ([0], [0, 1], [1, 0], [0, 1, 2]):
        for N in sizes:
            for sb in ("Chebyshev", "Cardinal"):
                for seq in seqs:
                    out.append({
                        "id": f"list={_lname(gids)},N={N},start={sb},seq={'>'.join(s[:4] for s in seq)}",
                        "plist": gids, "N": N, "sb": sb, "seq": seq,
                    })
    return out


# =========================================================================== (E) single faults, fresh and after a good load
def _positions(n: int):
    return [(a, b) for a in range(n) for b in range(n)]


def fault_setup(p: dict, base: pathlib.Path):
    """Write the faulty directory (and the good one used for the first load). Returns (good, bad, gridN, benign, storedGoodN)."""
    kind, n = p["kind"], p["n"]
    gids = list(range(n))
    if kind == "missing":
        gridN, stored = p["target"], 5
        skip = {pos for bit, pos in enumerate(_positions(n)) if (p["mask"] >> bit) & 1}
        bad = write_dir(base / "bad", gids, stored, "Chebyshev", offset=G2_OFFSET, skip=skip)
        good = write_dir(base / "good", gids, stored, "Chebyshev")
        return good, bad, gridN, len(skip) == 0, stored
    if kind == "oversize":
        stored, gridN = p["stored"], p["target"]
        bad = write_dir(base / "bad", gids, stored, "Chebyshev", offset=G2_OFFSET)
        good = write_dir(base / "good", gids, gridN, "Chebyshev")
        return good, bad, gridN, False, gridN
    pos = tuple(p["pos"])
    if kind == "sizemismatch":
        others, odd, gridN = {"larger": (5, 7, 5), "smaller-fits": (7, 5, 5), "below-target": (5, 3, 5)}[p["variant"]]
        bad = write_dir(base / "bad", gids, others, "Chebyshev", offset=G2_OFFSET, override={pos: {"N": odd}})
        good = write_dir(base / "good", gids, others, "Chebyshev")
        return good, bad, gridN, False, others
    if kind == "basismismatch":
        mb = p["majority"]
        bad = write_dir(base / "bad", gids, 5, mb, offset=G2_OFFSET, override={pos: {"basis": OTHER[mb]}})
        good = write_dir(base / "good", gids, 5, mb)
        return good, bad, 5, False, 5
    if kind == "nodataset":
        bad = write_dir(base / "bad", gids, 5, "Chebyshev", offset=G2_OFFSET, override={pos: {"dataset": False}})
        good = write_dir(base / "good", gids, 5, "Chebyshev")
        return good, bad, 5, False, 5
    raise ValueError(kind)


def case_fault(p: dict) -> dict:
    from WallGo.exceptions import CollisionLoadError

    r = Rel(p["id"])
    n = p["n"]
    gids = list(range(n))
    with Scratch(p["id"]) as base:
        good, bad, gridN, benign, goodN = fault_setup(p, base)
        r.tag(f"{p['kind']}-n{n}", "benign" if benign else "faulty")
        for phase in ("fresh", "after"):
            solver = make_solver(gridN, "Chebyshev", gids)
            prev, prevdig = None, digest(None)
            if phase == "after":
                e0 = attempt(solver, good)
                if not r.true("after:first-load-returns", e0 is None and solver.collisionArray is not None, error=repr(e0)):
                    continue
                prev = solver.collisionArray
                prevdig = digest(prev)
                keep = np.array(prev.polynomialData.coefficients, copy=True)
            exc = attempt(solver, bad)
            now = solver.collisionArray
            if benign:
                r.true(f"{phase}:load-returns", exc is None, error=repr(exc))
                if exc is not None:
                    continue
                r.true(f"{phase}:new-object-installed", now is not None and now is not prev)
                if check_structure(r, now, n, gridN - 1, "Chebyshev", prefix=f"{phase}:") and gridN == 5:
                    arr = np.asarray(now.polynomialData.coefficients)
                    for i in gids:
                        for j in gids:
                            compare(r, f"{phase}:entries-{pair_name(i, j)}", arr[i, :, :, j, :, :], O.encode(i, j, 4, G2_OFFSET), 0.0, offset=G2_OFFSET)
                if phase == "after":  # the array replaced must not have been edited on the way
                    r.true("after:replaced-object-untouched", digest(prev) == prevdig)
                continue
            # ---- faulty directory: CollisionLoadError, and nothing (or the previous object, unchanged) installed
            r.true(f"{phase}:raises", exc is not None, note="load returned normally from an incomplete/inconsistent directory",
                   installed=digest(now)[:5])
            r.true(f"{phase}:raises-CollisionLoadError", isinstance(exc, CollisionLoadError), got=repr(exc)[:300])
            r.tag("exc=" + type(exc).__name__)
            if phase == "fresh":
                r.true("fresh:collisionArray-stays-None", now is None, got=digest(now)[:5])
            else:
                r.true("after:same-object-kept", now is prev, got=digest(now)[:5])
                r.true("after:contents-unchanged", digest(prev) == prevdig and np.array_equal(prev.polynomialData.coefficients, keep))
    return r.result(nontrivial=True)


def fault_cases(tier: str) -> list[dict]:
    out = []
    for n in (1, 2, 3):
        for mask in range(2 ** (n * n)):  # complete: every subset of the n^2 files, mask 0 = benign
            for target in (5, 3):  # equal-size path and interpolating path
                out.append({"id": f"missing,n={n},mask={mask:0{n * n}b},target={target}", "kind": "missing", "n": n, "mask": mask, "target": target})
        for stored, target in ((3, 5), (5, 7), (5, 9), (7, 9), (3, 9)):
            out.append({"id": f"oversize,n={n},stored={stored},target={target}", "kind": "oversize", "n": n, "stored": stored, "target": target})
        for pos in _positions(n):
            ptxt = f"{pos[0]}{pos[1]}"
            out.append({"id": f"nodataset,n={n},pos={ptxt}", "kind": "nodataset", "n": n, "pos": list(pos)})
            if n == 1:
                continue  # a single file cannot disagree with another
            for variant in ("larger", "smaller-fits", "below-target"):
                out.append({"id": f"sizemismatch,n={n},pos={ptxt},variant={variant}", "kind": "sizemismatch", "n": n, "pos": list(pos), "variant": variant})
            for mb in ("Chebyshev", "Cardinal"):
                out.append({"id": f"basismismatch,n={n},pos={ptxt},majority={mb}", "kind": "basismismatch", "n": n, "pos": list(pos), "majority": mb})
    return out


# =========================================================================== (E) sequences of <= 3 loads vs reference model
SYMBOLS = ("G1", "G2", "M", "O", "S", "B", "D")
STRICT_TYPE = ("M", "O")  # error *type* is asserted here only for the faults the single-fault section shows to be typed
#                           correctly or not per position; in sequences the relation under test is the state machine.


def seq_dirs(base: pathlib.Path, n: int, stored: int, gridN: int) -> dict:
    gids = list(range(n))
    last = (n - 1, n - 1)
    d = {
        "G1": write_dir(base / "G1", gids, stored, "Chebyshev"),
        "G2": write_dir(base / "G2", gids, stored, "Chebyshev", offset=G2_OFFSET),
        "M": write_dir(base / "M", gids, stored, "Chebyshev", offset=2 * G2_OFFSET, skip={last}),
        "O": write_dir(base / "O", gids, gridN - 2, "Chebyshev", offset=2 * G2_OFFSET),
        "D": write_dir(base / "D", gids, stored, "Chebyshev", offset=2 * G2_OFFSET, override={last: {"dataset": False}}),
    }
    if n > 1:
        d["S"] = write_dir(base / "S", gids, stored, "Chebyshev", offset=2 * G2_OFFSET, override={last: {"N": stored + 2}})
        d["B"] = write_dir(base / "B", gids, stored, "Chebyshev", offset=2 * G2_OFFSET, override={last: {"basis": "Cardinal"}})
    return d


def case_sequences(p: dict) -> dict:
    """Shard = (n, mode, first symbol): every sequence of <= 3 loads starting with that symbol, each replayed on a fresh solver."""
    from WallGo.exceptions import CollisionLoadError

    r = Rel(p["id"])
    n, mode, first = p["n"], p["mode"], p["first"]
    stored, gridN = (5, 5) if mode == "equal" else (7, 5)
    gids = list(range(n))
    nseq = ntrans = 0
    states = set()
    with Scratch(p["id"]) as base:
        dirs = seq_dirs(base, n, stored, gridN)
        alphabet = [s for s in SYMBOLS if s in dirs]
        # contents a good directory gives on a solver without history (differential reference), + exact integers at equal size
        fresh = {}
        for g in ("G1", "G2"):
            s0 = make_solver(gridN, "Chebyshev", gids)
            e0 = attempt(s0, dirs[g])
            fresh[g] = None if e0 is not None else digest(s0.collisionArray)
        r.true("reference-loads-succeed", all(v is not None for v in fresh.values()))
        r.true("reference-contents-differ", fresh["G1"] != fresh["G2"])
        for L in range(1, int(p.get("depth", 3)) + 1):
            for tail in itertools.product(alphabet, repeat=L - 1):
                seq = (first,) + tail
                sname = ".".join(seq)
                nseq += 1
                solver = make_solver(gridN, "Chebyshev", gids)
                model = None  # reference model: which good directory is installed
                held, helddig = None, digest(None)
                for t, sym in enumerate(seq, start=1):
                    ntrans += 1
                    exc = attempt(solver, dirs[sym])
                    now = solver.collisionArray
                    tagk = f"{sname}@{t}"
                    if sym in ("G1", "G2"):
                        if r.true(f"{tagk}:load-returns", exc is None, error=repr(exc)):
                            r.true(f"{tagk}:new-object", now is not None and now is not held)
                            r.true(f"{tagk}:contents-as-without-history", digest(now) == fresh[sym])
                            if held is not None:
                                r.true(f"{tagk}:replaced-object-untouched", digest(held) == helddig)
                            if mode == "equal" and now is not None:
                                off = 0 if sym == "G1" else G2_OFFSET
                                arr = np.asarray(now.polynomialData.coefficients)
                                okall = all(np.array_equal(arr[i, :, :, j, :, :], O.encode(i, j, 4, off)) for i in gids for j in gids)
                                r.true(f"{tagk}:entries-exact", okall)
                            model, held, helddig = sym, now, digest(now)
                    else:
                        r.true(f"{tagk}:raises", exc is not None)
                        if sym in STRICT_TYPE:
                            r.true(f"{tagk}:raises-CollisionLoadError", isinstance(exc, CollisionLoadError), got=repr(exc)[:200])
                        r.true(f"{tagk}:previous-kept", now is held, model=model)
                        r.true(f"{tagk}:contents-unchanged", digest(now) == helddig)
                    states.add(model)
    r.detail.update({"sequences": nseq, "transitions": ntrans, "model_states": sorted(str(s) for s in states)})
    r.tag(f"seq-n{n}-{mode}", *[f"state-{s}" for s in sorted(str(s) for s in states)])
    return r.result(nontrivial=True)


def sequence_cases(tier: str) -> list[dict]:
    out = []
    for n in (1, 2, 3):
        for mode in ("equal", "interp"):
            for first in SYMBOLS:
                if n == 1 and first in ("S", "B"):
                    continue
                out.append({"id": f"n={n},mode={mode},first={first}", "n": n, "mode": mode, "first": first, "depth": 4 if tier == "thorough" else 3})
    return out


# =========================================================================== driver
SECTIONS = {
    "load": (lambda tier: load_cases(tier, interp=False), case_load),
    "interp": (lambda tier: load_cases(tier, interp=True), case_load),
    "basis": (basis_cases, case_basis),
    "faults": (fault_cases, case_fault),
    "sequences": (sequence_cases, case_sequences),
}


def _sweep() -> None:
    """Remove scratch left behind by this or an interrupted earlier run (only run-* dirs of dead/own processes)."""
    if not WORK.exists():
        return
    for d in WORK.glob("run-*"):
        try:
            pid = int(d.name.split("-")[1])
        except ValueError:
            continue
        alive = pid != os.getpid() and os.path.exists(f"/proc/{pid}")
        if not alive:
            shutil.rmtree(d, ignore_errors=True)


def probe_completeness(sizes) -> dict:
    """The code applies ONE linear map to every slice of the tensor (basis change: on the (j,k) axes of every
    (a,alpha,beta,b) slice; interpolation: on the (alpha,beta) axes of every (a,b,j,k) slice).  A single tensor therefore
    tests the map on as many input vectors as it has slices; the map is pinned down completely iff these vectors span
    R^(S^2).  Verified here for the stored tensor of one pair (the weakest case: one particle)."""
    out = {}
    for N in sizes:
        S = N - 1
        x = O.encode(0, 0, S)
        rk_dist = int(np.linalg.matrix_rank(x.reshape(S * S, S * S)))  # rows = (alpha,beta) slices, vectors over (j,k)
        rk_mom = int(np.linalg.matrix_rank(x.reshape(S * S, S * S).T))  # rows = (j,k) slices, vectors over (alpha,beta)
        out[str(N)] = {"dim": S * S, "rank_distribution_axes": rk_dist, "rank_momentum_axes": rk_mom}
        if rk_dist != S * S or rk_mom != S * S:
            raise RuntimeError(f"encoded tensor for N={N} does not span the input space: {out[str(N)]}")
    return out


def run(ctx) -> None:
    _sweep()
    ctx.note("input_vectors_span_space", probe_completeness([5, 7, 9] + ([11, 13] if ctx.tier == "thorough" else [])))
    for name, (gen, fn) in SECTIONS.items():
        if ctx.only and ctx.only != name:
            continue
        cases = with_ids(gen(ctx.tier))
        results = ctx.run_lattice(name, cases, fn, timeout=300)
        if name == "sequences":
            nseq = sum(int((res.get("detail") or {}).get("sequences", 0)) for res in results)
            ntr = sum(int((res.get("detail") or {}).get("transitions", 0)) for res in results)
            ctx.add_bfs(states=3 * 6, transitions=ntr, traces=nseq)  # 3 model states per (n, mode)
            ctx.note("sequences_enumerated", nseq)
    _sweep()
    ctx.exhaustive = True
    ctx.note("exhaustive_scope", "all 2^(n^2) missing-file subsets n<=3; one deviating file at every position; all load sequences "
             "of length <=3 over the 7-symbol alphabet; basis change / interpolation are linear maps applied slice-wise: the slices of "
             "the distinct-integer tensor span the whole input space (ranks in input_vectors_span_space), so each map is fixed on a "
             "complete basis for the listed sizes and particle lists; not exhaustive over N or over the reals")
    ctx.note("bounds", {"particles": "1..3 (15 ordered lists)", "stored_N": "5,7,9 (thorough +11,13)", "load_sequence_depth": 4 if ctx.tier == "thorough" else 3})


def replay(rep: dict) -> dict:
    return SECTIONS[rep["section"]][1](rep["params"])
