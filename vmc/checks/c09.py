"""C09 - in a uniform plasma the wall pressure equals the free-energy difference.

(L) bounded-exhaustive lattice over potential x temperature x wall shape x spatial grid size.  On every
point the REAL ``EOM._updateGrid`` re-maps the grid to the wall and the REAL
``EOM._intermediatePressureResults`` is called with ``multiplier=0`` (the Nelder-Mead step is performed but
the given shape is kept), a prescribed temperature/velocity profile and zero out-of-equilibrium Deltas
(``includeOffEq=False``, no particles).  Oracles (vmc/oracles/c09_oracle.py):

 tier (i)   for EVERY shape: P_impl equals the harness' own Gauss-Chebyshev-Lobatto quadrature of the
            ANALYTIC -gradV.dphi/dz with own nodes/weights/profile and a Jacobian obtained by numerically
            differentiating ``grid.decompactify``; tolerance = derived rounding bound of WallGo's 4th-order
            finite-difference gradient (exact in truncation for quartic potentials) + Jacobian FD error;
 tier (ii)  for every shape the grid resolves (reference quadrature within 1e-6 of DeltaV):
            P_impl equals DeltaV = V(low) - V(high) (closed form);
 profile    wallProfile's dphi/dz is the derivative of its own phi (complex step through the real code) at
            all grid points (array branch) and at scalar z (scalar branch); boundary values are the vevs.
 e2e        EOM.wallPressure (full iteration incl. hydrodynamic boundary conditions, real temperature
            profile from findPlasmaProfile, real minimisation) on the bag-type potential (field-dependent
            part independent of T) returns DeltaV, two-tier as above with the returned shape.

Under-resolved shapes therefore never raise a false alarm: they are compared with a quadrature that is
under-resolved in exactly the same way.
"""
from __future__ import annotations

import numpy as np

from .. import models as MD
from .. import wg
from ..lattice import Rel
from ..oracles import c09_oracle as O

LEVEL = "exploration"
RULE = (
    "full cross product potential{cubic1,xsm2,xsm3,xsm2c0(T-independent field part, non-constant T profile)} x "
    "3 temperatures with both phases present x absolute width{0.2,1,5}L0 x width ratio{1/3,1,3} x offset{-2..2} x "
    "M{40,60,80,120} (thorough: M{40,50,60,80,120,160}, 5 T, ratios{1/3,1/2,1,2,3}, offsets in steps of 0.5); "
    "one case = one (potential,T,shape,M). Shapes: widths w*ratio^(0,1,1/2), offsets (0,off,-off/2) truncated to the "
    "field count (one field: width w, offset off). A case is "
    "non-trivial if DeltaV != 0 and the pressure was returned; tags record resolved/under-resolved, sign of "
    "DeltaV, field count, profile kind. Distinct = distinct case id."
)
ASSUMPTIONS = [
    "profile convention (documented): phi = low + (high-low)/2 (1 + tanh(z/w + delta)); low at z -> -inf",
    "tier (i) tolerance: 1.5/dx * (16 eps sum|terms of V| + |g| eps (|phi|+2dx)) per field component (FD rounding; "
    "truncation is zero for degree <= 4), weighted by |dphi/dz| dz; + Jacobian step-doubling error; + 64 eps sum|terms|",
    "'resolved' := |P_ref - DeltaV| <= 1e-6 |DeltaV| (P_ref = harness quadrature on the same nodes); tier (ii) "
    "bound = 10*max(|P_ref - DeltaV|, tol_i), i.e. at most 1e-5 |DeltaV| and ~1e-9 |DeltaV| for well resolved shapes",
    "end points of the profile are WallGo's own traced minima at T (as wallPressure uses them); DeltaV is the "
    "analytic V at exactly those end points (the identity is a total derivative, valid for any end points)",
    "quick tier: EOM.action (whose minimiser result multiplier=0 discards) is the real one on the wabs=1 slice and an "
    "instance-level constant stub on the wabs=0.2/5 slices (cost only); thorough tier: always the real action",
    "shapes that _intermediatePressureResults would clamp (outside wallThicknessBounds/wallOffsetBounds) are inadmissible",
    "xsm2c0: DeltaV is that of the field-dependent part (common reference temperature); the -aT^4 term drops out "
    "of dV/dphi, so the identity holds for any T profile",
]

EPS = O.EPS
VMID = 0.5  # plasma velocity used for the constant velocity profile / _updateGrid (irrelevant without off-eq particles)
RESOLVED_REL = 1e-6
POT_ERR = 1e-15  # effectivePotentialError of vmc.models.make_potential
L0_TN = 5.0  # default wall thickness guess in units of 1/Tn

MODELS = {
    # name: (factory, Tn, high phase, low phase, temperatures, kind of T profile)
    "cubic1": (lambda: MD.Cubic1(D=0.1, E=0.05, lam=0.1, T0=80.0, a=11.8), 88.0, "sym", "brk", [84.0, 88.0, 93.0], "const"),
    "xsm2": (lambda: MD.xsm2(), 100.0, "S1", "S0", [92.0, 100.0, 110.0], "const"),
    "xsm3": (lambda: MD.xsm3(), 100.0, "S12", "S0", [92.0, 100.0, 110.0], "const"),
    "xsm2c0": (lambda: MD.xsm2(ch=0.0, cs=0.0, mus2=-19000.0), 100.0, "S1", "S0", [92.0, 100.0, 110.0], "tanh"),
}
EXTRA_T = {"cubic1": [86.0, 91.0], "xsm2": [96.0, 105.0], "xsm3": [96.0, 105.0], "xsm2c0": [96.0, 105.0]}

_ENV: dict = {}


def _env(name: str):
    """Per-process cache: analytic model, real WallGoManager (thermo+hydro set up at Tn), EOMs per M."""
    if name not in _ENV:
        make, Tn, high, low, _, _ = MODELS[name]
        am = make()
        fscale = [0.1 * Tn] * am.nf
        mgr = wg.setup_manager(am, Tn, high, low, M=40, N=11, fscale=fscale)
        _ENV[name] = dict(am=am, mgr=mgr, Tn=Tn, high=high, low=low, fscale=np.array(fscale), eoms={})
    return _ENV[name]


def _eom(env, M: int):
    """A real, fully constructed EOM (no collision data, includeOffEq=False) on a grid with M points."""
    if M not in env["eoms"]:
        env["mgr"].config.configGrid.spatialGridSize = int(M)
        env["eoms"][M] = env["mgr"].setupWallSolver(wg.solver_settings(offeq=False)).eom
    return env["eoms"][M]


def _shape(nf: int, Tn: float, wabs: float, ratio: float, off: float):
    L0 = L0_TN / Tn
    expo = {1: [0.0], 2: [0.0, 1.0], 3: [0.0, 1.0, 0.5]}[nf]
    offs = {1: [off], 2: [0.0, off], 3: [0.0, off, -0.5 * off]}[nf]
    return np.array([wabs * L0 * ratio**e for e in expo]), np.array(offs, float)


def _tfun(kind: str, T: float, w0: float):
    if kind == "const":
        return lambda z: T * np.ones_like(np.asarray(z, float))
    # non-constant: 5 % step across the wall, deliberately not centred on it
    return lambda z: T * (1.0 + 0.05 * np.tanh(np.asarray(z, float) / (1.7 * w0) - 0.4))


def _constant_action(*args, **kwargs) -> float:
    """Instance-level replacement of EOM.action where its value is irrelevant (multiplier=0)."""
    return 0.0


def _zero_boltzmann(eom):
    """What wallPressure builds when no Boltzmann solution is supplied: all Deltas identically zero."""
    from WallGo.containers import BoltzmannDeltas
    from WallGo.polynomial import Polynomial
    from WallGo.results import BoltzmannResults

    n, M, N = len(eom.particles), eom.grid.M, eom.grid.N
    zp = Polynomial(np.zeros((n, M - 1)), eom.grid, direction=("Array", "z"), basis=("Array", "Cardinal"))
    deltas = BoltzmannDeltas(Delta00=zp, Delta02=zp, Delta20=zp, Delta11=zp)
    return BoltzmannResults(deltaF=np.zeros((n, M - 1, N - 1, N - 1)), Deltas=deltas, truncationError=0.0,
                            linearizationCriterion1=np.zeros(n), linearizationCriterion2=np.zeros(n))


def _vevs(env, T: float):
    """End points as wallPressure takes them: WallGo's traced minima at T. None if T is outside the traced range."""
    th = env["mgr"].thermodynamics
    for fe in (th.freeEnergyLow, th.freeEnergyHigh):
        if not (fe.interpolationRangeMin() <= T <= fe.interpolationRangeMax()):
            return None
    return th.freeEnergyLow(T).fieldsAtMinimum, th.freeEnergyHigh(T).fieldsAtMinimum


def _grid_relations(r: Rel, grid, ref):
    """The cached coordinates the pressure integral reads are those of the re-mapped grid."""
    # same function, same inputs: equal up to the rounding of chi_j = -cos(j pi/M) (<= 1 ulp, conditioning 1/(1-chi^2))
    zscale = np.abs(ref["z"]) + np.abs(ref["J"]) * np.abs(ref["chi"]) + 1e-300
    r.close("grid-remapped-xi", np.max(np.abs(np.asarray(grid.xiValues) - ref["z"]) / (64 * EPS * zscale)), 0.0, 1.0)
    # Jacobian used as quadrature weight vs d/dchi of decompactify: FD truncation (step doubling estimate) +
    # FD rounding 2.1*dz_err/h with h = d/64 and dz_err <= eps (|z| + |J| d (4 + 1/d)) (arctanh near +-1)
    d = 1.0 - np.abs(ref["chi"])
    # z(chi) is a sum of terms of the size of the tails that partly cancel near the wall: its rounding error is eps times the
    # size of the terms (tails + wall thickness + |centre|), not eps |z| (with equal tails the two are indistinguishable; with
    # the unequal tails of an out-of-equilibrium run the old bound was exceeded 1.2-3 times on the unchanged tree)
    zmag = np.abs(ref["z"]) + float(getattr(grid, "tailLengthInside", 0.0)) + float(getattr(grid, "tailLengthOutside", 0.0)) \
        + float(getattr(grid, "wallThickness", 0.0)) + abs(float(getattr(grid, "wallCenter", 0.0)))
    # the step-doubling difference errJ is a SAMPLE of the finite-difference rounding noise once the truncation error is
    # below it (relative 1e-11..1e-10 here), not a bound: take the largest relative sample within +-3 nodes, 8 times
    rel = ref["errJ"] / np.abs(ref["J"])
    relmax = np.array([np.max(rel[max(0, i - 3):i + 4]) for i in range(len(rel))])
    tolJ = 8 * relmax * np.abs(ref["J"]) + 64 * EPS * (4.0 + 1.0 / d) * np.abs(ref["J"]) + 2.1 * 64 / d * EPS * zmag
    r.close("grid-remapped-jacobian", np.max(np.abs(np.asarray(grid.dxidchi) - ref["J"]) / tolJ), 0.0, 1.0)


def _two_tier(r: Rel, P: float, ref: dict, dV: float, zerr: float, wmin: float, prefix: str = ""):
    """tier (i) for every shape, tier (ii) for resolved ones. Returns (resolved, relerr_ref)."""
    # reference evaluated at the harness' z_j; if WallGo's cached z differ by zerr the integrand moves by
    # <= 8 zerr/w_min relative (d/dz of g.phi' ~ few/w_min)
    # + 1e-100 |dV|: a wall entirely off the grid has P = 0 by underflow in both; do not demand bitwise-zero agreement
    tol_i = ref["tol"] + 8.0 * zerr / wmin * ref["absint"] + 1e-100 * abs(dV)
    r.close(prefix + "tierI-pressure-eq-reference-quadrature", P, ref["P"], tol_i)
    relref = abs(ref["P"] - dV) / abs(dV)
    resolved = relref <= RESOLVED_REL
    if resolved:
        # derived: |P_impl - dV| <= |P_impl - P_ref| + |P_ref - dV|; factor 10 keeps the margin <= ~0.2
        r.close(prefix + "tierII-pressure-eq-deltaV", P, dV, 10.0 * max(abs(ref["P"] - dV), tol_i))
    return resolved, relref, tol_i


# --------------------------------------------------------------------------- section: pressure
def case_pressure(p: dict) -> dict:
    from WallGo import WallParams

    r = Rel(p["id"])
    env = _env(p["model"])
    am, Tn = env["am"], env["Tn"]
    T, M = float(p["T"]), int(p["M"])
    kind = MODELS[p["model"]][5]
    if not (am.is_minimum(env["high"], T) and am.is_minimum(env["low"], T)):
        return r.result(inadmissible="phase-missing-at-T")
    vv = _vevs(env, T)
    if vv is None:
        return r.result(inadmissible="T-outside-traced-range")
    vevLow, vevHigh = vv
    eom = _eom(env, M)
    widths, offsets = _shape(am.nf, Tn, p["wabs"], p["ratio"], p["off"])
    if (np.any(widths < 1.1 * eom.wallThicknessBounds[0] / Tn) or np.any(widths > 0.9 * eom.wallThicknessBounds[1] / Tn)
            or np.any(offsets < 1.1 * eom.wallOffsetBounds[0]) or np.any(offsets > 0.9 * eom.wallOffsetBounds[1])):
        return r.result(inadmissible="shape-would-be-clamped")

    # multiplier=0 discards the result of the Nelder-Mead minimisation of the action, which costs 90 % of the
    # call. Quick tier: the real action on the wabs=1 slice (the problem is scale covariant in wabs), a constant
    # instance-level stub elsewhere; thorough tier: always the real action.
    if p.get("stub_action"):
        eom.__dict__["action"] = _constant_action
    else:
        eom.__dict__.pop("action", None)
    r.tag("action-stubbed" if p.get("stub_action") else "action-real")
    # --- real code: re-map the grid to this wall, then one pressure evaluation with the shape kept
    if p.get("mfp"):
        # the grid as a run WITH out-of-equilibrium particles sets it up: tails mfp*gamma inside, mfp/gamma outside (unequal);
        # the pressure evaluation itself stays the equilibrium one
        eom.includeOffEq, eom.meanFreePathScale = True, float(p["mfp"]) / Tn
        try:
            eom._updateGrid(WallParams(widths=widths.copy(), offsets=offsets.copy()), VMID)
        finally:
            eom.includeOffEq = False
        r.tag("tails-unequal")
    else:
        eom._updateGrid(WallParams(widths=widths.copy(), offsets=offsets.copy()), VMID)
    grid = eom.grid
    tfun = _tfun(kind, T, widths[0])
    Tprof = tfun(np.asarray(grid.xiValues))
    vprof = VMID * np.ones(M - 1)
    try:
        P, wpOut, _, _ = eom._intermediatePressureResults(
            WallParams(widths=widths.copy(), offsets=offsets.copy()), vevLow, vevHigh, 0.0, 0.0, VMID,
            _zero_boltzmann(eom), float(Tprof[-1]), float(Tprof[0]), Tprof, vprof, 0.0)
    except Exception as e:  # the property says a pressure is returned
        r.true("pressure-returned", False, error=repr(e))
        return r.result()
    r.true("pressure-returned", np.isfinite(P), P=P)
    # multiplier=0: 0*new + 1*old (exact unless the minimiser returned non-finite values)
    r.close("shape-kept-widths", wpOut.widths, widths, 4 * EPS * float(np.max(widths)))
    r.close("shape-kept-offsets", wpOut.offsets, offsets, 4 * EPS * (1.0 + float(np.max(np.abs(offsets)))))

    # --- oracle
    lo, hi = np.asarray(vevLow, float)[0], np.asarray(vevHigh, float)[0]
    dx = env["fscale"] * POT_ERR ** (1.0 / 5.0)  # step of WallGo's 4th-order gradient
    ref = O.reference_pressure(am, grid, M, lo, hi, widths, offsets, tfun, dx)
    _grid_relations(r, grid, ref)
    Tstar = T  # common reference temperature (for 'const' it is the temperature)
    dV = float(am.V(lo, Tstar) - am.V(hi, Tstar))
    zerr = float(np.max(np.abs(np.asarray(grid.xiValues) - ref["z"])))
    resolved, relref, tol_i = _two_tier(r, float(P), ref, dV, zerr, float(np.min(widths)))

    r.tag("resolved" if resolved else "under-resolved", "dV<0" if dV < 0 else "dV>0", f"nf={am.nf}", f"M={M}",
          "T-profile-" + kind)
    r.detail.update(P=float(P), P_ref=ref["P"], dV=dV, rel_ref_vs_dV=relref, rel_impl_vs_ref=abs(P - ref["P"]) / abs(dV),
                    tol_i_rel=tol_i / abs(dV), resolved=bool(resolved), M=M, model=p["model"])
    return r.result(nontrivial=bool(dV != 0.0))


def pressure_cases(tier: str) -> list[dict]:
    Ms = [40, 60, 80, 120] if tier == "quick" else [40, 50, 60, 80, 120, 160]
    ratios = [1 / 3, 1.0, 3.0] if tier == "quick" else [1 / 3, 0.5, 1.0, 2.0, 3.0]
    offs = [-2.0, -1.0, 0.0, 1.0, 2.0] if tier == "quick" else [-2.0, -1.5, -1.0, -0.5, 0.0, 0.5, 1.0, 1.5, 2.0]
    out = []
    for name, spec in MODELS.items():
        nf = spec[0]().nf
        Ts = list(spec[4]) + (EXTRA_T[name] if tier != "quick" else [])
        for T in Ts:
            for wabs in (0.2, 1.0, 5.0):
                for ratio in (ratios if nf > 1 else [1.0]):  # one field: no second width
                    for off in offs:
                        for M in Ms:
                            c = dict(model=name, T=T, wabs=wabs, ratio=ratio, off=off, M=M,
                                     stub_action=bool(tier == "quick" and wabs != 1.0))
                            c["id"] = f"{name},T={T:g},w={wabs:g},ratio={ratio:.4g},off={off:g},M={M}"
                            out.append(c)
                            if wabs == 1.0 and off in (-1.0, 0.0, 1.0):
                                # unequal tail lengths (grid of a run with out-of-equilibrium particles, mean free path 30/Tn and 100/Tn)
                                for mfp in (30.0, 100.0):
                                    d = dict(c, mfp=mfp)
                                    d["id"] = c["id"] + f",tails=mfp{mfp:g}"
                                    out.append(d)
    return out


# --------------------------------------------------------------------------- section: profile
def case_profile(p: dict) -> dict:
    from WallGo import WallParams

    r = Rel(p["id"])
    env = _env(p["model"])
    am, Tn = env["am"], env["Tn"]
    T = float(p["T"])
    vv = _vevs(env, T)
    if vv is None:
        return r.result(inadmissible="T-outside-traced-range")
    vevLow, vevHigh = vv
    lo, hi = np.asarray(vevLow, float)[0], np.asarray(vevHigh, float)[0]
    eom = _eom(env, int(p["M"]))
    widths, offsets = _shape(am.nf, Tn, p["wabs"], p["ratio"], p["off"])
    wp = WallParams(widths=widths.copy(), offsets=offsets.copy())
    eom._updateGrid(wp, VMID)
    z = np.asarray(eom.grid.xiValues, float)
    h = 1e-30  # complex step: Im phi(z + i h)/h = phi'(z) up to O(h^2) (no subtraction, no step error)
    scale = np.abs(hi - lo) / widths  # natural size of dphi/dz per field

    def tol_of(d, x):
        # rounding of tanh/cosh^2/products on both sides: 64 eps |d|; the argument x = z/w + delta carries a
        # rounding error ~2 eps |x| and d log(sech^2 x)/dx = -2 tanh x, i.e. a relative error up to 4 eps |x| per
        # side (x ~ 50 in the tails) -> 16 eps |x| |d|; floor for underflowing tails
        return (64 + 16 * np.abs(x)) * EPS * np.abs(d) + 1e-280 * scale

    # array branch, all grid points
    f, d = eom.wallProfile(z, vevLow, vevHigh, wp)
    fc, _ = eom.wallProfile(z + 1j * h, vevLow, vevHigh, wp)
    f, d, dcs = np.asarray(f, float), np.asarray(d, float), np.imag(np.asarray(fc)) / h
    r.true("array-shapes", f.shape == (z.size, am.nf) and d.shape == (z.size, am.nf), f=f.shape, d=d.shape)
    xarr = z[:, None] / widths[None, :] + offsets[None, :]
    ratio = np.abs(d - dcs) / tol_of(dcs, xarr)
    r.close("array-dphidz-is-derivative-of-phi", np.max(ratio), 0.0, 1.0, worst=int(np.argmax(np.max(ratio, axis=-1))))
    # documented tanh convention (own formula), exact up to rounding of z/w+delta (|x| eps) and of tanh
    pref, dref = O.tanh_profile(z, lo, hi, widths, offsets)
    x = np.abs(xarr)
    r.close("array-phi-is-documented-tanh", np.max(np.abs(f - pref) / (EPS * (8 * (np.abs(lo) + np.abs(hi))[None, :] + 8 * np.abs(dref) * widths[None, :] * (1 + x)) + 1e-300)), 0.0, 1.0)
    r.tag("array-z")
    # boundary values: phi(-inf) = low vev, phi(+inf) = high vev (what makes the integral V(low) - V(high))
    far = 40.0 * float(np.max(widths)) * (1.0 + float(np.max(np.abs(offsets))))
    fb, db = eom.wallProfile(np.array([-far, far]), vevLow, vevHigh, wp)
    fb, db = np.asarray(fb, float), np.asarray(db, float)
    r.close("boundary-minus-infinity-is-low-vev", fb[0], lo, 4 * EPS * float(np.max(np.abs(lo) + np.abs(hi))))
    r.close("boundary-plus-infinity-is-high-vev", fb[1], hi, 4 * EPS * float(np.max(np.abs(lo) + np.abs(hi))))
    r.close("boundary-derivative-vanishes", np.max(np.abs(db) / scale), 0.0, 1e-30)  # sech^2(>=38) < 4e-33
    # scalar branch
    for zq in p["zscalar"]:
        zs = float(zq) * float(widths[0])
        fs, ds = eom.wallProfile(zs, vevLow, vevHigh, wp)
        fcs, _ = eom.wallProfile(complex(zs, h), vevLow, vevHigh, wp)
        ds = np.asarray(ds, float).reshape(-1)
        dcs = np.imag(np.asarray(fcs)).reshape(-1) / h
        r.close(f"scalar-dphidz-is-derivative-of-phi-z={zq:g}w", np.max(np.abs(ds - dcs) / tol_of(dcs, zs / widths + offsets)), 0.0, 1.0, impl=ds, complex_step=dcs)
        ps, dsr = O.tanh_profile(np.array([zs]), lo, hi, widths, offsets)
        xs = np.abs(zs / widths + offsets)
        r.close(f"scalar-phi-is-documented-tanh-z={zq:g}w", np.max(np.abs(np.asarray(fs, float).reshape(-1) - ps[0]) / (EPS * (8 * (np.abs(lo) + np.abs(hi)) + 8 * np.abs(dsr[0]) * widths * (1 + xs)) + 1e-300)), 0.0, 1.0)
    r.tag("scalar-z", f"nf={am.nf}")
    return r.result(nontrivial=bool(np.any(hi != lo)))


def profile_cases(tier: str) -> list[dict]:
    ratios = [1 / 3, 1.0, 3.0] if tier == "quick" else [1 / 3, 0.5, 1.0, 2.0, 3.0]
    offs = [-2.0, -1.0, 0.0, 1.0, 2.0] if tier == "quick" else [-2.0, -1.5, -1.0, -0.5, 0.0, 0.5, 1.0, 1.5, 2.0]
    out = []
    for name, spec in MODELS.items():
        nf = spec[0]().nf
        for T in spec[4]:
            for wabs in (0.2, 1.0, 5.0):
                for ratio in (ratios if nf > 1 else [1.0]):
                    for off in offs:
                        for M in ((40, 120) if tier == "quick" else (40, 80, 120, 160)):
                            c = dict(model=name, T=T, wabs=wabs, ratio=ratio, off=off, M=M, zscalar=[-3.0, -0.7, 0.0, 0.4, 2.5])
                            c["id"] = f"{name},T={T:g},w={wabs:g},ratio={ratio:.4g},off={off:g},M={M}"
                            out.append(c)
    return out


# --------------------------------------------------------------------------- section: e2e (wallPressure, bag-type)
def case_e2e(p: dict) -> dict:
    from WallGo import WallParams

    r = Rel(p["id"])
    env = _env("xsm2c0")
    am, Tn = env["am"], env["Tn"]
    M = int(p["M"])
    eom = _eom(env, M)
    eom.__dict__.pop("action", None)  # the real action
    widths, offsets = _shape(am.nf, Tn, p["wabs"], p["ratio"], p["off"])
    try:
        P, wpOut, _, bg, hyd = eom.wallPressure(float(p["vw"]), WallParams(widths=widths.copy(), offsets=offsets.copy()))
    except Exception as e:
        r.true("pressure-returned", False, error=repr(e))
        return r.result()
    r.true("pressure-returned", np.isfinite(P), P=P)
    # the pressure was computed with exactly the returned shape, the returned background (end points and
    # temperature profile) and the grid as wallPressure's own _updateGrid(initial shape) left it
    lo = np.asarray(bg.fieldProfiles, float)[0]
    hi = np.asarray(bg.fieldProfiles, float)[-1]
    Tprof = np.asarray(bg.temperatureProfile, float)[1:-1]
    grid = eom.grid
    dx = env["fscale"] * POT_ERR ** (1.0 / 5.0)
    zimpl = np.asarray(grid.xiValues, float)
    # field part independent of T: any T works in the analytic gradient; use the returned profile (same nodes)
    ref = O.reference_pressure(am, grid, M, lo, hi, np.asarray(wpOut.widths, float), np.asarray(wpOut.offsets, float),
                               lambda z: Tprof, dx)
    _grid_relations(r, grid, ref)
    dV = float(am.V(lo, Tn) - am.V(hi, Tn))
    zerr = float(np.max(np.abs(zimpl - ref["z"])))
    resolved, relref, tol_i = _two_tier(r, float(P), ref, dV, zerr, float(np.min(wpOut.widths)))
    nonconst = float(np.max(Tprof) - np.min(Tprof)) / Tn
    r.tag("e2e-resolved" if resolved else "e2e-under-resolved", "e2e-T-profile-nonconstant" if nonconst > 1e-6 else "e2e-T-profile-constant",
          "e2e-vw-above-vJ" if p["vw"] > eom.hydrodynamics.vJ else "e2e-vw-below-vJ")
    r.detail.update(P=float(P), P_ref=ref["P"], dV=dV, rel_ref_vs_dV=relref, rel_impl_vs_ref=abs(P - ref["P"]) / abs(dV),
                    tol_i_rel=tol_i / abs(dV), resolved=bool(resolved), M=M, T_variation=nonconst,
                    widths_out=np.asarray(wpOut.widths), offsets_out=np.asarray(wpOut.offsets), success=bool(eom.successWallPressure))
    return r.result(nontrivial=bool(dV != 0.0))


def e2e_cases(tier: str) -> list[dict]:
    out = []
    vws = [0.3, 0.55, 0.9] if tier == "quick" else [0.2, 0.3, 0.45, 0.55, 0.65, 0.8, 0.9]
    shapes = [(1.0, 1.0, 0.0), (1.0, 3.0, 1.0), (0.2, 1 / 3, -1.0)] if tier == "quick" else \
        [(1.0, 1.0, 0.0), (1.0, 3.0, 1.0), (0.2, 1 / 3, -1.0), (5.0, 1.0, 1.0), (1.0, 1 / 3, 0.0), (0.2, 3.0, 0.0)]
    for vw in vws:
        for (wabs, ratio, off) in shapes:
            for M in ((40, 80) if tier == "quick" else (40, 80, 120)):
                c = dict(vw=vw, wabs=wabs, ratio=ratio, off=off, M=M)
                c["id"] = f"xsm2c0,vw={vw:g},w={wabs:g},ratio={ratio:.4g},off={off:g},M={M}"
                out.append(c)
    return out


# --------------------------------------------------------------------------- driver
SECTIONS = {
    "pressure": (pressure_cases, case_pressure),
    "profile": (profile_cases, case_profile),
    "e2e": (e2e_cases, case_e2e),
}


def run(ctx) -> None:
    # build the four managers once in the parent: the forked workers inherit them (identical state everywhere)
    for name in MODELS:
        _env(name)
    for name, (gen, fn) in SECTIONS.items():
        if ctx.only and ctx.only != name:
            continue
        results = ctx.run_lattice(name, gen(ctx.tier), fn, timeout=600)
        if name in ("pressure", "e2e"):
            per = {}
            worst = {}
            for res in results:
                d = res.get("detail") or {}
                if "resolved" not in d:
                    continue
                k = f"M={d['M']}"
                a = per.setdefault(k, [0, 0])
                a[0] += int(d["resolved"])
                a[1] += 1
                if not d["resolved"]:
                    worst[k] = max(worst.get(k, 0.0), d["rel_ref_vs_dV"])
            ctx.note(f"{name}_resolved_shapes_per_M", {k: f"{a[0]}/{a[1]}" for k, a in sorted(per.items(), key=lambda kv: int(kv[0][2:]))})
            ctx.note(f"{name}_worst_underresolved_rel_error_per_M", {k: worst[k] for k in sorted(worst, key=lambda s: int(s[2:]))})
    ctx.exhaustive = False
    ctx.note("bounds", "finite lattice listed in RULE, every point executed on the real code; no claim between lattice points")


def replay(rep: dict) -> dict:
    return SECTIONS[rep["section"]][1](rep["params"])
