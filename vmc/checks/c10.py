"""C10 - equation of state is thermodynamically consistent and smoothly extrapolated.

(L) lattice `eos`: {analytic model} x {T_n} x {trace window} x {unit scale s} x {rTol}; for every case
the REAL objects are built the way WallGoManager.initTemperatureRange does (configureDerivatives,
Thermodynamics(...), tracePhase of both phases, setExtrapolate) and every thermodynamic function of
both phases is evaluated on a fixed temperature ladder from 0.3 TMin to 3 TMax of *that phase's*
range (below / inside / above, both boundaries at relative distance +-1e-9 and exactly).
Relations (all independent of WallGo's formulas):
  * dp, ddp, de  ==  5-point finite differences of the REPORTED p (resp. e); the stencil is kept on one
    side of the range boundary and, inside the range, inside ONE cubic piece of the table's spline
    (knots read from the FreeEnergy object), where a 5-point stencil is exact up to rounding;
  * e = T dp - p, w = T dp, de = T ddp, cs^2 = dp/(T ddp) recomputed from reported p, dp, ddp, and
    cs^2 = D1[p] / (T D2[p]) from the reported pressure alone;
  * p, dp, ddp, cs^2 continuous across the four range boundaries;
  * inside the range p == -V(phase minimum) in closed form;
  * alpha(T) == its definition evaluated on the reported p, dp, ddp of both phases.
Section `eos` uses the default phaseTracerTol = 1e-6; `eos_tight` (thorough tier only) repeats the lattice with 1e-8.
(H, short) section `hist`: the histories {construct, trace, evaluate outside the table} (no
setExtrapolate), {construct, setExtrapolate, trace, evaluate outside}, {.., trace, setExtrapolate, setExtrapolate}
and the reference history {.., trace, setExtrapolate}.

Findings recorded as metrics only (they are not part of C10's statement, see the evidence `eos_metrics`):
accuracy of cs^2 at T_n and at the range ends against the analytic model (degrades with the unit scale, and
collapses when the last RK45 step of tracePhase is tiny), and the observed relative error of p.
"""
from __future__ import annotations

import logging
import math

import numpy as np

from .. import models as MD
from ..lattice import Rel
from ..oracles import c10_oracle as OR

LEVEL = "exploration"
RULE = (
    "eos (rTol=1e-6) and eos_tight (rTol=1e-8, thorough only): full cross product model x T_n x trace-window(wide: "
    "spinodal-terminated ends / inside: hard ends) x unit scale s; per case 2 phases x 40 (quick) / 96 (thorough) fixed temperatures from 0.3 TMin to 3 TMax incl. "
    "TMin(1+-1e-9), TMax(1+-1e-9), TMin, TMax, T_n. A case is non-trivial if both phases were traced and every "
    "region (below/inside/above) of both phases was evaluated; distinct = distinct case id. hist: model x T_n x "
    "4 histories, every function x every outside-the-table temperature."
)
ASSUMPTIONS = [
    "rounding: one reported sample carries |err| <= 64 eps (|p| + |T dp|) (spline Horner form / a T^mu/3 - epsilon)",
    "derivative relations: |D^n f - f^(n)| <= R max|f^(5)| + S E_f with R = sum|c_i||o_i|^5/5!, S = sum|c_i| from the "
    "exact rational stencil on the realised float offsets; inside the range the stencil lies in one cubic spline piece (f^(5)=0, knots read from "
    "FreeEnergy._interpolationPoints); outside, f^(5) is bounded by 2 mu^4 w/T^5 of a power law with the "
    "larger of the reported and the analytic exponent",
    "continuity: |q(Tb(1+d)) - q(Tb(1-d))| <= 2 d Tb * (10 (|q'_analytic| + |q|/Tb) + 3 |slope measured on the in-range "
    "side between Tb(1+-d) and Tb(1+-3d)|) + rounding, d = 1e-9",
    "inside the range |p + V(min)| <= phaseTracerTol * |p| ('desired accuracy of the phase tracer and the resulting "
    "FreeEnergy interpolation', config.py); the observed relative error per model and unit scale is recorded as a "
    "metric (it grows with the unit scale - the minimiser's absolute tolerances, D8 - but stays inside the promise)",
    "a case whose table leaves the analytic existence interval of the phase, or whose trace raises, is "
    "inadmissible (phase tracing is C11/C07's subject); an exception from setExtrapolate or from any "
    "thermodynamic function on a traced object is a violation",
    "history without setExtrapolate: any exception is acceptable, a returned value outside the table must equal "
    "-V(min) (direct evaluation) - a value built from the zero coefficients is a violation",
]

EPS = float(np.finfo(float).eps)
DELTA = 1e-9


class KRel(Rel):
    """Rel that also keeps the largest residual/tolerance per relation kind (text before '@', phase prefix dropped)."""

    def close(self, name, got, want, tol, **extra):
        before = self.margin
        self.margin = 0.0
        ok = super().close(name, got, want, tol, **extra)
        kind = name.split("@")[0]
        if kind[:2] in ("H:", "L:"):
            kind = kind[2:]
        kind = kind.split(":")[0]
        mk = self.detail.setdefault("margin_by_kind", {})
        mk[kind] = max(mk.get(kind, 0.0), self.margin)
        self.margin = max(before, self.margin)
        return ok


def div(a, b) -> float:
    """a / b that never raises (0/0 -> nan, x/0 -> inf): a nan/inf expected value fails the relation it enters."""
    with np.errstate(all="ignore"):
        return float(np.float64(a) / np.float64(b))


FN = {
    "H": dict(p="pHighT", dp="dpHighT", ddp="ddpHighT", e="eHighT", de="deHighT", w="wHighT", csq="csqHighT"),
    "L": dict(p="pLowT", dp="dpLowT", ddp="ddpLowT", e="eLowT", de="deLowT", w="wLowT", csq="csqLowT"),
}

MODELS = {
    # Cubic1: sym exists for T > T0 = 100, brk for T < T1; first order with T0 < Tc < T1; every Tn lies in (T0, Tc)
    "cubic1-E0.08": dict(kind="cubic1", args=dict(D=0.4, E=0.08, lam=0.1, T0=100.0, a=12.0), high="sym", low="brk",
                         Tn=[102.0, 105.0, 108.0], inside=[101.04, 109.39]),
    "xsm2": dict(kind="xsm2", args={}, high="S1", low="S0", Tn=[95.0, 100.0, 103.0], inside=[91.3, 110.5]),
    "cubic1-E0.06": dict(kind="cubic1", args=dict(D=0.4, E=0.06, lam=0.1, T0=100.0, a=12.0), high="sym", low="brk",
                         Tn=[101.5, 103.0, 104.0], inside=[100.55, 104.93]),
    "cubic1-E0.1": dict(kind="cubic1", args=dict(D=0.4, E=0.1, lam=0.1, T0=100.0, a=12.0), high="sym", low="brk",
                        Tn=[103.0, 108.0, 113.0], inside=[101.8, 116.2]),
    # Tc = 98.02; S1 is a minimum for 52.9 < T < 179.1, S0 for T < 113.2
    "xsm2-b": dict(kind="xsm2", args=dict(ls=0.8, lhs=0.9), high="S1", low="S0", Tn=[90.0, 94.0, 97.0],
                   inside=[60.0, 110.0]),
}
QUICK_MODELS = ["cubic1-E0.08", "xsm2"]


def make_am(model: str, s: float):
    m = MODELS[model]
    am = MD.Cubic1(**m["args"]) if m["kind"] == "cubic1" else MD.xsm2(**m["args"])
    return MD.Scaled(am, s) if s != 1.0 else am


def window(model: str, Tn: float, win: str, s: float):
    """Temperature limits handed to tracePhase (both phases get the same limits)."""
    if win == "wide":  # well beyond the existence of the phases: ends are a spinodal or the limit
        return 0.6 * Tn * s, 1.5 * Tn * s
    lo, hi = MODELS[model]["inside"]
    if win == "inside":
        return lo * s, hi * s
    # staggered windows: the two phases are tabulated over DIFFERENT ranges (as WallGoManager does), in both orders, so a
    # coefficient matched at the other phase's range end is visible. Returned as ((loHigh, hiHigh), (loLow, hiLow)).
    w = hi - lo
    inner = (lo + 0.22 * w, hi - 0.22 * w)
    if not (inner[0] < Tn < inner[1]):
        inner = (min(inner[0], Tn - 0.1 * w), max(inner[1], Tn + 0.1 * w))
    outer = (lo, hi)
    if win == "stagger-high-inner":
        return (inner[0] * s, inner[1] * s), (outer[0] * s, outer[1] * s)
    if win == "stagger-low-inner":
        return (outer[0] * s, outer[1] * s), (inner[0] * s, inner[1] * s)
    raise ValueError(win)


# ----------------------------------------------------------------------------- building real objects
def build(am, Tn, high, low, TlimLo, TlimHi, rTol, extrapolate=True, stages=None, coarse=30.0):
    """Real objects, the way WallGoManager.initTemperatureRange builds them. Returns (thermo, None) or
    (thermo-or-None, (stage, exception))."""
    import WallGo
    from WallGo import Fields
    from WallGo.effectivePotential import VeffDerivativeSettings

    logging.disable(logging.CRITICAL)
    th = None
    stage = "construct"
    try:
        pot = MD.make_potential(am)
        pot.configureDerivatives(
            VeffDerivativeSettings(temperatureVariationScale=0.1 * Tn, fieldValueVariationScale=[0.1 * Tn] * am.nf)
        )
        locH, locL = am.phase(high, Tn), am.phase(low, Tn)
        # phase guesses deliberately off the exact minima, as a user would supply them
        gH = np.where(locH != 0, locH * 1.05, locH)
        gL = np.where(locL != 0, locL * 0.97, locL)
        th = WallGo.Thermodynamics(pot, Tn, Fields(gL), Fields(gH))
        th.freeEnergyHigh.disableAdaptiveInterpolation()
        th.freeEnergyLow.disableAdaptiveInterpolation()
        dT = 0.1 * Tn * rTol**0.25  # manager.py: temperatureVariationScale * phaseTracerTol**0.25
        for st in stages or (["trace"] + (["extrapolate"] if extrapolate else [])):
            stage = st
            if st in ("trace", "trace-coarse"):
                if st == "trace-coarse":
                    dT = coarse * 0.1 * Tn * rTol**0.25  # a first, coarse look at the phases on the same objects (re-traced finer by a later stage)
                else:
                    dT = 0.1 * Tn * rTol**0.25
                if isinstance(TlimLo, tuple):  # per-phase limits: TlimLo = (lo, hi) of the high-T phase, TlimHi = of the low-T phase
                    th.freeEnergyHigh.tracePhase(TlimLo[0], TlimLo[1], dT, rTol=rTol)
                    th.freeEnergyLow.tracePhase(TlimHi[0], TlimHi[1], dT, rTol=rTol)
                else:
                    th.freeEnergyHigh.tracePhase(TlimLo, TlimHi, dT, rTol=rTol)
                    th.freeEnergyLow.tracePhase(TlimLo, TlimHi, dT, rTol=rTol)
            elif st == "extrapolate":
                th.setExtrapolate()
            elif st == "probe-untraced":
                # a coarse look at the untraced object over a wide temperature range, beyond the existence of either phase (what a
                # user does to decide on the range to trace); exceptions are the object's business, the guesses it was given are not
                for frac in (1.0, 0.9, 1.1, 0.75, 1.25, 0.6, 1.5, 1.0):
                    for fn in ("pLowT", "pHighT"):
                        try:
                            getattr(th, fn)(frac * Tn)
                        except Exception:  # noqa: BLE001
                            pass
    except Exception as ex:  # noqa: BLE001 - classified by the caller
        return th, (stage, ex)
    return th, None


def call(th, name, T) -> float:
    """One reported number; anything that is not a single finite-or-not float raises."""
    return float(np.asarray(getattr(th, name)(T)).item())


# ----------------------------------------------------------------------------- temperature ladder
def ladder(TMin: float, TMax: float, Tn: float, tier: str):
    """[(label, T)] - fixed, tier-nested (thorough = quick + extra points with their own labels)."""
    out = []
    fb = np.geomspace(0.3, 1 - 1e-3, 9)
    for i, f in enumerate(fb):
        out.append((f"b{i}", TMin * float(f)))
    out += [("TMin-", TMin * (1 - DELTA)), ("TMin", TMin), ("TMin+", TMin * (1 + DELTA))]
    gi = [1e-4, 0.02, 0.07, 0.15, 0.25, 0.35, 0.45, 0.5, 0.55, 0.65, 0.75, 0.85, 0.93, 0.98, 1 - 1e-4]
    for i, g in enumerate(gi):
        out.append((f"i{i}", TMin + (TMax - TMin) * g))
    out.append(("Tn", Tn))
    out += [("TMax-", TMax * (1 - DELTA)), ("TMax", TMax), ("TMax+", TMax * (1 + DELTA))]
    fa = np.geomspace(1 + 1e-3, 3.0, 9)
    for i, f in enumerate(fa):
        out.append((f"a{i}", TMax * float(f)))
    if tier == "thorough":
        for i, f in enumerate(np.geomspace(0.31, 1 - 3e-6, 14)):
            out.append((f"bx{i}", TMin * float(f)))
        for i, g in enumerate(np.linspace(0.003, 0.997, 28)):
            out.append((f"ix{i}", TMin + (TMax - TMin) * float(g)))
        for i, f in enumerate(np.geomspace(1 + 3e-6, 2.9, 14)):
            out.append((f"ax{i}", TMax * float(f)))
    return out


def region(T, TMin, TMax):
    return "below" if T < TMin else ("above" if T > TMax else "in")


# ----------------------------------------------------------------------------- one phase
class PhaseView:
    """Reported functions of one phase + where its table and range are."""

    def __init__(self, th, ph):
        self.th, self.ph = th, ph
        self.fe = th.freeEnergyHigh if ph == "H" else th.freeEnergyLow
        self.TMin = float(th.TMinHighT if ph == "H" else th.TMinLowT)
        self.TMax = float(th.TMaxHighT if ph == "H" else th.TMaxLowT)
        self.knots = np.asarray(self.fe._interpolationPoints, dtype=float)
        self.tabMin, self.tabMax = float(self.knots[0]), float(self.knots[-1])

    def f(self, q, T):
        return call(self.th, FN[self.ph][q], T)

    def piece(self, T):
        """[lo, hi]: the in-range part of THE spline piece scipy evaluates at T (x[j] <= T < x[j+1], last piece
        closed). Staying inside that piece matters: across a knot the spline is C2 only up to the rounding of its
        construction (~eps |V| / h_piece^2 in the second derivative), which is not a rounding error of the
        reported functions and would need its own term in every tolerance."""
        X = self.knots
        j = int(np.clip(np.searchsorted(X, T, side="right") - 1, 0, len(X) - 2))
        return max(float(X[j]), self.TMin), min(float(X[j + 1]), self.TMax)


def check_phase(r: Rel, pv: PhaseView, orc: OR.AnalyticEOS, Tn: float, rTol: float, tier: str, out: dict):
    ph = pv.ph
    TMin, TMax = pv.TMin, pv.TMax

    def ev(q, T, key):
        try:
            v = pv.f(q, T)
        except Exception as ex:  # noqa: BLE001 - the property says a value must be returned
            r.true(f"no-exception:{key}", False, error=repr(ex)[:300], T=T, fn=FN[ph][q])
            return None
        if not math.isfinite(v):
            r.true(f"finite:{key}", False, value=v, T=T, fn=FN[ph][q])
            return None
        return v

    # analytic data at the two boundaries (for slope bounds and the power-law bound outside the range)
    bnd = {}
    for name, Tb in (("TMin", TMin), ("TMax", TMax)):
        if orc.exists(Tb):
            bnd[name] = dict(T=Tb, p=orc.p(Tb), dp=orc.dp(Tb), ddp=orc.ddp(Tb), d3p=orc.d3p(Tb), csq=orc.csq(Tb),
                             dcsq=orc.dcsq(Tb))
        else:
            bnd[name] = None

    vals = {}  # label -> dict of reported values at the ladder point
    regs = set()
    for label, T in ladder(TMin, TMax, Tn, tier):
        reg = region(T, TMin, TMax)
        regs.add(reg)
        r.tag(f"{ph}-{reg}")
        key = f"{ph}:{{}}@{label}"
        v = {q: ev(q, T, f"{ph}:{q}@{label}") for q in ("p", "dp", "ddp", "e", "de", "w", "csq")}
        v["T"], v["reg"] = T, reg
        vals[label] = v
        if any(v[q] is None for q in ("p", "dp", "ddp", "e", "de", "w", "csq")):
            continue
        p, dp, ddp = v["p"], v["dp"], v["ddp"]
        # ---- algebraic relations between the reported functions: the code evaluates the same two or three
        # floating-point operations, so 8-16 eps of the sum of the magnitudes is a rounding bound.
        r.close(key.format("w=T*dp"), v["w"], T * dp, 8 * EPS * abs(T * dp))
        r.close(key.format("e=T*dp-p"), v["e"], T * dp - p, 8 * EPS * (abs(T * dp) + abs(p)))
        r.close(key.format("de=T*ddp"), v["de"], T * ddp, 8 * EPS * abs(T * ddp))
        mu_rep = abs(1 + div(1, v["csq"]))
        if not math.isfinite(mu_rep):
            mu_rep = 1.0
        lnT = abs(math.log(T))
        # outside the range dp ~ T^fl(mu-1), ddp ~ T^fl(mu-2): each rounded exponent (error <= eps*mu) moves
        # the power by eps*mu*|ln T| relatively; inside, dp/(T ddp) is the very same expression (16 eps).
        tol_csq = (16 + (8 * mu_rep * lnT + 48 if reg != "in" else 0)) * EPS * abs(v["csq"])
        r.close(key.format("csq=dp/(T*ddp)"), v["csq"], div(dp, T * ddp), tol_csq)

        # ---- reported derivatives == derivatives of the reported p (and e)
        if reg == "in":
            lo, hi = pv.piece(T)
            Tb = None
        elif reg == "below":
            lo, hi = 0.5 * T, float(np.nextafter(TMin, 0.0))
            Tb = bnd["TMin"]
        else:
            lo, hi = float(np.nextafter(TMax, np.inf)), 2.0 * T
            Tb = bnd["TMax"]
        h, k0 = OR.place(T, lo, hi, 1e-3 * T) if lo <= T <= hi else (0.0, -2)
        if not h > 1e-13 * T:
            # the range boundary coincides with a knot: the in-range part of scipy's piece is empty (T = TMin/TMax only)
            r.tag(f"stencil-impossible@{label}")
            continue
        ks = list(range(k0, k0 + 5))
        xs = [T + k * h for k in ks]
        # weights for the offsets actually realised in floating point (x - T is exact), so that the relation does not
        # depend on the local slope of the reported function through abscissa rounding
        offs = [x - T for x in xs]
        c1, R1, S1 = OR.weights(offs, 1)
        c2, R2, S2 = OR.weights(offs, 2)
        ps = [ev("p", x, f"{ph}:p-stencil{k}@{label}") for k, x in zip(ks, xs)]
        es = [ev("e", x, f"{ph}:e-stencil{k}@{label}") for k, x in zip(ks, xs)]
        if any(x is None for x in ps) or any(x is None for x in es):
            continue
        D1p = sum(c * f for c, f in zip(c1, ps))
        D2p = sum(c * f for c, f in zip(c2, ps))
        D1e = sum(c * f for c, f in zip(c1, es))
        Ep = 64 * EPS * (max(abs(x) for x in ps) + (abs(T * dp) if reg != "in" else 0.0))
        Ee = 64 * EPS * (max(abs(x) for x in es) + abs(T * dp) + abs(p))
        if reg == "in":
            B5 = 0.0  # one cubic piece: p''''' = 0, and e = T p' - p is cubic as well
            mu_b = 1.0
            extra = 0.0
        else:
            mu_b = max(mu_rep, 1.0)
            W = abs(T * dp)
            if Tb is not None:
                muO = abs(1 + div(1, Tb["csq"]))
                mu_b = max(mu_b, muO)
                W = max(W, abs(Tb["T"] * Tb["dp"]) * (T / Tb["T"]) ** muO)
            # power law p = A T^mu - eps: |p^(5)| = (w/mu) mu (mu-1)..(mu-4) / T^5 <= w mu^4 / T^5; max over the
            # stencil span via (1+4h/T)^mu and the smallest T of the span; factor 2 = safety for mu_rep vs. mu_O
            B5 = 2 * mu_b**4 * W * (1 + 4 * h / T) ** mu_b / (T - 4 * h) ** 5
            extra = 64 * EPS * (1 + mu_b * lnT)  # rounding of the reported dp/ddp themselves (rounded exponents)
        tol1 = R1 * B5 + S1 * Ep + (extra + 64 * EPS) * abs(dp)
        tol2 = R2 * B5 + S2 * Ep + (extra + 64 * EPS) * abs(ddp)
        tol1e = R1 * B5 * mu_b + S1 * Ee + (extra + 64 * EPS) * abs(v["de"])
        if tol1 > 1e-3 * abs(dp) or tol2 > 1e-3 * abs(ddp):
            r.tag("stencil-loose(short spline piece)")
        out["stencil_tol_rel_max"] = max(out.get("stencil_tol_rel_max", 0.0), div(tol1, abs(dp)), div(tol2, abs(ddp)))
        r.close(key.format("dp=D1[p]"), dp, D1p, tol1, h=h, k0=k0, T=T)
        r.close(key.format("ddp=D2[p]"), ddp, D2p, tol2, h=h, k0=k0, T=T)
        r.close(key.format("de=D1[e]"), v["de"], D1e, tol1e, h=h, k0=k0, T=T)
        # sound speed from the reported pressure alone (first-order error propagation of the two bounds)
        if abs(D2p) > 2 * tol2 and abs(D1p) > 2 * tol1:
            csq_num = div(D1p, T * D2p)
            tol = abs(csq_num) * 2 * (div(tol1, abs(D1p)) + div(tol2, abs(D2p))) + tol_csq
            r.close(key.format("csq=D1[p]/(T*D2[p])"), v["csq"], csq_num, tol, T=T)

        # ---- inside the range the pressure is minus the potential at the analytic minimum
        if reg == "in":
            if orc.exists(T):
                pO = orc.p(T)
                r.close(key.format("p=-V(min)"), p, pO, (rTol + 64 * EPS) * abs(pO), T=T)
                out["p_rel_err_max"] = max(out.get("p_rel_err_max", 0.0), div(abs(p - pO), abs(pO)))
                if label == "Tn":
                    out[f"{ph}_csq_at_Tn_rel_dev_from_analytic"] = abs(div(v["csq"], orc.csq(T)) - 1)
                    X = pv.knots
                    j = int(np.searchsorted(X, T))
                    out[f"{ph}_knot_spacing_at_Tn_over_T"] = float(min(X[min(j + 1, len(X) - 1)] - X[j], X[j] - X[max(j - 1, 0)]) / T)
            else:
                r.tag(f"{ph}-in-range-but-no-analytic-phase")

    # ---- continuity across the two boundaries of this phase's range.  A jump is separated from a steep but
    # continuous function by the LOCAL slope: outside the range the reported functions are power laws (slope
    # ~ mu q/T, covered by 10 (|q'_analytic| + |q|/T)); inside, the slope of the reported spline is measured on the
    # in-range side between Tb(1 +- d) and Tb(1 +- 3d) (a noisy table end can make it much steeper than the analytic one).
    for name, Tb in (("TMin", TMin), ("TMax", TMax)):
        lo_v, hi_v = vals[name + "-"], vals[name + "+"]
        b = bnd[name]
        inside_v = hi_v if name == "TMin" else lo_v
        T3 = Tb * (1 + 3 * DELTA) if name == "TMin" else Tb * (1 - 3 * DELTA)
        for q, dq in (("p", "dp"), ("dp", "ddp"), ("ddp", "d3p"), ("csq", "dcsq")):
            a_, b_ = lo_v.get(q), hi_v.get(q)
            if a_ is None or b_ is None:
                continue
            q3 = ev(q, T3, f"{ph}:{q}@{name}(1+-3d)")
            if q3 is None:
                continue
            scale = max(abs(a_), abs(b_))
            if b is not None and math.isfinite(b[dq]):
                slope = 10 * (abs(b[dq]) + abs(b[q]) / Tb)
            else:
                slope = 100 * scale / Tb
            measured = abs(q3 - inside_v[q]) / (2 * DELTA * Tb)
            out["boundary_slope_measured_over_natural_max"] = max(out.get("boundary_slope_measured_over_natural_max", 0.0), div(measured, slope / 10))
            mu_b = abs(1 + div(1, hi_v["csq"])) if hi_v.get("csq") else 4.0
            if not math.isfinite(mu_b):
                mu_b = 4.0
            rnd = 64 * EPS * (1 + mu_b * abs(math.log(Tb))) * (scale + (abs(Tb * (lo_v.get("dp") or 0.0)) if q == "p" else 0.0))
            r.close(f"{ph}:continuous-{q}@{name}", a_, b_, 2 * DELTA * Tb * (slope + 3 * measured) + rnd, Tb=Tb)
        r.tag(f"{ph}-boundary-{name}-" + ("spinodal-end" if (pv.fe.minPossibleTemperature if name == "TMin" else pv.fe.maxPossibleTemperature)[1] else "hard-end"))
        # metric (not a relation of C10): how far the sound speed that seeds the extrapolation is from the analytic one
        if b is not None and inside_v.get("csq") is not None:
            out["csq_at_boundaries_rel_dev_from_analytic_max"] = max(out.get("csq_at_boundaries_rel_dev_from_analytic_max", 0.0), abs(div(inside_v["csq"], b["csq"]) - 1))
    X = pv.knots
    out[f"{ph}_end_knot_spacing_over_T"] = [float((X[1] - X[0]) / X[0]), float((X[-1] - X[-2]) / X[-1])]
    return vals, regs


# ----------------------------------------------------------------------------- eos lattice
def classify_trace_failure(r: Rel, err, s):
    stage, ex = err
    r.detail["stage_error"] = f"{stage}: {ex!r}"[:400]
    return "trace failed (D8, belongs to C07/C11)"


def case_eos(p: dict) -> dict:
    r = KRel(p["id"])
    model, Tn0, s, rTol, win = p["model"], p["Tn"], p["s"], p["rTol"], p["win"]
    tier = p.get("tier", "quick")
    m = MODELS[model]
    am = make_am(model, s)
    Tn = Tn0 * s
    high, low = m["high"], m["low"]
    oH, oL = OR.AnalyticEOS(am, high), OR.AnalyticEOS(am, low)
    r.tag(f"model={m['kind']}", f"s={s:g}", f"win={win}")
    if not (oH.exists(Tn) and oL.exists(Tn)):
        return r.result(inadmissible="phases do not both exist at Tn")
    lo, hi = window(model, Tn0, win, s)
    th, err = build(am, Tn, high, low, lo, hi, rTol, stages=p.get("stages"), coarse=p.get("coarse", 30.0))
    if p.get("stages"):
        r.tag("stages=" + ",".join(p["stages"]))
    if err is not None:
        stage, ex = err
        if stage == "extrapolate":
            # both phases were traced without complaint: setExtrapolate has to work
            r.true("setExtrapolate-no-exception", False, error=repr(ex)[:300])
            return r.result()
        if stage == "construct":
            raise ex  # harness problem
        return r.result(inadmissible=classify_trace_failure(r, err, s))
    out = r.detail
    pH, pL = PhaseView(th, "H"), PhaseView(th, "L")
    inadmissible = None
    for pv, orc in ((pH, oH), (pL, oL)):
        fe = pv.fe
        # the range used by Thermodynamics is the one the FreeEnergy reports, and lies inside the table
        r.close(f"{pv.ph}:range-sync-TMin", pv.TMin, float(fe.minPossibleTemperature[0]), 0.0)
        r.close(f"{pv.ph}:range-sync-TMax", pv.TMax, float(fe.maxPossibleTemperature[0]), 0.0)
        r.true(f"{pv.ph}:range-inside-table", pv.tabMin <= pv.TMin < pv.TMax <= pv.tabMax, tab=[pv.tabMin, pv.tabMax], rng=[pv.TMin, pv.TMax])
        out[f"{pv.ph}_range_over_s"] = [pv.TMin / s, pv.TMax / s]
        out[f"{pv.ph}_knots"] = int(len(pv.knots))
        if not (orc.exists(pv.TMin) and orc.exists(pv.TMax)):
            inadmissible = "traced range extends beyond the analytic existence interval of the phase (belongs to C11)"
        elif not (orc.exists(pv.tabMin) and orc.exists(pv.tabMax)):
            # the table (2 dT wider than the range) ends a hair beyond the spinodal: not C10's subject, noted for C11
            r.tag(f"{pv.ph}-table-end-beyond-analytic-spinodal(C11)")
            out[f"{pv.ph}_table_over_s"] = [pv.tabMin / s, pv.tabMax / s]
    coeff = [getattr(th, f"{c}{e}{ph}T") for c in ("mu", "a", "epsilon") for e in ("Min", "Max") for ph in ("High", "Low")]
    r.true("coefficients-finite-nonzero", all(math.isfinite(float(c)) and float(c) != 0.0 for c in coeff), coeff=[float(c) for c in coeff])
    out["mu"] = {f"{e}{ph}": float(getattr(th, f"mu{e}{ph}T")) for e in ("Min", "Max") for ph in ("High", "Low")}
    valsH, regsH = check_phase(r, pH, oH, Tn, rTol, tier, out)
    valsL, regsL = check_phase(r, pL, oL, Tn, rTol, tier, out)
    if pH.TMin != pL.TMin or pH.TMax != pL.TMax:
        r.tag("ranges-of-the-two-phases-differ")

    # ---- alpha(T) against its definition, on the union of both ladders (reported p, dp, ddp only)
    seen = set()
    for ph, vals in (("H", valsH), ("L", valsL)):
        for label, v in vals.items():
            T = v["T"]
            if T in seen:
                continue
            seen.add(T)
            try:
                al = call(th, "alpha", T)
                q = {(f, g): call(th, FN[f][g], T) for f in "HL" for g in ("p", "dp", "ddp")}
            except Exception as ex:  # noqa: BLE001
                r.true(f"no-exception:alpha@{ph}{label}", False, error=repr(ex)[:300], T=T)
                continue
            eH = T * q["H", "dp"] - q["H", "p"]
            eL = T * q["L", "dp"] - q["L", "p"]
            cL = div(q["L", "dp"], T * q["L", "ddp"])
            wH = T * q["H", "dp"]
            want = div(eH - eL - div(q["H", "p"] - q["L", "p"], cL), 3 * wH)
            terms = abs(T * q["H", "dp"]) + abs(q["H", "p"]) + abs(T * q["L", "dp"]) + abs(q["L", "p"]) + div(abs(q["H", "p"]) + abs(q["L", "p"]), abs(cL))
            mu_b = abs(1 + div(1, cL))
            # cL outside the low-T range is the boundary value, dp/(T ddp) carries the rounded exponents (see tol_csq)
            tol = div((64 + 8 * mu_b * abs(math.log(T))) * EPS * terms, abs(3 * wH))
            r.close(f"alpha=definition@{ph}{label}", al, want, tol, T=T)
            r.tag(f"alpha-H{region(T, pH.TMin, pH.TMax)}-L{region(T, pL.TMin, pL.TMax)}")
    nontrivial = regsH == {"below", "in", "above"} and regsL == {"below", "in", "above"}
    return r.result(nontrivial=nontrivial, inadmissible=inadmissible)


def eos_cases(tier: str, rtols=(1e-6,)) -> list[dict]:
    models = QUICK_MODELS if tier == "quick" else list(MODELS)
    # unit systems: the range 1e-2..1e2 the property family quantifies over (C07) plus 1e4, where the tracing step is far above
    # any absolute number a maintainer might write down (added after a seeded absolute knot separation of 1e-3 was missed).
    # NOT 1e-5 and below: there the unchanged tree itself loses accuracy (p off by 2.5e-4 relative: scipy BFGS's absolute
    # gradient tolerance inside findLocalMinimum stops at the starting guess once |grad V| ~ T^3 < 1e-6) - outside the unit
    # range of the properties, recorded in DESIGN.md as an observation.
    scales = [1e-2, 1.0, 1e2, 1e4] if tier == "quick" else [1e-2, 0.1, 1.0, 10.0, 1e2, 1e4]
    out = []
    for model in models:
        for Tn in MODELS[model]["Tn"]:
            for win in ("wide", "inside", "stagger-high-inner", "stagger-low-inner"):
                if win != "wide" and MODELS[model]["inside"] is None:
                    continue
                for s in scales:
                    for rTol in rtols:
                        out.append(dict(id=f"{model},Tn={Tn:g},win={win},s={s:g},rTol={rTol:g}", model=model, Tn=Tn, win=win, s=s, rTol=rTol, tier=tier))
    return out


# ----------------------------------------------------------------------------- histories
HISTORIES = {
    "trace,evaluate-outside": ["trace"],
    "trace,extrapolate,extrapolate": ["trace", "extrapolate", "extrapolate"],
    "trace,extrapolate": ["trace", "extrapolate"],
    # inadmissible order of calls (coefficients become nan, the range stays (0, inf)): still no silent value allowed
    "extrapolate,trace,evaluate-outside": ["extrapolate", "trace"],
}


def case_hist(p: dict) -> dict:
    r = KRel(p["id"])
    model, Tn, hist, rTol = p["model"], p["Tn"], p["history"], 1e-6
    m = MODELS[model]
    am = make_am(model, 1.0)
    lo, hi = window(model, Tn, "wide", 1.0)
    th, err = build(am, Tn, m["high"], m["low"], lo, hi, rTol, stages=HISTORIES[hist])
    r.tag(f"history={hist}")
    if err is not None:
        if err[0] == "extrapolate" and HISTORIES[hist][0] == "extrapolate":
            return r.result(inadmissible="setExtrapolate before tracePhase raised (inadmissible order of calls)")
        if err[0] == "extrapolate":
            r.true("setExtrapolate-no-exception", False, error=repr(err[1])[:300])
            return r.result()
        return r.result(inadmissible=classify_trace_failure(r, err, 1.0))
    orc = {"H": OR.AnalyticEOS(am, m["high"]), "L": OR.AnalyticEOS(am, m["low"])}
    if hist.endswith("evaluate-outside"):
        # What the code does: Thermodynamics.TMin*/TMax* stay at 0 / inf until setExtrapolate, so the
        # zero-coefficient template branches are unreachable for T > 0 and the FreeEnergy (ERROR extrapolation
        # type) raises outside its table. Any exception is fine; a returned number must be a genuine value.
        dT = 0.1 * Tn * rTol**0.25
        for ph in "HL":
            fe = th.freeEnergyHigh if ph == "H" else th.freeEnergyLow
            tabMin, tabMax = float(fe.interpolationRangeMin()), float(fe.interpolationRangeMax())
            pts = [("0.3tabMin", 0.3 * tabMin, "out"), ("tabMin(1-1e-6)", tabMin * (1 - 1e-6), "out"),
                   ("tabMax(1+1e-6)", tabMax * (1 + 1e-6), "out"), ("3tabMax", 3 * tabMax, "out"),
                   ("tabMin+dT", tabMin + dT, "margin"), ("tabMax-dT", tabMax - dT, "margin")]
            for label, T, kind in pts:
                for q, fn in FN[ph].items():
                    try:
                        v = call(th, fn, T)
                    except Exception as ex:  # noqa: BLE001
                        if kind == "out":
                            r.n += 1
                            r.tag(f"outside-raises-{type(ex).__name__}")
                        else:
                            r.true(f"no-exception:{ph}:{q}@{label}", False, error=repr(ex)[:300], T=T)
                        continue
                    if kind == "margin":
                        # between the table end and min/maxPossibleTemperature: the spline is legitimately used
                        r.tag("margin-returns-spline-value")
                        if q == "p" and orc[ph].exists(T):
                            r.close(f"{ph}:p=-V(min)@{label}", v, orc[ph].p(T), (rTol + 64 * EPS) * abs(orc[ph].p(T)))
                        else:
                            r.true(f"{ph}:{q}-finite@{label}", math.isfinite(v) and v != 0.0, value=v)
                        continue
                    # a value outside the table: only a directly evaluated -V(min) (or its consequences) is legitimate
                    ok = False
                    if q == "p" and orc[ph].exists(T):
                        ok = abs(v - orc[ph].p(T)) <= 1e-3 * abs(orc[ph].p(T))
                    r.true(f"{ph}:{q}-silent-value-outside-table@{label}", ok, value=v, T=T,
                           note="value returned outside the table although setExtrapolate was never called")
                    r.tag("outside-returns-value")
            # alpha needs both phases: outside either table it has to raise as well
        for label, T in (("0.2Tn", 0.2 * Tn), ("4Tn", 4 * Tn)):
            try:
                v = call(th, "alpha", T)
                r.true(f"alpha-silent-value-outside-table@{label}", False, value=v, T=T)
            except Exception as ex:  # noqa: BLE001
                r.n += 1
                r.tag(f"outside-raises-{type(ex).__name__}")
        return r.result()
    # histories ending in an extrapolated object: the second setExtrapolate must not change anything, and both
    # must give the same reported numbers as the reference history (bit for bit: the code is deterministic)
    ref, err2 = build(am, Tn, m["high"], m["low"], lo, hi, rTol, stages=["trace", "extrapolate"])
    if err2 is not None:
        r.true("reference-history-builds", False, error=repr(err2[1])[:300])
        return r.result()
    names = [f"{c}{e}{ph}T" for c in ("mu", "a", "epsilon") for e in ("Min", "Max") for ph in ("High", "Low")] + [
        "TMinHighT", "TMaxHighT", "TMinLowT", "TMaxLowT"]
    for nm in names:
        r.close(f"same-as-reference:{nm}", float(getattr(th, nm)), float(getattr(ref, nm)), 0.0)
    for ph in "HL":
        pv = PhaseView(ref, ph)
        for label, T in ladder(pv.TMin, pv.TMax, Tn, "quick")[::3]:
            for q, fn in FN[ph].items():
                try:
                    r.close(f"same-as-reference:{ph}:{q}@{label}", call(th, fn, T), call(ref, fn, T), 0.0)
                except Exception as ex:  # noqa: BLE001
                    r.true(f"no-exception:{ph}:{q}@{label}", False, error=repr(ex)[:300])
    return r.result()


def hist_cases(tier: str) -> list[dict]:
    models = QUICK_MODELS if tier == "quick" else list(MODELS)
    out = []
    for model in models:
        for Tn in MODELS[model]["Tn"]:
            for h in HISTORIES:
                out.append(dict(id=f"{model},Tn={Tn:g},history={h}", model=model, Tn=Tn, history=h))
    return out


def retrace_cases(tier: str) -> list[dict]:
    """The complete C10 relation set on objects with a HISTORY: both phases traced coarsely (30 x the step for the wide window, 3 x for the narrow ones), the object used
    (setExtrapolate evaluates values and derivatives), then traced again with the manager's step and extrapolated again - the
    way a quick look is refined on the same Thermodynamics object. Everything reported must describe the LAST table."""
    out = []
    for c in eos_cases(tier):
        if c["s"] == 1.0 and c["win"] in ("inside", "wide", "stagger-high-inner"):
            for name, stages in (("coarse,extrapolate,fine,extrapolate", ["trace-coarse", "extrapolate", "trace", "extrapolate"]),
                                 ("coarse,fine,extrapolate", ["trace-coarse", "trace", "extrapolate"]),
                                 ("fine,extrapolate,fine,extrapolate", ["trace", "extrapolate", "trace", "extrapolate"]),
                                 ("probe-untraced,fine,extrapolate", ["probe-untraced", "trace", "extrapolate"])):
                out.append(dict(c, stages=stages, coarse=30.0 if c["win"] == "wide" else 3.0, id=c["id"] + ",history=" + name))
    return out


# ----------------------------------------------------------------------------- entry points
def eos_tight_cases(tier: str) -> list[dict]:
    """phaseTracerTol = 1e-8 (100 x tighter than the default): thorough tier only."""
    return [] if tier == "quick" else eos_cases(tier, rtols=(1e-8,))


SECTIONS = {"eos": (eos_cases, case_eos), "eos_tight": (eos_tight_cases, case_eos), "hist": (hist_cases, case_hist), "retrace": (retrace_cases, case_eos)}


def run(ctx):
    only = getattr(ctx, "only", None)
    for name, (gen, fn) in SECTIONS.items():
        if only and only != name:
            continue
        cases = gen(ctx.tier)
        if not cases:
            continue
        res = ctx.run_lattice(name, cases, fn, timeout=280.0)
        ctx.note(f"{name}_cases", len(cases))
        if name.startswith("eos") and name != "retrace":
            # non-vacuity: the reference unit system must be admissible for every model/T_n/window
            bad = [c["id"] for c, x in zip(cases, res) if c["s"] == 1.0 and x.get("verdict") == "inadmissible"]
            ctx.note(f"{name}_inadmissible_at_s=1", bad)
            inadm = {}
            for c, x in zip(cases, res):
                if x.get("verdict") == "inadmissible":
                    why = [t for t in x.get("tags", []) if t.startswith("inadmissible:")]
                    d = x.get("detail")
                    inadm[c["id"]] = (why[0] if why else "") + " | " + str((d if isinstance(d, dict) else {}).get("stage_error", ""))
            ctx.note(f"{name}_inadmissible", inadm)
            nok = sum(1 for c, x in zip(cases, res) if c["s"] == 1.0 and x.get("verdict") in ("ok", "violation"))
            if nok < len([c for c in cases if c["s"] == 1.0]) // 2:
                ctx.harness_errors.append({"case": f"{name}/<non-vacuity>", "detail": f"only {nok} admissible (decided) cases at s=1: the lattice is (nearly) vacuous"})

            def det(x):
                d = x.get("detail")
                return d if isinstance(d, dict) else {}

            def dmax(key, sel=lambda c: True):
                return max([det(x).get(key, 0.0) for c, x in zip(cases, res) if sel(c)] or [0.0])

            kinds = sorted({k for x in res for k in (det(x).get("margin_by_kind") or {})})
            ctx.note(f"{name}_metrics", {
                "p_rel_err_max_by_model_and_scale": {
                    f"{m},s={sc:g}": dmax("p_rel_err_max", lambda c, m=m, sc=sc: c["model"] == m and c["s"] == sc)
                    for m in sorted({c["model"] for c in cases}) for sc in sorted({c["s"] for c in cases})},
                "stencil_tol_rel_max": dmax("stencil_tol_rel_max"),
                "boundary_slope_measured_over_natural_max": dmax("boundary_slope_measured_over_natural_max"),
                "csq_at_boundaries_rel_dev_from_analytic_max_by_model_and_scale(metric, not a C10 relation)": {
                    f"{m},s={sc:g}": dmax("csq_at_boundaries_rel_dev_from_analytic_max", lambda c, m=m, sc=sc: c["model"] == m and c["s"] == sc)
                    for m in sorted({c["model"] for c in cases}) for sc in sorted({c["s"] for c in cases})},
                "csq_at_Tn_rel_dev_from_analytic_by_model_and_scale(metric, not a C10 relation)": {
                    f"{m},s={sc:g}": [dmax("H_csq_at_Tn_rel_dev_from_analytic", lambda c, m=m, sc=sc: c["model"] == m and c["s"] == sc),
                                      dmax("L_csq_at_Tn_rel_dev_from_analytic", lambda c, m=m, sc=sc: c["model"] == m and c["s"] == sc)]
                    for m in sorted({c["model"] for c in cases}) for sc in sorted({c["s"] for c in cases})},
                "margin_by_relation_kind": {
                    k: max((det(x).get("margin_by_kind") or {}).get(k, 0.0) for x in res) for k in kinds},
            })
    ctx.exhaustive = False
    ctx.note("temperatures_per_phase", 40 if ctx.tier == "quick" else 96)
    ctx.note("delta_boundary", DELTA)


def replay(rep: dict) -> dict:
    sec = rep["section"]
    return SECTIONS[sec][1](rep["params"])
