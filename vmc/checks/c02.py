"""C02 - energy and momentum flux are conserved across the wall.

(L) lattice EOS x Tn x units x solver tolerance x 16 wall velocities (both sides of c_b and v_J).
Oracle: the EOS's own analytic p, e=Tp'-p, w=Tp' (vmc.oracles.eos), fluxes written out here.
Tolerance = solver tolerance x conditioning, the conditioning being the finite-difference
sensitivity of the flux mismatch to the temperatures the solver iterates on.
"""
from __future__ import annotations

import logging

import numpy as np

from ..lattice import Rel
from ..oracles import hydro as OH
from ..oracles.eos import gamma2
from . import hydrolattice as HL

LEVEL = "exploration"
RULE = (
    "full cross product EOS family/parameters x nucleation temperature x unit system x solver tolerance {tight, default} "
    "x 16 wall velocities placed relative to vMin, c_b and v_J (both sides); one case = one (EOS,Tn,units,tolerance), "
    "relations named by wall velocity. Non-trivial = admissible EOS for which at least one matching was returned; "
    "branch tags count deflagration/hybrid/detonation/fallback/None results actually reached."
)
ASSUMPTIONS = [
    "admissible EOS: broken phase favoured at Tn, 0<cs^2<1 and w>0 in both phases between 0.3 and 3 Tn, alpha_n>0",
    "tolerance: detonation 8*(rtol+atol/Tm)*|dR/dlnTm| (brentq on T-, v- derived from it); deflagration/hybrid "
    "1e3*atol*(|dR/dlnT+|+|dR/dlnT-|) (hybr xtol=atol on mapped temperatures); floor 1e-12",
    "findMatching returning None (no solution reported) is not a C02 violation",
    "template fallback: flux conservation under the model's EOS is demanded only if the oracle's own solver finds an exact matching",
]


def _resid_vec(eos, vp, vm, Tp, Tm):
    re_, rm_, _ = OH.junction_residuals(eos, vp, vm, Tp, Tm)
    return np.array([re_, rm_])


def _signed_resid(eos, vp, vm, Tp, Tm):
    wp, wm = eos.w("s", Tp), eos.w("b", Tm)
    e1, e2 = wp * gamma2(vp) * vp, wm * gamma2(vm) * vm
    m1, m2 = e1 * vp + eos.p("s", Tp), e2 * vm + eos.p("b", Tm)
    se = max(abs(e1), abs(e2))
    sm = max(abs(e1 * vp) + abs(eos.p("s", Tp)), abs(e2 * vm) + abs(eos.p("b", Tm)))
    return np.array([(e1 - e2) / se, (m1 - m2) / sm])


def sensitivity(eos, branch, vw, vp, vm, Tp, Tm):
    """|dR/dlnT| of the signed relative flux mismatch w.r.t. the temperatures the solver iterates on,
    with the velocities following the temperatures the way the solution branch prescribes."""
    h = 1e-6

    def vm_of(Tm_):
        if branch == "detonation":  # v- derived from the junction relations at (Tn, Tm)
            dp = eos.p("s", Tp) - eos.p("b", Tm_)
            de = eos.e("s", Tp) - eos.e("b", Tm_)
            ratio = (eos.e("b", Tm_) + eos.p("s", Tp)) / (eos.e("s", Tp) + eos.p("b", Tm_))
            val = dp / de / ratio
            return np.sqrt(val) if val > 0 else vm
        if branch == "hybrid":
            return min(vw, np.sqrt(max(eos.csq("b", Tm_), 0)))
        return vm

    S = 0.0
    d = (_signed_resid(eos, vp, vm_of(Tm * (1 + h)), Tp, Tm * (1 + h)) - _signed_resid(eos, vp, vm_of(Tm * (1 - h)), Tp, Tm * (1 - h))) / (2 * h)
    S += float(np.max(np.abs(d)))
    if branch != "detonation":
        d = (_signed_resid(eos, vp, vm, Tp * (1 + h), Tm) - _signed_resid(eos, vp, vm, Tp * (1 - h), Tm)) / (2 * h)
        S += float(np.max(np.abs(d)))
    return S


def flux_tolerance(eos, branch, tol, vw, vp, vm, Tp, Tm):
    S = sensitivity(eos, branch, vw, vp, vm, Tp, Tm)
    if branch == "detonation":
        delta = 8 * (tol["rtol"] + tol["atol"] / Tm)
    else:
        delta = 1e3 * tol["atol"]
    return delta * S + 1e-12


SLOW = ("vmin", "slow1", "slow2", "v0.05", "v0.1")  # wall velocities <= 0.1: the region in which known finding D9 is listed generically


def _own_junction_residual(hyd, vp, vm, Tp, Tm) -> float:
    """max relative residual of the two equations matchDeflagOrHyb solves, evaluated with the code's own vpvmAndvpovm."""
    try:
        vpvm, vpovm = (float(x) for x in hyd.vpvmAndvpovm(Tp, Tm))
        return max(abs(vpvm * vpovm - vp * vp) / max(vp * vp, 1e-300), abs(vpvm / vpovm - vm * vm) / max(vm * vm, 1e-300))
    except Exception:
        return float("inf")


def case_eos(c: dict) -> dict:
    logging.disable(logging.CRITICAL)
    r = Rel(c["id"])
    eos, Tn = HL.build_eos(c)
    adm = HL.admissible(eos, Tn)
    if adm:
        return r.result(inadmissible=adm)
    tol = HL.TIGHT if c["tol"] == "tight" else HL.DEFAULT
    win = c.get("window")
    try:
        hyd, th = HL.make_hydro(eos, Tn, tol, window=win)
    except Exception as ex:  # construction needs vJ/vMin: failing here is C06's business
        return r.result(inadmissible="Hydrodynamics could not be constructed: " + repr(ex)[:120])
    ref = None
    if win:
        # a narrow window: the solver can only represent temperatures inside it, so a velocity is judged only if the matching
        # found with the DEFAULT window (itself judged in section eos) lies inside the narrow one with a 5 % margin
        ref, _ = HL.make_hydro(eos, Tn, tol)
    fb = [0]
    orig = hyd.template.findMatching

    def wrapped(v):
        fb[0] += 1
        return orig(v)

    hyd.template.findMatching = wrapped
    nret = 0
    for name, v in HL.velocity_lattice(ref if win else hyd, eos, Tn):
        fb[0] = 0
        if win:
            try:
                w0 = [float(x) for x in ref.findMatching(v)]
                inside = all(1.05 * win[0] * Tn < t < 0.95 * win[1] * Tn for t in w0[2:]) and max(_resid_vec(eos, *w0)) < 1e-6
            except Exception:
                inside = False
            if not inside:
                r.tag("window:matching-not-inside")
                continue
            r.tag("window:matching-inside")
        try:
            vp, vm, Tp, Tm = hyd.findMatching(v)
        except Exception as ex:
            r.tag("raised")
            r.detail.setdefault("raised", []).append([name, v, repr(ex)[:100]])
            continue  # no solution returned: nothing claimed by C02
        if vp is None:
            r.tag("none")
            continue
        vp, vm, Tp, Tm = float(vp), float(vm), float(Tp), float(Tm)
        if not all(np.isfinite([vp, vm, Tp, Tm])):
            r.tag("nan-returned")
            r.true(f"{name}:finite", False, vw=v, got=[vp, vm, Tp, Tm], fallback=bool(fb[0]))
            continue
        nret += 1
        branch = HL.branch_of(hyd, eos, v, Tm)
        r.tag(branch + ("-fallback" if fb[0] else ""))
        res = _resid_vec(eos, vp, vm, Tp, Tm)
        t = flux_tolerance(eos, branch, tol, v, vp, vm, Tp, Tm)
        extra = dict(vw=v, vp=vp, vm=vm, Tp=Tp / Tn, Tm=Tm / Tn, branch=branch, converged=bool(hyd.success), fallback=bool(fb[0]))
        # signature of known finding D9 (unconverged inner 2x2 solve returned): the CODE'S OWN junction equations, evaluated
        # with its own vpvmAndvpovm at the returned numbers, are violated by an amount comparable with the flux mismatch the oracle measures (> 0.1 x). (A defect in the equations themselves leaves
        # them satisfied while the oracle's fluxes differ - that is not D9 and keeps the plain relation name.)
        sig = ""
        if max(res) > t and name in SLOW:
            if fb[0] or _own_junction_residual(hyd, vp, vm, Tp, Tm) > 0.1 * max(res):
                sig = "D9sig:"
                r.tag("D9-signature(slow wall)")
        if fb[0]:
            # template approximation returned: allowed only if no exact matching exists
            if max(res) > t:
                ex = OH.solve_matching(eos, Tn, v, float(hyd.vJ))
                if ex is not None:
                    r.true(f"{name}:{sig}exact-returned-if-exists", False, exact=ex, **extra)
                else:
                    r.tag("fallback-no-exact-found")
            else:
                r.close(f"{name}:energy-flux", res[0], 0.0, t, **extra)
                r.close(f"{name}:momentum-flux", res[1], 0.0, t, **extra)
        else:
            r.close(f"{name}:{sig}energy-flux", res[0], 0.0, t, **extra)
            r.close(f"{name}:{sig}momentum-flux", res[1], 0.0, t, **extra)
        # boundary constants handed to the wall equations
        try:
            c1, c2, Tp2, Tm2, vmid = hyd.findHydroBoundaries(v)
        except Exception as ex:
            r.true(f"{name}:boundaries-no-exception", False, error=repr(ex)[:200], vw=v)
            continue
        if c1 is None or vmid is None:
            r.true(f"{name}:boundaries-returned", False, vw=v, got=[c1, c2, Tp2, Tm2, vmid])
            continue
        # the wall velocity handed over as a zero-dimensional float array (what np.asarray(setting), x[i, ...] or an optimiser's
        # callback deliver) is a velocity like any other: same constants, and the caller's array comes back untouched
        try:
            varr = np.array(float(v))
            b2 = hyd.findHydroBoundaries(varr)
            r.true(f"{name}:velocity-argument-untouched(0-d array)", float(varr) == float(v), before=float(v), after=float(varr))
            # numpy-scalar and Python-float arithmetic differ in the last bit (pow), and a last-bit change of the input can move each
            # nested root by the solver tolerance: 16 (atol + rtol |x|) per constant, conditioning gamma^2 <= 50 for the fluxes
            ref5 = np.array([float(c1), float(c2), float(Tp2), float(Tm2), float(vmid)])
            ok5 = all(x is not None for x in b2)
            if r.true(f"{name}:boundaries-returned-for-0-d-array-velocity", ok5):
                r.close(f"{name}:boundaries-same-for-0-d-array-velocity", np.array([float(x) for x in b2]), ref5,
                        16 * 50 * (tol["atol"] + tol["rtol"] * np.abs(ref5)) + 64 * np.finfo(float).eps * np.abs(ref5))
        except Exception as ex:  # noqa: BLE001
            r.true(f"{name}:boundaries-0-d-array-velocity-no-exception", False, error=repr(ex)[:200], vw=v)
        # findHydroBoundaries re-runs the matching: same numbers (deterministic)
        r.close(f"{name}:boundaries-Tp", Tp2, Tp, 1e-12 * Tp)
        r.close(f"{name}:boundaries-Tm", Tm2, Tm, 1e-12 * Tm)
        e1, e2, m1, m2 = (float(x) for x in OH.junction_residuals(eos, vp, vm, Tp, Tm)[2])
        rt = 64 * np.finfo(float).eps
        r.close(f"{name}:c1=-energyflux(+)", c1, -e1, rt * abs(e1) * 8)
        r.close(f"{name}:c2=momentumflux(+)", c2, m1, rt * (abs(m1) + abs(eos.p("s", Tp))) * 8)
        if not fb[0] or max(res) <= t:
            r.close(f"{name}:{sig}c1=-energyflux(-)", c1, -e2, t * max(abs(e1), abs(e2)) + rt * abs(e1) * 8, **extra)
            r.close(f"{name}:{sig}c2=momentumflux(-)", c2, m2, t * (abs(e1 * vp) + abs(eos.p("s", Tp)) + abs(e2 * vm) + abs(eos.p("b", Tm))), **extra)
        r.close(f"{name}:velocityMid", vmid, -0.5 * (vp + vm), 4 * np.finfo(float).eps)
    r.detail["returned"] = nret
    return r.result(nontrivial=nret > 0)


def cases(tier: str) -> list[dict]:
    out = []
    for c in HL.eos_lattice(tier):
        for tol in ("tight", "default"):
            d = dict(c)
            d["tol"] = tol
            d["id"] = c["id"] + ",tol=" + tol
            out.append(d)
    return out


WINDOWS = [(0.2, 1.3), (0.5, 2.0), (0.05, 1.15)]


def window_cases(tier: str) -> list[dict]:
    """Other hydrodynamic temperature windows (configHydrodynamics.tmin/tmax): asymmetric about Tn, lower edge not negligible."""
    out = []
    for e in REUSE_EOS if tier != "quick" else REUSE_EOS[:3] + REUSE_EOS[4:5]:
        for w in WINDOWS:
            d = dict(e)
            lab = e.get("label") or ",".join(f"{a:.4g}" for a in e["args"])
            d.update(window=list(w), tol="default", id=f"{e['kind']}({lab}),Tn={e['Tn']:g},units={e['s']:g},window={w[0]:g}-{w[1]:g}")
            out.append(d)
    return out


def case_traced(c: dict) -> dict:
    """Numerically traced potential (real Thermodynamics with spline tables and extrapolation)."""
    from .. import models as MD
    from .. import wg

    logging.disable(logging.CRITICAL)
    r = Rel(c["id"])
    am = MD.xsm2()
    if c["s"] != 1.0:
        am = MD.Scaled(am, c["s"])
    Tn = c["Tn"] * c["s"]
    try:
        m = wg.setup_manager(am, Tn, "S1", "S0", Tscale=10.0 * c["s"], fscale=[10.0 * c["s"]] * 2)
    except Exception as ex:  # phase tracing in other units can fail (unit covariance is C07's business)
        return r.result(inadmissible="manager setup failed: " + repr(ex)[:150])
    hyd = m.hydrodynamics
    th = m.thermodynamics

    class _E:  # the model's own equation of state as WallGo evaluates it (tables + extrapolation)
        name = "traced"

        @staticmethod
        def p(ph, T):
            return float(th.pHighT(T) if ph == "s" else th.pLowT(T))

        @staticmethod
        def w(ph, T):
            return float(th.wHighT(T) if ph == "s" else th.wLowT(T))

        @staticmethod
        def e(ph, T):
            return float(th.eHighT(T) if ph == "s" else th.eLowT(T))

        @staticmethod
        def csq(ph, T):
            return float(th.csqHighT(T) if ph == "s" else th.csqLowT(T))

    eos = _E()
    tol = dict(rtol=m.config.configHydrodynamics.relativeTol, atol=m.config.configHydrodynamics.absoluteTol)
    for name, v in HL.velocity_lattice(hyd, eos, Tn):
        try:
            vp, vm, Tp, Tm = hyd.findMatching(v)
        except Exception:
            r.tag("raised")
            continue
        if vp is None:
            r.tag("none")
            continue
        vp, vm, Tp, Tm = float(vp), float(vm), float(Tp), float(Tm)
        branch = HL.branch_of(hyd, eos, v, Tm)
        r.tag("traced-" + branch)
        res = _resid_vec(eos, vp, vm, Tp, Tm)
        t = flux_tolerance(eos, branch, tol, v, vp, vm, Tp, Tm)
        extra = dict(vw=v, vp=vp, vm=vm, Tp=Tp / Tn, Tm=Tm / Tn, branch=branch)
        sig = "D9sig:" if (max(res) > t and name in SLOW and _own_junction_residual(hyd, vp, vm, Tp, Tm) > 0.1 * max(res)) else ""
        r.close(f"{name}:{sig}energy-flux", res[0], 0.0, t, **extra)
        r.close(f"{name}:{sig}momentum-flux", res[1], 0.0, t, **extra)
        # pressures must also be those of the analytic model when inside the traced range
        if th.freeEnergyLow.minPossibleTemperature[0] < Tm < th.freeEnergyLow.maxPossibleTemperature[0]:
            r.close(f"{name}:p_b=analytic", eos.p("b", Tm), am.p("S0", Tm), 1e-5 * abs(am.p("S0", Tm) - am.p("S1", Tm)) + 1e-9 * abs(am.p("S0", Tm)))
    return r.result()


def traced_cases(tier):
    out = []
    for Tn in (95.0, 100.0, 103.0):
        for s in (1.0,) if tier == "quick" else (1.0, 0.1):
            out.append({"id": f"xsm2,Tn={Tn:g},units={s:g}", "Tn": Tn, "s": s})
    return out


def case_template(c: dict) -> dict:
    """The closed-form template solver on equations of state that ARE of template form (incl. the bag model and other
    unit systems, i.e. enthalpy at Tn different from 1): its matching and its boundary constants against the same
    analytic-EOS fluxes. For a template EOS the template model is exact, so the junction conditions hold to rounding
    (v+ is the only numerically determined quantity and T+, T- follow from it through the junction relations)."""
    import WallGo

    logging.disable(logging.CRITICAL)
    r = Rel(c["id"])
    eos, Tn = HL.build_eos(c)
    adm = HL.admissible(eos, Tn)
    if adm:
        return r.result(inadmissible=adm)
    tol = HL.TIGHT if c["tol"] == "tight" else HL.DEFAULT
    th = eos.thermo(Tn)
    try:
        tm = WallGo.HydrodynamicsTemplateModel(th, rtol=tol["rtol"], atol=tol["atol"])
    except Exception as ex:
        return r.result(inadmissible="template model could not be constructed: " + repr(ex)[:120])
    vJ, vmin = float(tm.vJ), max(float(tm.vMin), 2e-3)
    cb = float(np.sqrt(eos.csq("b", Tn)))
    pts = [("v0.05", 0.05), ("v0.1", 0.1), ("v0.3", 0.3), ("cb-", cb - 1e-3), ("cb+", cb + 1e-3), ("hyb-mid", 0.5 * (cb + vJ)), ("vJ-", vJ - 1e-4),
           ("vJ+", vJ + 1e-4), ("det-mid", 0.5 * (vJ + 1)), ("v0.9", 0.9), ("v0.99", 0.99)]
    nret = 0
    for name, v in pts:
        if not (vmin <= v < 1):
            continue
        try:
            got = tm.findMatching(v)
            c1, c2, Tp2, Tm2, vmid = tm.findHydroBoundaries(v)
        except Exception as ex:
            r.tag("template-raised")
            continue
        if got[0] is None or not all(np.isfinite([float(x) for x in got])):
            r.tag("template-none")
            continue
        vp, vm, Tp, Tm = (float(x) for x in got)
        nret += 1
        branch = "detonation" if v > vJ else ("hybrid" if v > cb else "deflagration")
        r.tag("template-" + branch)
        res = _resid_vec(eos, vp, vm, Tp, Tm)
        S = sensitivity(eos, branch, v, vp, vm, Tp, Tm)
        t = 1e4 * np.finfo(float).eps * (1 + S)  # rounding x conditioning
        extra = dict(vw=v, vp=vp, vm=vm, Tp=Tp / Tn, Tm=Tm / Tn, branch=branch)
        r.close(f"{name}:energy-flux", res[0], 0.0, t, **extra)
        r.close(f"{name}:momentum-flux", res[1], 0.0, t, **extra)
        e1, e2, m1, m2 = (float(x) for x in OH.junction_residuals(eos, vp, vm, Tp, Tm)[2])
        r.close(f"{name}:c1=-energyflux(+)", c1, -e1, t * abs(e1))
        r.close(f"{name}:c1=-energyflux(-)", c1, -e2, t * abs(e1))
        msc = abs(e1 * vp) + abs(eos.p("s", Tp)) + abs(e2 * vm) + abs(eos.p("b", Tm))
        r.close(f"{name}:c2=momentumflux(+)", c2, m1, t * msc)
        r.close(f"{name}:c2=momentumflux(-)", c2, m2, t * msc)
        r.close(f"{name}:velocityMid", vmid, -0.5 * (vp + vm), 4 * np.finfo(float).eps)
        r.close(f"{name}:boundaries-Tp,Tm", [Tp2, Tm2], [Tp, Tm], 1e-12 * Tp)
    return r.result(nontrivial=nret > 0)


def template_cases(tier):
    out = []
    for c in HL.eos_lattice(tier, families=("bag", "template")):
        for tol in ("tight", "default"):
            d = dict(c)
            d["tol"] = tol
            d["id"] = c["id"] + ",tol=" + tol
            out.append(d)
    return out


# --------------------------------------------------------------------------------------
# (H) object re-use: every ordered sequence of calls on ONE Hydrodynamics / template object returns, for its LAST call,
# what a freshly constructed object returns for that call. (A stale cache or a flag left behind by an earlier call
# breaks conservation for the later one; the lattice sections above only ever make one call per fresh object.)
# --------------------------------------------------------------------------------------
REUSE_EOS = [
    dict(kind="bag", args=[0.8], Tn=0.8, s=1.0),
    dict(kind="template", args=[0.1, 0.95, 0.27, 1 / 3], Tn=1.0, s=1.0),
    dict(kind="template", args=[0.3, 0.75, 1 / 3, 0.27], Tn=1.0, s=1.0),
    dict(kind="template", args=[0.6, 0.95, 1 / 3, 1 / 3], Tn=1.0, s=100.0),  # alpha above the template's alpha_max: LTE is a runaway
    dict(kind="quad", args=list(HL.QUADS["Q1"]), Tn=0.8, s=1.0, label="Q1"),
    dict(kind="quad", args=list(HL.QUADS["Q4"]), Tn=0.9, s=1.0, label="Q4"),
    dict(kind="twostep", args=[0.15, 0.12, 0.3], Tn=0.7, s=1.0),
]


def _reuse_ops(obj_kind, vel):
    """alphabet: name -> callable(object). vel: dict label -> velocity."""
    ops = {}
    for lab in ("v0.3", "cb-", "hyb-mid", "vJ-", "vJ+", "v0.9"):
        if lab in vel:
            ops[f"findMatching({lab})"] = (lambda o, v=vel[lab]: o.findMatching(v))
    for lab in ("v0.3", "hyb-mid", "vJ+"):
        if lab in vel:
            ops[f"findHydroBoundaries({lab})"] = (lambda o, v=vel[lab]: o.findHydroBoundaries(v))
    for lab in ("hyb-mid", "v0.9"):
        if lab in vel:
            ops[f"efficiencyFactor({lab})"] = (lambda o, v=vel[lab]: o.efficiencyFactor(v))
    ops["findvwLTE"] = lambda o: o.findvwLTE()
    ops["findJouguetVelocity"] = lambda o: o.findJouguetVelocity()

    def retune(o):
        # the Thermodynamics object is re-used for another nucleation temperature after this solver was built (a Tn scan that
        # builds its solvers first and evaluates them later): the solver keeps the Tn it was built with for everything
        o.thermodynamics.Tnucl = 0.93 * float(o.thermodynamics.Tnucl)

    ops["thermodynamics.Tnucl-reassigned"] = retune
    if obj_kind == "full":
        ops["fastestDeflag"] = lambda o: o.fastestDeflag()
        ops["slowestDeton"] = lambda o: o.slowestDeton()
        ops["vJ,vMin"] = lambda o: (float(o.vJ), float(o.vMin))
    else:
        ops["maxAl"] = lambda o: o.maxAl(100)
        ops["vJ,vMin"] = lambda o: (float(o.vJ), float(o.vMin))
    return ops


def _obs(fn, obj):
    try:
        out = fn(obj)
    except Exception as ex:  # an exception is an observation too
        return ("raised", type(ex).__name__)
    if out is None:
        return ("none",)
    arr = np.asarray(out, dtype=object).ravel()
    return ("value", tuple(None if x is None else float(x) for x in arr))


def _same(a, b, tol):
    if a[0] != b[0]:
        return False
    if a[0] != "value":
        return a == b
    if len(a[1]) != len(b[1]):
        return False
    for x, y in zip(a[1], b[1]):
        if (x is None) != (y is None):
            return False
        if x is None or (x != x and y != y):
            continue
        if not abs(x - y) <= tol * max(abs(x), abs(y), 1e-300):
            return False
    return True


def case_reuse(c: dict) -> dict:
    import itertools

    import WallGo

    logging.disable(logging.CRITICAL)
    r = Rel(c["id"])
    tol = HL.DEFAULT
    eos, Tn = HL.build_eos(c)
    adm = HL.admissible(eos, Tn)
    if adm:
        return r.result(inadmissible=adm)

    def fresh():
        hyd, th = HL.make_hydro(eos, Tn, tol)
        if c["object"] == "full":
            return hyd
        return WallGo.HydrodynamicsTemplateModel(th, tol["rtol"], tol["atol"])

    try:
        probe, _ = HL.make_hydro(eos, Tn, tol)
        vel = dict(HL.velocity_lattice(probe, eos, Tn))
    except Exception as ex:
        return r.result(inadmissible="Hydrodynamics could not be constructed: " + repr(ex)[:120])
    ops = _reuse_ops(c["object"], vel)
    ref = {name: _obs(fn, fresh()) for name, fn in ops.items()}
    names = list(ops)
    # accepted difference: 100 x the solver's relative tolerance (a warm start may legitimately move a root within its tolerance)
    acc = 100 * tol["rtol"]
    nseq = 0
    depth = c["depth"]
    for d in range(2, depth + 1):
        # depth 3 only over the operations that could leave state behind (everything except pure attribute reads)
        alphabet = names if d == 2 else [n for n in names if n.startswith(("findvwLTE", "maxAl", "fastestDeflag", "slowestDeton", "findMatching(vJ", "findMatching(hyb", "efficiencyFactor(hyb", "thermodynamics.Tnucl"))]
        for seq in itertools.product(alphabet, repeat=d - 1):
            # after the prefix EVERY operation is observed; live objects do not copy, so the prefix is replayed per observed operation
            for last in names:
                o2 = fresh()
                for n in seq:
                    _obs(ops[n], o2)
                got = _obs(ops[last], o2)
                nseq += 1
                r.true(f"{'>'.join(seq)}>{last}:same-as-fresh-object", _same(got, ref[last], acc), got=got, fresh=ref[last])
    r.detail.update(sequences=nseq, alphabet=names)
    r.tag(f"reuse-{c['object']}")
    return r.result(nontrivial=nseq > 0)


def reuse_cases(tier):
    out = []
    for e in REUSE_EOS if tier != "quick" else REUSE_EOS[:2] + REUSE_EOS[3:5]:
        for obj in ("full", "template"):
            if obj == "template" and e["kind"] not in ("bag", "template"):
                continue
            d = dict(e)
            d.update(object=obj, depth=2 if tier == "quick" else 3)
            lab = e.get("label") or ",".join(f"{a:.4g}" for a in e["args"])
            d["id"] = f"{obj}:{e['kind']}({lab}),Tn={e['Tn']:g},units={e['s']:g}"
            out.append(d)
    return out


SECTIONS = {"eos": (cases, case_eos), "traced": (traced_cases, case_traced), "template": (template_cases, case_template), "reuse": (reuse_cases, case_reuse),
            "window": (window_cases, case_eos)}


def run(ctx) -> None:
    for name, (gen, fn) in SECTIONS.items():
        if ctx.only and ctx.only != name:
            continue
        ctx.run_lattice(name, gen(ctx.tier), fn, timeout=900)


def replay(rep: dict) -> dict:
    return SECTIONS[rep["section"]][1](rep["params"])
