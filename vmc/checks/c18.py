"""C18 - InterpolatableFunction honours its evaluation contract for every call history.

(H) explicit-state breadth-first search over ALL operation sequences up to a depth, executed on REAL
WallGo.InterpolatableFunction objects, with an inductive check:

  I(s)        state invariant, evaluated in every reached state (table sorted/finite/values == f, range,
              numPoints, counters);
  T(s,op,s')  transition relation, evaluated on every executed transition: the outcome of the operation and
              the successor state are compared with what the reference model (vmc/oracles/c18_oracle.py)
              predicts from the *pre* state: a reference table {abscissa -> oracle's own f(abscissa)}, a scipy
              CubicSpline built by the oracle from it, and the per-side mode semantics.

The search is sharded over (object kind x initial state x lower/upper mode pair) = 4x3x16 (quick) or
6x3x16 (thorough) shards that run in the 16 worker processes.

Violations are aggregated into COARSE, STABLE keys   bfs/<kind>/<operation kind>/<relation>::<modes>
(<modes> = the two mode letters in force when the operation ran; "notable" when the object had no table, so the
modes were not consulted; "-" for table-construction operations, which never dispatch on the modes).  The mode pair
is deliberately the LAST component: a known finding can list exact keys or one prefix per (kind, operation kind,
relation).  The shortest witnessing history is kept in the detail / replay file.
"""
from __future__ import annotations

import collections
import hashlib
import logging
import os
import shutil
import time

import numpy as np

from ..oracles import c18_oracle as O

LEVEL = "model_checking"
RULE = (
    "Two complete breadth-first searches over ALL operation sequences up to depth 3 (quick) / 4 (thorough) on real objects, from 3 "
    "initial states {no table; modes then table on [0,1]; table, one extension, then the mode change} x object kinds {scalar sin, "
    "2/3/4-component vectors, scalar and vector functions that are NaN on a sub-interval}: lattice A = all 16 lower/upper mode pairs, "
    "objects built with adaptive interpolation off, 67-letter alphabet (evaluate: 5 regions x scalar/list/1-D/2-D; direct evaluate; "
    "derivative: order 1,2 x inside/near-inside/boundary/below/above/near-outside/mixed x shapes; extendInterpolationTable left/right/"
    "both/no-op/upper-only/two arange-landing spacings; two mode-change operations; scheduleForInterpolation scalar/array/with-NaN-row "
    "(reaches the adaptive update at threshold 3); write+read; two newInterpolationTable); lattice B = adaptive interpolation on "
    "(threshold 3), 6 mode pairs that differ in which entries are evaluated directly, 23-letter alphabet incl. enable/disable. "
    "States merged by a digest of (table abscissae/values, range, spline coefficients + extrapolate flag, modes, adaptive flag, "
    "pending count/min/max). A transition is distinct by (state digest, operation); every transition is checked against the reference "
    "model (transition relation) and every new state against the state invariant; states violating the invariant are not expanded."
)
ASSUMPTIONS = [
    "np.empty inside WallGo.interpolatableFunction is replaced (module attribute, no source change) by an allocator that fills "
    "NaN, so that reads of uninitialised memory are deterministic; a correct implementation is unaffected",
    "spline comparisons use tolerance Lambda(x)*(1e-13+64eps)*max|v| with Lambda the Lebesgue function of the reference spline "
    "(stored values may carry the %.15g rounding of value and abscissa from a write/read round trip, <= 2.5e-14 max|v|); direct "
    "values 8 eps |f|; finite-difference derivatives outside the table 64 eps sum|c||f|/h^n + h^4 M/30 (M/90) around the analytic "
    "derivative the mode prescribes (0 for CONSTANT, spline derivative for FUNCTION, f' for NONE)",
    "write+read reproduces abscissae and values to 1e-14 relative (the property's number); 15 written digits give a worst-case "
    "rounding of 5e-15, so the observed margin of these relations is ~0.5 by construction",
    "interpolation accuracy: |spline-f| <= hmax^4 max|f''''| (K=1) per component on entries where f is finite",
    "one extra abscissa one spacing above newMax after an upper extension is tolerated (np.arange end-point rounding; reported "
    "as tag extend-overshoot-upper), an extra abscissa at the lower end is not (it duplicates an existing abscissa)",
    "abscissae must be distinct beyond 1e-12 relative (two abscissae that coincide to 15 digits cannot survive the text round trip)",
    "the adaptive accounting is checked for evaluate/schedule operations only (documented rule: distinct finite direct evaluations "
    "are remembered, update at the threshold); for derivative operations only the state invariant is checked afterwards; when all "
    "remembered points coincide no table can be built and only 'the call returns normally' + the invariant are required",
    "if an adaptive update fires in the middle of an evaluate call, entries above the range that are not re-evaluated directly "
    "may follow either the table before or the table after the call",
    "a call that raises the prescribed ValueError may already have remembered direct evaluations (the table may only grow)",
    "finite-difference derivatives of the function itself are not compared where the 5-point stencil touches the zone in which "
    "the test function is undefined (NaN by nature)",
]

N0 = 10  # initialInterpolationPointCount of the objects under test (append count 2, fresh table 10)
THR = 3  # adaptive threshold, set through the public attribute
WORK = "/verif/.work/c18"

KINDS_QUICK = ["s1", "v2", "v4", "s1nan", "v2nan"]
KINDS_THOROUGH = ["s1", "v2", "v4", "s1nan", "v2nan", "v3"]
KINDS_DEPTH3_ONLY = ("v3",)
INITS = ["notable", "table01", "extended"]
PAIRS = [(lo, up) for lo in O.MODES for up in O.MODES]


def pair_id(p) -> str:
    return O.LETTER[p[0]] + O.LETTER[p[1]]


# =========================================================================== real objects
_SETUP_DONE = False


class _PoisonNP:
    """numpy facade for the module under test: np.empty returns NaN-filled arrays (deterministic 'uninitialised')."""

    def __getattr__(self, name):
        return getattr(np, name)

    @staticmethod
    def empty(shape, dtype=float, **kw):
        return np.full(shape, np.nan, dtype=dtype)


def _setup():
    global _SETUP_DONE, _FnClass
    if _SETUP_DONE:
        return
    import WallGo.interpolatableFunction as M

    M.np = _PoisonNP()
    logging.disable(logging.CRITICAL)

    class Fn(M.InterpolatableFunction):
        """The function under test: a thin user subclass, exactly as in tests/test_InterpolatableFunction.py."""

        def __init__(self, kind: str, adaptive: bool = True):
            super().__init__(bUseAdaptiveInterpolation=adaptive, initialInterpolationPointCount=N0, returnValueCount=O.KINDS[kind])
            self._evaluationsUntilAdaptiveUpdate = THR
            self.kind = kind

        def _functionImplementation(self, x):
            return O.F(self.kind, np.asanyarray(x))

    _FnClass = Fn
    _SETUP_DONE = True


def _E(name: str):
    from WallGo import EExtrapolationType

    return getattr(EExtrapolationType, name)


# =========================================================================== observation / digest
def snap(obj) -> dict:
    s = {
        "has": bool(obj.hasInterpolation()),
        "modes": (obj.extrapolationTypeLower.name, obj.extrapolationTypeUpper.name),
        "adaptive": bool(obj._bUseAdaptiveInterpolation),
        "count": int(obj._directEvaluateCount),
        "pend": np.asarray(obj._directlyEvaluatedAt, dtype=float).ravel(),
        "thr": int(obj._evaluationsUntilAdaptiveUpdate),
    }
    if s["has"]:
        s["pts"] = np.array(obj._interpolationPoints, dtype=float)
        s["vals"] = np.array(obj._interpolationValues, dtype=float)
        s["rmin"] = float(obj._rangeMin)
        s["rmax"] = float(obj._rangeMax)
        s["num"] = int(obj.numPoints())
        s["imin"] = float(obj.interpolationRangeMin())
        s["imax"] = float(obj.interpolationRangeMax())
        sp = obj._interpolatedFunction
        s["sx"] = np.asarray(sp.x)
        s["sc"] = np.asarray(sp.c)
        s["sextra"] = bool(sp.extrapolate)
        s["dc"] = [np.asarray(d.c) for d in obj._interpolatedDerivatives]
    return s


def digest(s: dict) -> str:
    """sha1 of the observable state; floats quantised to ~11 significant digits (2^-38 of the mantissa) so that the
    rounding of a write/read round trip does not split states.  Only count/min/max of the pending list enter:
    the code under test reads nothing else of it."""
    pend = s["pend"]
    head = repr((s["has"], s["modes"], s["adaptive"], s["count"], s["thr"], len(pend),
                 (s["num"], s["sextra"], s["vals"].shape) if s["has"] else None)).encode()
    parts = [np.array([np.min(pend), np.max(pend)])] if len(pend) else []
    if s["has"]:
        parts += [s["pts"].ravel(), s["vals"].ravel(), s["sx"].ravel(), s["sc"].ravel(), np.array([s["rmin"], s["rmax"]])]
        parts += [d.ravel() for d in s["dc"]]
    if parts:
        a = np.concatenate(parts)
        m, e = np.frexp(a)
        body = np.round(m * 2.0**38).astype(np.int64).tobytes() + e.astype(np.int32).tobytes()
    else:
        body = b""
    return hashlib.sha1(head + body).hexdigest()


# =========================================================================== operation alphabet
SHAPES = ("scalar", "list", "1d", "2d")


def _alphabet() -> list[str]:
    ops = []
    # simplest first: evaluations
    for reg in ("inside", "below", "above"):
        for shp in SHAPES:
            ops.append(f"ev:{reg}:{shp}")
    ops += ["ev:mixed:list", "ev:mixed:1d", "ev:mixed:2d", "ev:mixedL:1d", "ev:mixedU:1d"]
    ops += ["ev:boundary:lo", "ev:boundary:hi", "ev:boundary:list", "ev:boundary:1d", "ev:boundary:2d"]
    for n in (1, 2):
        ops += [f"dv{n}:inside:scalar", f"dv{n}:inside:1d", f"dv{n}:nearin:1d", f"dv{n}:boundary:1d",
                f"dv{n}:below:scalar", f"dv{n}:below:1d", f"dv{n}:above:scalar", f"dv{n}:above:2d",
                f"dv{n}:nearbelow:1d", f"dv{n}:nearabove:1d",
                f"dv{n}:mixed:1d", f"dv{n}:mixed:2d", f"dv{n}:mixedL:1d", f"dv{n}:mixedU:1d"]
    ops += ["xt:left", "xt:right", "xt:both", "xt:noop", "xt:land7a", "xt:land7b", "xt:right3", "xt:nominal3"]
    ops += ["sm:swap", "sm:rot"]
    ops += ["ad:on", "ad:off"]
    ops += ["sc:scalar", "sc:array", "sc:nanrow"]
    ops += ["evd:scalar", "evd:1d"]
    ops += ["wr", "wr:detour"]
    ops += ["nt:A", "nt:B"]
    return ops


ALPHABET = _alphabet()
# Lattice A ("modes"): objects constructed with adaptive interpolation OFF (as in the repository's tests), the full
# alphabet except the two adaptive switches.  Direct evaluations then do not change the state, so the state space
# stays small enough for all 16 mode pairs; the adaptive *update* is still reached through scheduleForInterpolation.
ALPHABET_A = [o for o in ALPHABET if not o.startswith("ad:")]
# Lattice B ("adaptive"): objects constructed with adaptive interpolation ON (threshold 3): every direct evaluation
# changes the state, which multiplies the reachable states ~30x; a reduced alphabet (one representative per way an
# operation can feed / trigger / reset the adaptive memory) on the mode pairs that differ in which entries are
# evaluated directly (both sides, one side, none; ERROR raising before anything is remembered).
ALPHABET_B = [
    "ev:inside:scalar", "ev:inside:1d", "ev:below:scalar", "ev:below:list", "ev:above:list", "ev:mixed:1d", "ev:boundary:1d",
    "evd:scalar", "evd:1d", "dv1:inside:scalar", "dv1:below:scalar", "dv2:mixedU:1d",
    "sc:scalar", "sc:array", "sc:nanrow", "ad:on", "ad:off", "xt:left", "xt:right3", "xt:noop", "xt:nominal3", "sm:swap", "wr", "wr:detour", "nt:A",
]
assert set(ALPHABET_B) <= set(ALPHABET)
PAIRS_B = [("NONE", "NONE"), ("NONE", "CONSTANT"), ("FUNCTION", "NONE"), ("ERROR", "NONE"), ("CONSTANT", "FUNCTION"), ("ERROR", "ERROR")]
OPKIND = {"ev": "evaluate", "evd": "direct", "dv1": "derivative", "dv2": "derivative", "xt": "extend", "sm": "setmode",
          "ad": "adaptive", "sc": "schedule", "wr": "writeread", "nt": "newtable", "init": "init"}


def opkind(name: str) -> str:
    if name.startswith("xt:land"):
        return "extend-landing"
    return OPKIND[name.split(":")[0]]


def _ev_x(reg: str, shp: str, a: float, b: float):
    """Input of an evaluate operation: region x shape, placed relative to the current range [a, b]."""
    w = b - a
    ins = lambda t: a + t * w  # noqa: E731
    if reg == "inside":
        if shp == "scalar":
            return ins(0.37)
        if shp == "list":
            return [ins(0.37), ins(0.81)]
        if shp == "1d":
            return np.array([ins(0.05), ins(0.5), ins(0.93)])
        return np.array([[ins(0.37), ins(0.81)], [ins(0.05), ins(0.5)]])
    if reg == "below":
        if shp == "scalar":
            return a - 0.21
        if shp == "list":
            return [a - 0.21, a - 0.08]
        if shp == "1d":
            return np.array([a - 0.08, a - 0.21, a - 0.08])
        return np.array([[a - 0.21], [a - 0.08]])
    if reg == "above":
        if shp == "scalar":
            return b + 0.12
        if shp == "list":
            return [b + 0.12, b + 0.27]
        if shp == "1d":
            return np.array([b + 0.27, b + 0.12, b + 0.4])
        return np.array([[b + 0.12, b + 0.27]])
    if reg == "mixed":
        if shp == "list":
            return [a - 0.21, ins(0.37), b + 0.12]
        if shp == "1d":
            return np.array([ins(0.5), b + 0.27, a - 0.08, ins(0.93)])
        return np.array([[a - 0.21, ins(0.37)], [b + 0.12, ins(0.81)]])
    if reg == "mixedL":
        return np.array([a - 0.21, ins(0.37)])
    if reg == "mixedU":
        return np.array([ins(0.81), b + 0.12])
    if reg == "boundary":
        if shp == "lo":
            return a
        if shp == "hi":
            return b
        if shp == "list":
            return [a, b]
        if shp == "1d":
            return np.array([a, b])
        return np.array([[a, ins(0.5)], [b, b]])
    raise KeyError((reg, shp))


def _dv_x(reg: str, shp: str, a: float, b: float, h: float):
    """Input of a derivative operation (h = finite-difference step of that order)."""
    w = b - a
    ins = lambda t: a + t * w  # noqa: E731
    if reg == "inside":
        return ins(0.37) if shp == "scalar" else np.array([ins(0.05), ins(0.5), ins(0.93)])
    if reg == "nearin":  # inside, within two steps of either end
        return np.array([a + 0.5 * h, a + 1.5 * h, b - 1.5 * h, b - 0.5 * h])
    if reg == "boundary":
        return np.array([a, b])
    if reg == "below":
        return a - 0.21 if shp == "scalar" else np.array([a - 0.21, a - 0.08])
    if reg == "above":
        return b + 0.12 if shp == "scalar" else np.array([[b + 0.12], [b + 0.27]])
    if reg == "nearbelow":  # outside, within two steps of the lower end
        return np.array([a - 0.5 * h, a - 1.5 * h])
    if reg == "nearabove":
        return np.array([b + 0.5 * h, b + 1.5 * h])
    if reg == "mixed":
        return np.array([a - 0.21, ins(0.37), b + 0.12]) if shp == "1d" else np.array([[a - 0.21, ins(0.37)], [b + 0.12, ins(0.81)]])
    if reg == "mixedL":
        return np.array([a - 0.21, ins(0.37)])
    if reg == "mixedU":
        return np.array([ins(0.81), b + 0.12])
    raise KeyError((reg, shp))


_DV_REGION = {"inside": "inside", "nearin": "inside", "boundary": "boundary", "below": "outside", "above": "outside",
              "nearbelow": "near-outside", "nearabove": "near-outside", "mixed": "outside", "mixedL": "outside", "mixedU": "outside"}


def describe(name: str, pre: dict) -> dict:
    """Concrete arguments of operation `name` in the state `pre` (points are placed relative to the current range)."""
    a, b = (pre["rmin"], pre["rmax"]) if pre["has"] else (0.0, 1.0)
    w = b - a
    parts = name.split(":")
    head = parts[0]
    if head == "evd":  # bUseInterpolatedValues=False: always the function itself
        x = a + 0.37 * w if parts[1] == "scalar" else np.array([a + 0.05 * w, a + 0.5 * w, a + 0.93 * w])
        return {"t": "ev", "x": x, "interp": False, "region": "direct"}
    if head == "ev":
        reg, shp = parts[1], parts[2]
        region = {"inside": "inside", "boundary": "boundary"}.get(reg, "outside") if pre["has"] else "direct"
        return {"t": "ev", "x": _ev_x(reg, shp, a, b), "interp": True, "region": region}
    if head in ("dv1", "dv2"):
        n = int(head[2])
        region = _DV_REGION[parts[1]] if pre["has"] else "direct"
        return {"t": "dv", "order": n, "x": _dv_x(parts[1], parts[2], a, b, O.fd_step(n)), "region": region}
    if head == "xt":
        args = {
            "left": (a - 0.3, b, 2, 2),
            "right": (a, b + 0.3, 2, 2),
            "both": (a - 0.2, b + 0.2, 2, 2),
            "noop": (a + 0.1 * w, b - 0.1 * w, 2, 2),
            # np.arange(newMin, rangeMin, (rangeMin-newMin)/7) yields an 8th point ON rangeMin for these offsets
            # (exactly on it for 0.28 and a = 0, one ulp beside it for 0.31)
            "land7a": (a - 0.28, b, 7, 0),
            "land7b": (a - 0.31, b, 7, 0),
            "right3": (a, b + 0.45, 0, 3),
            # a FIXED nominal range whose ends have no finite decimal expansion: after a write+read round trip (15 digits) the
            # table ends sit a few ulp inside it, so repeating this operation asks for an extension of rounding size
            "nominal3": (-1.0 / 3.0, 10.0 / 3.0, 2, 2),
        }[parts[1]]
        return {"t": "xt", "args": args}
    if head == "sm":
        lo, up = pre["modes"]
        if parts[1] == "swap":
            tgt = (up, lo)
        else:  # rotate both one step through ERROR -> NONE -> CONSTANT -> FUNCTION -> ERROR
            tgt = (O.MODES[(O.MODES.index(lo) + 1) % 4], O.MODES[(O.MODES.index(up) + 1) % 4])
        return {"t": "sm", "modes": tgt}
    if head == "init":  # initial-state construction steps, parts[1] = sm-<L>-<U> | nt | xt
        if parts[1].startswith("sm-"):
            _, lo, up = parts[1].split("-")
            return {"t": "sm", "modes": (lo, up)}
        if parts[1] == "nt":
            return {"t": "nt", "args": (0.0, 1.0, 11)}
        if parts[1] == "xt":
            return {"t": "xt", "args": (-0.3, 1.3, 2, 2)}
    if head == "ad":
        return {"t": "ad", "on": parts[1] == "on"}
    if head == "sc":
        if parts[1] == "scalar":
            return {"t": "sc", "x": a - 0.17, "nanrow": None}
        if parts[1] == "array":
            return {"t": "sc", "x": np.array([a - 0.17, b + 0.21]), "nanrow": None}
        return {"t": "sc", "x": np.array([a - 0.17, a - 0.4, b + 0.05]), "nanrow": 1}
    if head == "wr":
        # wr: write and read back at once. wr:detour: write; widen the table on both sides and evaluate outside it on either side
        # (whatever the modes make of that); THEN read the file back - the object returns to the table it wrote, by another route
        return {"t": "wr", "detour": len(parts) > 1}
    if head == "nt":
        return {"t": "nt", "args": (0.6, 1.4, 5) if parts[1] == "A" else (-0.5, 0.5, 6)}
    raise KeyError(name)


# =========================================================================== execution on the real object
def _workdir() -> str:
    d = os.path.join(WORK, f"run-{os.getpid()}")
    os.makedirs(d, exist_ok=True)
    return d


def execute(obj, spec: dict):
    """Run the operation on the real object. -> ("ok", value) | ("exc", type name, message)."""
    t = spec["t"]
    try:
        if t == "ev":
            return ("ok", obj(spec["x"]) if spec["interp"] else obj(spec["x"], False))
        if t == "dv":
            return ("ok", obj.derivative(spec["x"], order=spec["order"]))
        if t == "xt":
            return ("ok", obj.extendInterpolationTable(*spec["args"]))
        if t == "sm":
            return ("ok", obj.setExtrapolationType(_E(spec["modes"][0]), _E(spec["modes"][1])))
        if t == "ad":
            return ("ok", obj.enableAdaptiveInterpolation() if spec["on"] else obj.disableAdaptiveInterpolation())
        if t == "sc":
            fx = np.array(O.F(obj.kind, spec["x"]), dtype=float)
            if spec["nanrow"] is not None:  # the caller reports one failed evaluation as NaN (one component for vectors)
                if fx.ndim == 1:
                    fx[spec["nanrow"]] = np.nan
                else:
                    fx[spec["nanrow"], -1] = np.nan
            return ("ok", obj.scheduleForInterpolation(spec["x"], fx))
        if t == "nt":
            return ("ok", obj.newInterpolationTable(*spec["args"]))
        if t == "wr":
            path = os.path.join(_workdir(), "table.txt")
            try:
                obj.writeInterpolationTable(path)
                fresh = _FnClass(obj.kind, False)
                fresh.setExtrapolationType(obj.extrapolationTypeLower, obj.extrapolationTypeUpper)
                fresh_out = None
                try:
                    fresh.readInterpolationTable(path)
                    fresh_out = snap(fresh)
                except Exception as e:  # reported through the relation below
                    fresh_out = ("exc", type(e).__name__, str(e)[:200])
                if spec.get("detour"):
                    lo, hi = float(obj.interpolationRangeMin()), float(obj.interpolationRangeMax())
                    try:
                        obj.extendInterpolationTable(lo - 1.0, hi + 1.0, 3, 3)
                    except Exception:  # noqa: BLE001
                        pass
                    for x in (lo - 2.5, hi + 2.5):
                        try:
                            obj(x)
                        except Exception:  # noqa: BLE001 - ERROR mode etc.
                            pass
                obj.readInterpolationTable(path)
            finally:
                if os.path.exists(path):
                    os.remove(path)
            return ("ok", fresh_out)
    except Exception as e:  # part of the observation; judged by check()
        return ("exc", type(e).__name__, str(e)[:200])
    raise KeyError(t)


# =========================================================================== reference tables (cached)
_REF_CACHE: dict = {}


def ref_of(kind: str, s: dict):
    """Reference table of a state (None if the state has no table or its abscissae are unusable)."""
    if not s["has"]:
        return None
    pts = s["pts"]
    key = (kind, pts.tobytes())
    r = _REF_CACHE.get(key)
    if r is None:
        if len(_REF_CACHE) > 4000:
            _REF_CACHE.clear()
        try:
            if len(pts) < 2 or not np.all(np.isfinite(pts)) or not np.all(np.diff(pts) > 0):
                raise ValueError("unusable abscissae")
            r = O.RefTable(kind, pts)
        except Exception:
            r = "bad"
        _REF_CACHE[key] = r
    return None if isinstance(r, str) else r


_PRED_CACHE: dict = {}


def _predict_cached(kind, ref, pre, xf, order, spec):
    """The oracle's prediction depends only on (kind, table abscissae, modes, input): cache it across states that
    share the table (oracle-side cache; the real code is of course executed every time)."""
    key = (kind, pre["pts"].tobytes() if ref is not None else None, pre["modes"] if ref is not None else None, order, xf.tobytes())
    pr = _PRED_CACHE.get(key)
    if pr is None:
        if len(_PRED_CACHE) > 60000:
            _PRED_CACHE.clear()
        pr = O.predict(kind, ref, pre["modes"], xf, order)
        pr["clsset"] = sorted(set(pr["cls"].tolist()))
        if ref is not None and order == 0 and not pr["raise"]:
            mk = pr["cls"] == "in"
            pr["in_exact"] = O.rows(kind, xf[mk]) if np.any(mk) else None
        _PRED_CACHE[key] = pr
    return pr


# =========================================================================== checks
class Acc:
    """Relation accumulator of one transition."""

    def __init__(self):
        self.n = 0
        self.margin = 0.0
        self.margin_rel = ""
        self.margins: dict[str, float] = {}
        self.viol: list[dict] = []
        self.tags: set[str] = set()

    def true(self, rel: str, cond, **detail) -> bool:
        self.n += 1
        if not bool(cond):
            self.viol.append({"relation": rel, "detail": detail})
            return False
        return True

    def close(self, rel: str, got, want, tol, **detail) -> bool:
        """|got-want| <= tol row-wise (tol per row); NaN must match NaN. NaN in `got` where a number is prescribed
        is reported under rel+':uninitialised-or-nan'."""
        self.n += 1
        got = np.asarray(got, dtype=float)
        want = np.asarray(want, dtype=float)
        tol = np.asarray(tol, dtype=float).reshape(-1, 1)
        if got.size == 0:
            return True
        nan_bad = np.isnan(got) & ~np.isnan(want)
        if np.any(nan_bad):
            self.viol.append({"relation": rel + ":uninitialised-or-nan", "detail": {**detail, "got": got.tolist(), "want": want.tolist()}})
            return False
        both = np.isnan(got) & np.isnan(want)
        err = np.where(both, 0.0, np.abs(got - want))
        err = np.where(np.isnan(err), np.inf, err)
        ratio = float(np.max(err / np.maximum(tol, 1e-300)))
        if ratio > 1.0:
            self.viol.append({"relation": rel, "detail": {**detail, "got": got.tolist(), "want": want.tolist(), "err_over_tol": ratio}})
            return False
        if ratio > self.margins.get(rel, -1.0):
            self.margins[rel] = ratio
        if ratio > self.margin:
            self.margin, self.margin_rel = ratio, rel
        return True


def invariant(kind: str, s: dict, acc: Acc) -> None:
    """I(s): what must hold in every reachable state."""
    acc.true("inv:counters", 0 <= s["count"] < max(s["thr"], 1) + 0 and s["count"] == len(s["pend"]), count=s["count"], pending=len(s["pend"]))
    if not s["has"]:
        return
    pts, vals = s["pts"], s["vals"]
    k = O.KINDS[kind]
    okshape = pts.ndim == 1 and len(pts) >= 2 and vals.shape == ((len(pts),) if k == 1 else (len(pts), k))
    if not acc.true("inv:table-shape", okshape, pts=list(pts.shape), vals=list(vals.shape)):
        return
    acc.true("inv:abscissae-finite", np.all(np.isfinite(pts)))
    acc.true("inv:abscissae-strictly-increasing", np.all(np.diff(pts) > 0), pts=pts.tolist())
    # distinct beyond the 15 digits of the text format: otherwise the table cannot be written and read back
    gap_ok = np.all(np.diff(pts) > 1e-12 * np.maximum(1.0, np.abs(pts[1:])))
    acc.true("inv:abscissae-distinct-to-1e-12", gap_ok, min_gap=float(np.min(np.diff(pts))))
    acc.true("inv:no-nonfinite-rows", np.all(np.isfinite(vals)))
    want = O.rows(kind, pts)
    # stored value == f(abscissa).  A table that went through the text format carries the %.15g rounding of the
    # abscissa and of the value (5e-15 relative each, idempotent under repeated round trips):
    # |v~ - f(x~)| <= 5e-15 (|v| + |f'(x)| |x|).  Tolerance = 10 x that bound + 8 eps.
    d1 = np.abs(np.nan_to_num(np.asarray(O.F(kind, pts, 1)).reshape(len(pts), -1)))
    bound = np.max(np.abs(np.nan_to_num(want)) + d1 * np.abs(pts)[:, None], axis=1)
    acc.close("inv:values==f(abscissae)", vals.reshape(len(pts), -1), want, 5e-14 * bound + 8 * O.EPS)
    acc.true("inv:range==table-ends", s["rmin"] == pts[0] and s["rmax"] == pts[-1] and s["imin"] == pts[0] and s["imax"] == pts[-1],
             rmin=s["rmin"], rmax=s["rmax"], first=float(pts[0]), last=float(pts[-1]))
    acc.true("inv:numPoints", s["num"] == len(pts))
    acc.true("inv:spline-on-table", len(s["sx"]) == len(pts) and np.array_equal(s["sx"], pts))


def _same_table(a: dict, b: dict) -> bool:
    if a["has"] != b["has"]:
        return False
    if not a["has"]:
        return True
    return a["pts"].shape == b["pts"].shape and np.array_equal(a["pts"], b["pts"]) and np.array_equal(a["vals"], b["vals"])


def _pend_tuple(s: dict):
    p = s["pend"]
    return (s["count"], float(np.min(p)) if len(p) else None, float(np.max(p)) if len(p) else None)


def _check_table(kind, acc, rel, post, required, optional):
    if not acc.true(rel + ":has-table", post["has"]):
        return
    ok, over = O.match_abscissae(post["pts"], required, optional)
    acc.true(rel, ok, got=post["pts"].tolist(), want=np.asarray(required).tolist(), tolerated_extra=optional)
    if over:
        acc.tags.add("extend-overshoot-upper")


def _adaptive_after_direct(kind, acc, region, pre, post, xdirect):
    """Accounting of one direct call (documented adaptive rule) and the table after a triggered update."""
    if not pre["adaptive"]:
        acc.true(f"{region}:pending", _pend_tuple(post) == _pend_tuple(pre), got=_pend_tuple(post), want=_pend_tuple(pre))
        acc.true(f"{region}:state-unchanged", _same_table(pre, post))
        return
    c, lo, hi = _pend_tuple(pre)
    p = O.predict_pending(kind, c, lo, hi, pre["thr"], xdirect)
    if p["trigger"]:
        acc.tags.add("adaptive-trigger-" + ("table" if pre["has"] else "notable"))
        req, opt = O.expected_extend(kind, pre["pts"] if pre["has"] else None, p["tmin"], p["tmax"],
                                     int(0.2 * N0) if pre["has"] else N0 // 2, int(0.2 * N0) if pre["has"] else N0 // 2)
        if len(req) < 2 or not np.all(np.diff(req) > 0):
            # all remembered evaluations coincide (or fewer than two finite rows): no table can be built.  The call
            # itself must still return normally (checked by the value relations); what happens to the memory is
            # not specified, only I(post) is required.
            acc.tags.add("adaptive-trigger-degenerate")
            return
        _check_table(kind, acc, f"{region}:adaptive-table", post, req, opt)
        acc.true(f"{region}:pending", post["count"] == 0 and len(post["pend"]) == 0, got=_pend_tuple(post), want=(0, None, None))
    else:
        acc.true(f"{region}:pending", _pend_tuple(post) == (p["count"], p["min"], p["max"]), got=_pend_tuple(post),
                 want=(p["count"], p["min"], p["max"]))
        acc.true(f"{region}:state-unchanged", _same_table(pre, post))


def check(kind: str, pre: dict, spec: dict, out, post: dict) -> Acc:
    """T(pre, op, post): compare outcome and successor state with the reference model's prediction."""
    acc = Acc()
    t = spec["t"]
    k = O.KINDS[kind]
    exc = out[0] == "exc"

    if t in ("ev", "dv"):
        order = spec.get("order", 0)
        region = spec["region"]
        xa = np.asarray(spec["x"], dtype=float)
        xf = xa.ravel()
        use_table = pre["has"] and spec.get("interp", True)
        ref = ref_of(kind, pre) if use_table else None
        if use_table and ref is None:
            acc.tags.add("no-reference(bad-abscissae)")
            return acc
        pr = _predict_cached(kind, ref, pre, xf, order, spec)
        head = "ev" if t == "ev" else f"dv{order}"
        for c in pr["clsset"]:
            side = {"lo": pre["modes"][0], "hi": pre["modes"][1]}.get(c, "")
            acc.tags.add(f"{head}:{c}{(':' + side) if side else ''}")
        acc.tags.add(f"{head}:shape{xa.ndim}d")
        if pr["raise"]:
            acc.tags.add(f"{head}:ValueError-prescribed")
            acc.true(f"{region}:raises-ValueError", exc and out[1] == "ValueError", outcome=_brief(out))
            # side effects of the failed call are not specified (entries below the range may already have been
            # evaluated directly and remembered); the invariant I(post) is checked by the caller, here only monotonicity
            if pre["has"]:
                acc.true(f"{region}:table-only-grows", post["has"] and np.all(np.isin(pre["pts"], post["pts"])))
            return acc
        if exc:
            acc.true(f"{region}:no-exception({out[1]})", False, message=out[2], x=xa.tolist())
            return acc
        res = np.asarray(out[1])
        want_shape = xa.shape + ((k,) if k > 1 else ())
        if not acc.true(f"{region}:shape", res.shape == want_shape, got=list(res.shape), want=list(want_shape)):
            return acc
        resf = np.asarray(res, dtype=float).reshape(len(xf), -1)
        # An adaptive update can fire in the middle of an evaluate call (entries below the range are evaluated directly
        # and remembered before the entries above are processed).  The property does not say which table then governs the
        # entries above: either the table before the call or the one after it is accepted, entry by entry.
        alt = None
        if t == "ev" and ref is not None and pre["adaptive"] and np.any(pr["direct"]) and not _same_table(pre, post):
            ref2 = ref_of(kind, post)
            if ref2 is not None and np.min(np.diff(post["pts"])) > 1e-12:  # never judge against a corrupt table
                alt = O.predict(kind, ref2, pre["modes"], xf, 0)
                if alt["raise"]:
                    alt = None
                else:
                    acc.tags.add("ev:update-mid-call")
        names = {"in": "spline-value", "lo": "outside-mode-value", "hi": "outside-mode-value", "direct": "direct-value"}
        if np.any(pr["skip"]):
            acc.tags.add("fd-stencil-touches-undefined-zone(entry not compared)")
        for c, nm in names.items():
            mk = (pr["cls"] == c) & ~pr["skip"]
            if np.any(mk):
                exp, tol = pr["exp"][mk], pr["tol"][mk]
                if alt is not None and c == "hi":
                    got = resf[mk]
                    # only entries that are NOT re-evaluated directly are ambiguous (boundary value / extrapolation of which table)
                    fits_new = np.all(np.abs(got - alt["exp"][mk]) <= alt["tol"][mk].reshape(-1, 1), axis=1) & ~pr["direct"][mk]
                    exp = np.where(fits_new[:, None], alt["exp"][mk], exp)
                    tol = np.where(fits_new, alt["tol"][mk], tol)
                if alt is not None and c == "hi":
                    nm = nm + "(update-mid-call)"
                acc.close(f"{region}:{nm}", resf[mk], exp, tol, x=xf[mk].tolist(), side=c, modes=list(pre["modes"]), order=order)
        if ref is not None and order == 0:
            mk = pr["cls"] == "in"
            if np.any(mk):  # within interpolation accuracy of f where f is defined
                exact = pr["in_exact"]
                got = np.where(np.isfinite(exact), resf[mk], np.nan)
                atol = ref.accuracy_tol()
                err = np.abs(got - exact) / atol
                acc.n += 1
                if np.any(np.isnan(got) & np.isfinite(exact)) or np.nanmax(np.where(np.isnan(err), 0.0, err), initial=0.0) > 1.0:
                    acc.viol.append({"relation": f"{region}:accuracy", "detail": {"x": xf[mk].tolist(), "got": resf[mk].tolist(),
                                                                                 "f": exact.tolist(), "tol": atol.tolist()}})
                else:
                    mg = float(np.nanmax(np.where(np.isnan(err), 0.0, err), initial=0.0))
                    acc.margins[f"{region}:accuracy"] = max(mg, acc.margins.get(f"{region}:accuracy", 0.0))
                    if mg > acc.margin:
                        acc.margin, acc.margin_rel = mg, f"{region}:accuracy"
        if t == "ev":
            if np.any(pr["direct"]):
                _adaptive_after_direct(kind, acc, region, pre, post, xf[pr["direct"]])
            else:
                acc.true(f"{region}:state-unchanged", _same_table(pre, post) and _pend_tuple(pre) == _pend_tuple(post))
        else:
            if not np.any(pr["direct"]):
                acc.true(f"{region}:state-unchanged", _same_table(pre, post) and _pend_tuple(pre) == _pend_tuple(post))
            elif pre["has"] and post["has"]:  # an adaptive update may have run: the table may only grow
                acc.true(f"{region}:table-only-grows", np.all(np.isin(pre["pts"], post["pts"])))
        return acc

    if exc:
        acc.true(f"no-exception({out[1]})", False, message=out[2], spec=_brief(spec))
        return acc

    if t == "sm":
        acc.true("modes-set", post["modes"] == tuple(spec["modes"]), got=post["modes"], want=spec["modes"])
        acc.true("table-unchanged", _same_table(pre, post))
        acc.tags.add("setmode-with-table" if pre["has"] else "setmode-no-table")
    elif t == "ad":
        acc.true("flag", post["adaptive"] == spec["on"])
        if spec["on"]:
            acc.true("pending-cleared", post["count"] == 0 and len(post["pend"]) == 0)
        acc.true("table-unchanged", _same_table(pre, post))
    elif t in ("xt", "nt"):
        if t == "nt":
            req, opt = O.expected_newtable(kind, *spec["args"]), None
            full = spec["args"][2]
        else:
            req, opt = O.expected_extend(kind, pre["pts"] if pre["has"] else None, *spec["args"])
            full = None
        _check_table(kind, acc, "abscissae==expected", post, req, opt)
        if t == "nt" and len(req) < full:
            acc.tags.add("rows-dropped-newtable")
        if t == "xt":
            acc.tags.add("extend-" + ("table" if pre["has"] else "notable"))
            if pre["has"]:
                nmin, nmax, cmin, cmax = spec["args"]
                full = (cmin if (nmin < pre["rmin"] and cmin > 0) else 0) + (cmax if (nmax > pre["rmax"] and cmax > 0) else 0)
                if len(req) - len(pre["pts"]) < full:
                    acc.tags.add("rows-dropped-extend")
            if pre["has"] and post["has"]:
                acc.true("old-rows-kept", np.all(np.isin(pre["pts"], post["pts"])))
    elif t == "sc":
        x = np.atleast_1d(np.asarray(spec["x"], dtype=float))
        valid = np.ones(len(x), bool)
        if spec["nanrow"] is not None:
            valid[spec["nanrow"]] = False
        # scheduleForInterpolation is an explicit request: it accumulates whether or not adaptive mode is on
        fake = dict(pre)
        fake["adaptive"] = True
        _adaptive_after_direct(kind, acc, "schedule", fake, post, x[valid])
    elif t == "wr":
        fresh = out[1]
        acc.tags.add("write-read")
        for nm, s in (("same-object", post), ("fresh-object", fresh)):
            if isinstance(s, tuple):
                acc.true(f"{nm}:no-exception({s[1]})", False, message=s[2])
                continue
            if not acc.true(f"{nm}:has-table", s["has"]):
                continue
            same_n = s["pts"].shape == pre["pts"].shape and s["vals"].shape == pre["vals"].shape
            if not acc.true(f"{nm}:numPoints", same_n, got=list(s["pts"].shape), want=list(pre["pts"].shape)):
                continue
            # read-back reproduces abscissae and values to 1e-14 relative (15 significant digits are written)
            acc.close(f"{nm}:abscissae", s["pts"].reshape(-1, 1), pre["pts"].reshape(-1, 1), 1e-14 * np.maximum(1.0, np.abs(pre["pts"])))
            pv = pre["vals"].reshape(len(pre["pts"]), -1)
            acc.close(f"{nm}:values", s["vals"].reshape(len(pre["pts"]), -1), pv, 1e-14 * np.maximum(1.0, np.max(np.abs(pv), axis=1)))
    return acc


def _brief(o, n=200):
    s = repr(o)
    return s if len(s) <= n else s[:n] + "..."


# =========================================================================== stepping / building
def step(obj, kind: str, name: str, with_check: bool = True, pre: dict | None = None):
    """Execute one operation on the live object and evaluate T(pre, op, post). -> (Acc|None, pre, post)"""
    if pre is None:
        pre = snap(obj)
    if name.startswith("wr") and not pre["has"]:
        return None, pre, pre  # nothing to write: operation not enabled in this state
    spec = describe(name, pre)
    out = execute(obj, spec)
    post = snap(obj)
    if not with_check:
        return None, pre, post
    acc = check(kind, pre, spec, out, post)
    if out[0] == "exc":
        acc.tags.add("exception:" + out[1])
    return acc, pre, post


def clone(obj):
    """Copy of a live object: arrays and lists are copied, the spline objects (never mutated in place by the code
    under test, which rebinds them) are shared.  The BFS re-verifies every snapshot's digest before using it."""
    new = object.__new__(type(obj))
    for k, v in obj.__dict__.items():
        if isinstance(v, np.ndarray):
            v = v.copy()
        elif isinstance(v, list):
            v = list(v)
        new.__dict__[k] = v
    return new


def init_history(lattice: str, init: str, pair) -> list[str]:
    ad = "init:ad-off" if lattice == "A" else "init:ad-on"  # constructor argument, not an operation
    sm = f"init:sm-{pair[0]}-{pair[1]}"
    if init == "notable":
        return [ad, sm]  # modes chosen before any table exists
    if init == "table01":
        return [ad, sm, "init:nt"]  # modes first, then the table on [0,1]
    if init == "extended":
        return [ad, "init:nt", "init:xt", sm]  # default modes, table, one extension, THEN the mode change (forces a rebuild)
    raise KeyError(init)


def new_object(kind: str, history: list[str]):
    """Fresh object for a history; history[0] says how it is constructed."""
    _setup()
    assert history and history[0] in ("init:ad-on", "init:ad-off"), history[:1]
    return _FnClass(kind, history[0] == "init:ad-on")


def build(kind: str, history: list[str]):
    obj = new_object(kind, history)
    for name in history[1:]:
        step(obj, kind, name, with_check=False)
    return obj


MODE_BLIND = ("extend", "extend-landing", "newtable", "writeread", "schedule", "adaptive", "init")


def modekey(pre: dict, name: str | None = None) -> str:
    """Mode component of a violation key: the pair in force when the operation ran; 'notable' when no table existed
    (the modes are not consulted then); '-' for table-construction operations, which never dispatch on the modes
    (they only pass 'FUNCTION in modes' to the spline constructor)."""
    if name is not None and opkind(name) in MODE_BLIND and not name.startswith("init:sm"):
        return "-"
    return pair_id(pre["modes"]) if pre["has"] else "notable"


# =========================================================================== the BFS of one shard
def explore(kind: str, init: str, pair, depth: int, lattice: str = "A") -> dict:
    _setup()
    cpu0 = time.process_time()
    base = init_history(lattice, init, pair)
    alphabet = ALPHABET_A if lattice == "A" else ALPHABET_B
    viol: dict = {}  # (opkind, modekey, relation) -> {"history", "count", "detail"}
    tags: set[str] = set()
    outcomes: dict = collections.defaultdict(set)
    inv_cache: dict = {}  # state digest -> Acc of I(s)
    nrel = 0
    margin = 0.0
    margin_at = None
    margins: dict[str, float] = {}
    transitions = 0
    skipped = 0
    corrupt = 0

    def note(acc: Acc, name: str, pre: dict, hist: list[str], count_relations: bool = True):
        nonlocal nrel, margin, margin_at
        if count_relations:
            nrel += acc.n
            if acc.margin > margin:
                margin, margin_at = acc.margin, {"relation": acc.margin_rel, "history": list(hist)}
            for rl, mg in acc.margins.items():
                rl = opkind(name) + "/" + rl
                if mg > margins.get(rl, -1.0):
                    margins[rl] = mg
        tags.update(acc.tags)
        for v in acc.viol:
            key = (opkind(name), modekey(pre, name), v["relation"])
            rec = viol.get(key)
            if rec is None:
                viol[key] = {"history": list(hist), "count": 1, "detail": v["detail"]}
            else:
                rec["count"] += 1

    def inv(post: dict, nd: str, name: str, pre: dict, hist: list[str]) -> bool:
        """I(post), evaluated once per distinct state; a violation is attributed to every transition entering it."""
        acc = inv_cache.get(nd)
        fresh = acc is None
        if fresh:
            acc = Acc()
            invariant(kind, post, acc)
            inv_cache[nd] = acc
        note(acc, name, pre, hist, count_relations=fresh)
        return not acc.viol

    # initial state: run its construction steps WITH checks
    obj = new_object(kind, base)
    good = True
    for i, name in enumerate(base[1:], start=1):
        acc, pre, post = step(obj, kind, name)
        note(acc, name, pre, base[: i + 1])
        good = inv(post, digest(post), name, pre, base[: i + 1])
    s0 = snap(obj)
    d0 = digest(s0)
    seen = {d0: list(base)}
    frontier = collections.deque([(list(base), d0, obj)] if good else [])
    maxdepth = 0
    while frontier:
        hist, dg, snapshot = frontier.popleft()
        lvl = len(hist) - len(base)
        if lvl >= depth:
            continue
        # fidelity: the history replayed on a fresh object AND the stored snapshot must both have the recorded digest
        live = build(kind, hist)
        presnap = snap(live)
        if digest(presnap) != dg or digest(snap(snapshot)) != dg:
            raise RuntimeError(f"nondeterministic replay / aliased snapshot for {hist}")
        clean = True
        for name in alphabet:
            if not clean:
                live = clone(snapshot)
                presnap = snap(live)
            acc, pre, post = step(live, kind, name, pre=presnap)
            if acc is None:
                skipped += 1
                continue
            transitions += 1
            nh = hist + [name]
            maxdepth = max(maxdepth, lvl + 1)
            note(acc, name, pre, nh)
            nd = digest(post)
            clean = nd == dg
            ok = True if clean else inv(post, nd, name, pre, nh)
            # distinct observed outcomes per operation kind (a single outcome from many executions would be vacuous)
            if acc.viol or not ok:
                label = "violation"
            elif any(t.startswith("exception:") for t in acc.tags):
                label = "raised-as-prescribed"
            else:
                label = "ok:state-unchanged" if clean else ("ok:table-changed" if not _same_table(pre, post) else "ok:modes/counters-changed")
            outcomes[opkind(name)].add(label)
            if nd not in seen:
                seen[nd] = nh
                if not ok:
                    corrupt += 1  # a counterexample ends here: states violating I(s) are not expanded
                else:
                    frontier.append((nh, nd, live if lvl + 1 < depth else None))
                clean = False  # `live` now belongs to the frontier
            if clean:
                presnap = post
    shutil.rmtree(os.path.join(WORK, f"run-{os.getpid()}"), ignore_errors=True)
    return {
        "states": len(seen), "transitions": transitions, "maxdepth": maxdepth, "skipped_disabled": skipped,
        "corrupt_states_not_expanded": corrupt, "cpu_s": round(time.process_time() - cpu0, 2),
        "relations": nrel, "margin": margin, "margin_at": margin_at, "margins": margins, "tags": sorted(tags),
        "outcomes": {k: sorted(v) for k, v in sorted(outcomes.items())},
        "violations": [{"opkind": k[0], "modes": k[1], "relation": k[2], **v} for k, v in sorted(viol.items())],
    }


def shard(params: dict) -> dict:
    r = explore(params["kind"], params["init"], tuple(params["pair"]), params["depth"], params["lattice"])
    return {
        "id": params["id"], "verdict": "ok", "relations": r["relations"], "margin": r["margin"], "tags": r["tags"],
        "nontrivial": r["transitions"] > 0,
        "detail": {k: r[k] for k in ("states", "transitions", "maxdepth", "skipped_disabled", "corrupt_states_not_expanded", "cpu_s", "margin_at", "margins", "outcomes", "violations")},
    }


# =========================================================================== entry points
def shard_cases(tier: str) -> list[dict]:
    kinds = KINDS_QUICK if tier == "quick" else KINDS_THOROUGH
    cases = []
    for lattice, pairs in (("A", PAIRS), ("B", PAIRS_B)):
        for kind in kinds:
            # depth 3 everywhere in quick; thorough: depth 4, except depth 3 on the extra kind
            depth = 3 if (tier == "quick" or kind in KINDS_DEPTH3_ONLY) else 4
            for init in INITS:
                for pair in pairs:
                    cases.append({"id": f"{lattice}/{kind}/{init}/{pair_id(pair)}", "lattice": lattice, "kind": kind, "init": init,
                                  "pair": list(pair), "depth": depth})
    return cases


def run(ctx) -> None:
    cases = shard_cases(ctx.tier)
    if getattr(ctx, "only", None):
        cases = [c for c in cases if ctx.only in c["id"]]
    # heaviest shards first (NONE modes + adaptive accounting create most states) for a balanced pool
    cases.sort(key=lambda c: (-c["depth"], c["lattice"] != "B", c["init"] != "notable", -sum(m == "NONE" for m in c["pair"])))
    results = ctx.run_lattice("bfs-shards", cases, shard, timeout=3000.0)
    merged: dict = {}
    states = transitions = 0
    outcomes: dict = collections.defaultdict(set)
    order = {n: i for i, n in enumerate(INITS)}
    for c, r in zip(cases, results):
        d = r.get("detail") or {}
        if r.get("verdict") != "ok" or "states" not in d:
            continue
        states += d["states"]
        transitions += d["transitions"]
        for k, v in d["outcomes"].items():
            outcomes[k].update(v)
        for v in d["violations"]:
            key = (c["kind"], v["opkind"], v["modes"], v["relation"])
            cand = (len(v["history"]), order[c["init"]], v["history"], pair_id(c["pair"]))
            cur = merged.get(key)
            if cur is None:
                merged[key] = {"cand": cand, "init": c["init"], "pair": c["pair"], "count": v["count"], "detail": v["detail"], "shards": 1}
            else:
                cur["count"] += v["count"]
                cur["shards"] += 1
                if cand < cur["cand"]:
                    cur.update({"cand": cand, "init": c["init"], "pair": c["pair"], "detail": v["detail"]})
    ctx.add_bfs(states, transitions, transitions)
    for key in sorted(merged):
        kind, ok, mk, rel = key
        m = merged[key]
        hist = m["cand"][2]
        ctx.record(
            "bfs",
            {"id": f"{kind}/{ok}/{rel}", "verdict": "violation", "relations": 0,
             "violations": [{"relation": mk, "detail": {"shortest_history": hist, "initial_state": m["init"],
                                                         "occurrences": m["count"], "shards": m["shards"], "first": m["detail"]}}]},
            params={"kind": kind, "history": hist},
        )
    ctx.exhaustive = True
    ctx.note("bfs_depth", {"quick": 3, "thorough": "4 (s1,v2,v4,s1nan,v2nan), 3 (v3)"}[ctx.tier])
    ctx.note("alphabet_size", {"A": len(ALPHABET_A), "B": len(ALPHABET_B)})
    ctx.note("shards", len(cases))
    ctx.note("distinct_outcomes_per_operation_kind", {k: sorted(v) for k, v in sorted(outcomes.items())})
    ctx.note("violation_keys", len(merged))
    allm: dict = {}
    for r in results:
        for rl, mg in ((r.get("detail") or {}).get("margins") or {}).items():
            allm[rl] = max(mg, allm.get(rl, 0.0))
    ctx.note("max_margin_by_relation", {k: float(f"{v:.3g}") for k, v in sorted(allm.items())})
    ctx.note("cpu_core_seconds", round(sum((r.get("detail") or {}).get("cpu_s", 0.0) for r in results), 1))
    ctx.note("corrupt_states_not_expanded", sum((r.get("detail") or {}).get("corrupt_states_not_expanded", 0) for r in results))
    if os.environ.get("C18_PRINT_KEYS"):  # used when comparing a mutant run with the baseline
        for key in sorted(merged):
            print("C18KEY bfs/%s/%s/%s::%s" % (key[0], key[1], key[3], key[2]))


def replay(rep: dict) -> dict:
    """Re-run one recorded history with all checks; returns the violations of its LAST operation."""
    _setup()
    p = rep["params"]
    kind, hist = p["kind"], list(p["history"])
    obj = new_object(kind, hist)
    last = None
    lastpre = None
    for name in hist[1:]:
        last, lastpre, lastpost = step(obj, kind, name)
        if last is not None:
            invariant(kind, lastpost, last)
    shutil.rmtree(os.path.join(WORK, f"run-{os.getpid()}"), ignore_errors=True)
    if last is None:
        return {"id": rep.get("case", "replay"), "verdict": "ok", "relations": 0, "violations": []}
    want_rel = str(rep.get("case", "")).split("/", 3)[-1]
    viol = [v for v in last.viol if v["relation"] == want_rel] or last.viol
    for v in viol:
        v["modes"] = modekey(lastpre, hist[-1])
    return {
        "id": f"{kind}/{opkind(hist[-1])}/{want_rel}", "verdict": "violation" if viol else "ok",
        "violations": viol, "relations": last.n, "margin": last.margin, "detail": {"history": hist},
    }
