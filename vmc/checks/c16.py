"""C16 - spectral polynomial calculus is exact on the polynomial space of the grid.

(L) per (M, N, direction, endpoints): the operators of WallGo.polynomial.Polynomial are linear maps on a
finite-dimensional space, so each is executed on a COMPLETE basis (every cardinal function, every restricted
Chebyshev function) and compared with 50-digit mpmath references (vmc/oracles/c16_oracle.py).
(L) multi-axis: rank-2 with every (direction, endpoints, basis) pair, rank-3/4 with "Array" axes in every
position, on the complete basis of outer products: op along one axis == 1-D reference (x) identity.
(H) BFS over operation sequences (depth <= 3) on real Polynomial objects with a function-level reference model
stepped in lock-step (the represented function is unchanged / transformed as the operation prescribes).
"""
from __future__ import annotations

import functools
import itertools

import math

import numpy as np

from ..lattice import Rel, with_ids
from ..oracles import c16_oracle as O

LEVEL = "model_checking"
RULE = (
    "1-D sections: full cross product M x N x {z,pz,pp} x {interior,endpoints}; inside a case every basis function of "
    "both representations is one input (complete basis) and every off-grid/grid point, boundary row and weight power k "
    "(0..2K+1, exactness decided by a 50-digit computation of the Gauss-Chebyshev-Lobatto rule) is one relation. "
    "rank2: all 12x12 (direction,endpoints,basis) pairs x sizes, all outer products of basis vectors; rankn: every "
    "Array/polynomial pattern of rank 3 and 4 x rotations of the 12 axis specs. bfs: all op sequences of length <= 3 "
    "from each initial polynomial, states merged by digest of (coefficients, labels). A case is non-trivial if a "
    "non-identity operator acted (always, except changeBasis no-ops which are tagged)."
)
ASSUMPTIONS = [
    "N is odd (Grid documents it); spacing 'Spectral'",
    "the reference polynomial of a cardinal coefficient vector is the Lagrange interpolant through the float nodes the "
    "Grid returns; those nodes are separately required to equal -cos(pi j/K) to 8*eps*(1+2*theta*|sin theta|) (relation nodes-*)",
    "integration weights are finite at every kept node: x^k/sqrt(1-x^2) (interior z,pz), x^k*sqrt((1+x)/(1-x)) (interior pp), "
    "x^k*sqrt(1-x^2) (endpoints kept); with finite weights the halved end weights of integrate() multiply sqrt(1-x^2)=0 and are unobservable",
    "tolerances: cardinal products 8*eps*(K+1)*|value| (3 roundings per factor); T_n by recurrence 8*eps*(n+1)^2; n*U_{n-1} 8*eps*n*(n+1)^3/3; "
    "matrix inverse 16*eps*n*cond(T)*max|ref|; quadrature 64*eps*sum|terms| + 4*pi*eps*deg^2*max|f| (Markov bound of node rounding)",
    "changeBasis targets name 'Array' exactly on the Array axes (the tuple form WallGo itself uses); evaluate with a subset of axes uses the 2-D point form",
    "Polynomial + scalar and Polynomial * Polynomial with equal shapes act on coefficients, not on functions, and are not part of the property",
]

EPS = float(np.finfo(float).eps)
FALLOFF = (3.7, 110.0)  # position / momentum falloff: irrelevant for compact coordinates, deliberately not 1


# ------------------------------------------------------------------------------ helpers
def _grid(M, N):
    """A fresh grid per call. Both grid classes are used (the polynomial calculus sees only the compact collocation points, which
    are the same for both): the one-scale Grid for even M, the three-scale Grid3Scales (what WallGoManager builds) for odd M. A
    worker handles many sizes one after the other, so state shared between grid INSTANCES would surface as wrong nodes."""
    if M % 2:
        from WallGo.grid3Scales import Grid3Scales

        return Grid3Scales(M, N, 3.0 * FALLOFF[0], 3.0 * FALLOFF[0], FALLOFF[0], FALLOFF[1])
    from WallGo.grid import Grid

    return Grid(M, N, FALLOFF[0], FALLOFF[1])


def _poly(coeff, grid, basis, direction, endpoints):
    from WallGo.polynomial import Polynomial

    return Polynomial(np.array(coeff, dtype=float), grid, basis, direction, endpoints)


def _axis(grid, M, N, d, ep) -> O.Axis:
    # the oracle's nodes are its own (Gauss-Chebyshev-Lobatto points -cos(k pi/K), k = 0..K, as documented in Grid.__init__), not the
    # arrays the grid under test hands out; that the grid's arrays ARE these points is a relation of every 1-D case (see _nodes_rel)
    K = O.K_of(M, N, d)
    x = np.array([-math.cos(math.pi * k / K) for k in range(K + 1)])
    x[0], x[-1] = -1.0, 1.0
    return O.axis(K, d, bool(ep), tuple(float(v) for v in x))


def _nodes_rel(r: Rel, grid, M, N, d) -> None:
    """The collocation points the polynomial calculus reads from the grid are the documented ones (any grid class, any instance)."""
    K = O.K_of(M, N, d)
    want = np.array([-math.cos(math.pi * k / K) for k in range(K + 1)])
    try:
        got = np.asarray(grid.getCompactCoordinates(True, d), dtype=float)
        ok = got.shape == want.shape and bool(np.all(np.abs(got - want) <= 4 * EPS))
        r.true(f"grid-nodes-with-endpoints-{d}", ok, got_shape=list(got.shape), want_shape=list(want.shape), grid=type(grid).__name__)
    except Exception as e:  # noqa: BLE001
        r.true(f"grid-nodes-with-endpoints-{d}", False, error=repr(e)[:200])


def _close_arr(r: Rel, name: str, got, want, tol, **extra) -> bool:
    """elementwise |got-want| <= tol (tol array or scalar); records margin = max ratio."""
    r.n += 1
    try:
        got = np.asarray(got, dtype=float)
        want = np.asarray(want, dtype=float)
        if got.shape != want.shape:
            r.viol.append({"relation": name, "detail": {"shape_got": got.shape, "shape_want": want.shape, **extra}})
            return False
        tol = np.broadcast_to(np.asarray(tol, dtype=float), want.shape)
        err = np.abs(got - want)
        if err.size == 0:
            return True
        if not np.all(np.isfinite(got)):
            r.viol.append({"relation": name, "detail": {"got": got, "want": want, "err": "non-finite", **extra}})
            return False
        ratio = err / np.maximum(tol, 1e-300)
        i = int(np.argmax(ratio))
        m = float(ratio.reshape(-1)[i])
    except Exception as e:  # pragma: no cover
        r.viol.append({"relation": name, "detail": {"error": repr(e), **extra}})
        return False
    r.margin = max(r.margin, m)
    if m > 1:
        idx = np.unravel_index(i, want.shape) if want.shape else ()
        r.viol.append({"relation": name, "detail": {"worst_index": [int(v) for v in idx], "got": float(got.reshape(-1)[i]),
                                                    "want": float(want.reshape(-1)[i]), "err": float(err.reshape(-1)[i]),
                                                    "tol": float(tol.reshape(-1)[i]), **extra}})
        return False
    return True


def _try(r: Rel, name: str, fn):
    """Run real code; an exception where a value is required is a violation of relation `name`."""
    try:
        return True, fn()
    except Exception as e:
        r.true(name, False, error=repr(e))
        return False, None


def _guard_nodes(r: Rel, grid, M, N, d):
    """Gauss-Lobatto nodes of direction d (both variants) against -cos(pi j/K).
    tol_j = 8*eps*(1 + 2*theta_j*|sin theta_j|): theta = j*pi/K carries two roundings plus the rounding of pi
    (relative <= 2 eps, i.e. 2*eps*theta*|sin theta| in the cosine), the cosine itself <= 1 ulp; factor 8 of slack."""
    K = O.K_of(M, N, d)
    ref = O.nodes_float_reference(K)
    theta = np.arange(K + 1) * np.pi / K
    tol = 8 * EPS * (1 + 2 * theta * np.abs(np.sin(theta)))
    full = np.asarray(grid.getCompactCoordinates(True, d), dtype=float)
    _close_arr(r, f"nodes-{d}-full", full, ref, tol)
    if full.shape == ref.shape:
        ends_ok = (full[-1] == 1.0) and (d == "pp" or full[0] == -1.0)
        r.true(f"nodes-{d}-ends-exact", ends_ok, first=float(full[0]), last=float(full[-1]))
    inner = np.asarray(grid.getCompactCoordinates(False, d), dtype=float)
    kept = O.kept_indices(K, d, False)
    _close_arr(r, f"nodes-{d}-interior", inner, ref[kept], tol[kept])
    # the tuple form must agree with the per-direction form
    tup = grid.getCompactCoordinates(True)
    r.true(f"nodes-{d}-tuple-form", np.array_equal(np.asarray(tup[O.DIRECTIONS.index(d)]), full))
    # keep the margin of the node relations apart from the margin of the calculus relations (both go to the evidence)
    r.detail["margin_nodes"] = max(r.detail.get("margin_nodes", 0.0), r.margin)
    r.margin = 0.0


def _finish(r: Rel, **kw) -> dict:
    r.detail["margin_excl_nodes"] = r.margin
    r.margin = max(r.margin, r.detail.get("margin_nodes", 0.0))
    return r.result(**kw)


def _generic(n: int, salt: int = 0) -> np.ndarray:
    """Deterministic generic coefficient vector (no RNG): small rationals with mixed signs, no zero entry."""
    i = np.arange(n)
    return ((((7 * i + 3 * salt + 2) % 11) - 5.0) + 0.25 * ((i + salt) % 3) + 0.125) / 4.0


def _tagbase(d, ep):
    return f"{d}-{'endpoints' if ep else 'interior'}"


def _onehot(n, b):
    e = np.zeros(n)
    e[b] = 1.0
    return e


# tolerance building blocks (see ASSUMPTIONS)
def _tol_T(orders):  # value of (restricted) T_n by recurrence/eval_chebyt, |T_n| <= 1, restriction adds one rounding
    o = np.asarray(orders, dtype=float)
    return 8 * EPS * (o + 1) ** 2


def _tol_dT(orders):  # n*U_{n-1}
    o = np.asarray(orders, dtype=float)
    return 8 * EPS * (o * (o + 1) ** 3 / 3 + 1)


def _card_deriv_scale(ax: O.Axis) -> np.ndarray:
    """(K+1, n) magnitude of the terms WallGo's barycentric-type formula adds up: |D_ij| off the diagonal,
    sum_m 1/|x_i-x_m| on it (the diagonal is a cancelling sum)."""
    D = np.abs(ax.deriv("Cardinal"))
    x = np.array(ax.xfull)
    S = D.copy()
    for col, j in enumerate(ax.kept):
        S[j, col] = np.sum(1.0 / np.abs(x[j] - np.delete(x, j)))
    return S


# ------------------------------------------------------------------------------ A: changeBasis
def case_changebasis(p: dict) -> dict:
    M, N, d, ep = p["M"], p["N"], p["d"], p["ep"]
    r = Rel(p["id"])
    grid = _grid(M, N)
    _guard_nodes(r, grid, M, N, d)
    ax = _axis(grid, M, N, d, ep)
    _nodes_rel(r, grid, M, N, d)
    n, K = ax.n, ax.K
    C2T, T2C = ax.c2t(), ax.t2c()
    cond = float(np.linalg.cond(T2C))
    # inverse computed by LAPACK: |X - A^-1| <= c n eps cond(A) |A^-1|; entries of A themselves carry _tol_T
    tol_c2t = 16 * EPS * n * cond * max(np.max(np.abs(C2T)), 1e-300) + 1e-30
    tol_t2c = _tol_T(ax.orders)  # per column (order of the basis function)
    r.detail.update(cond=cond, n=n, K=K)
    for b in range(n):
        # Cardinal -> Chebyshev: reference coefficients, then back
        q = _poly(_onehot(n, b), grid, "Cardinal", d, ep)
        ok, _ = _try(r, f"c2t-b{b}-no-exception", lambda: q.changeBasis("Chebyshev"))
        if ok:
            r.true(f"c2t-b{b}-label", q.basis == ("Chebyshev",), basis=q.basis)
            _close_arr(r, f"c2t-ref-b{b}", q.coefficients, C2T[:, b], tol_c2t)
            ok, _ = _try(r, f"c2t2c-b{b}-no-exception", lambda: q.changeBasis("Cardinal"))
            if ok:
                # round trip = T * inv(T) e_b : error <= n * max|T| * tol_c2t + recurrence error of T
                _close_arr(r, f"c2t2c-roundtrip-b{b}", q.coefficients, _onehot(n, b), 2 * n * tol_c2t + np.max(tol_t2c))
                r.true(f"c2t2c-b{b}-label", q.basis == ("Cardinal",), basis=q.basis)
        # Chebyshev -> Cardinal: grid values of the restricted Chebyshev function, then back
        q = _poly(_onehot(n, b), grid, "Chebyshev", d, ep)
        ok, _ = _try(r, f"t2c-b{b}-no-exception", lambda: q.changeBasis("Cardinal"))
        if ok:
            _close_arr(r, f"t2c-ref-b{b}", q.coefficients, T2C[:, b], tol_t2c[b] + 1e-30)
            ok, _ = _try(r, f"t2c2t-b{b}-no-exception", lambda: q.changeBasis("Chebyshev"))
            if ok:
                _close_arr(r, f"t2c2t-roundtrip-b{b}", q.coefficients, _onehot(n, b), 2 * n * tol_c2t * max(1.0, np.max(np.abs(T2C))) + 1e-30)
        # documented inverse-transpose variant (used for collision arrays): (R^-1)^T
        q = _poly(_onehot(n, b), grid, "Cardinal", d, ep)
        ok, _ = _try(r, f"invT-c2t-b{b}-no-exception", lambda: q.changeBasis("Chebyshev", inverseTranspose=True))
        if ok:  # inv(inv(T))^T e_b = row b of T, through two LAPACK inversions
            _close_arr(r, f"invT-c2t-b{b}", q.coefficients, T2C[b, :], 2 * n * tol_c2t * max(1.0, np.max(np.abs(T2C)) ** 2) + np.max(tol_t2c))
        q = _poly(_onehot(n, b), grid, "Chebyshev", d, ep)
        ok, _ = _try(r, f"invT-t2c-b{b}-no-exception", lambda: q.changeBasis("Cardinal", inverseTranspose=True))
        if ok:
            _close_arr(r, f"invT-t2c-b{b}", q.coefficients, C2T[b, :], tol_c2t)
    # no-op and generic vectors
    v = _generic(n, 1)
    for basis, other, R in (("Cardinal", "Chebyshev", C2T), ("Chebyshev", "Cardinal", T2C)):
        q = _poly(v, grid, basis, d, ep)
        q.changeBasis(basis)
        r.true(f"noop-{basis}", np.array_equal(q.coefficients, v) and q.basis == (basis,))
        q.changeBasis((other,))  # tuple form
        scale = np.abs(R) @ np.abs(v)
        t = (16 * EPS * n * cond * scale + 1e-30) if other == "Chebyshev" else (np.abs(T2C) * 0 + _tol_T(ax.orders)[None, :]) @ np.abs(v) + 8 * EPS * n * scale
        _close_arr(r, f"generic-{basis}-to-{other}", q.coefficients, R @ v, t)
    r.tag(_tagbase(d, ep), f"restriction-{ax.restriction}")
    return _finish(r)


# ------------------------------------------------------------------------------ B: evaluate
def case_evaluate(p: dict) -> dict:
    M, N, d, ep = p["M"], p["N"], p["d"], p["ep"]
    r = Rel(p["id"])
    grid = _grid(M, N)
    _guard_nodes(r, grid, M, N, d)
    ax = _axis(grid, M, N, d, ep)
    _nodes_rel(r, grid, M, N, d)
    n, K = ax.n, ax.K
    off = np.array(O.OFFGRID)
    gridpts = np.array(ax.xfull)
    for basis in ("Cardinal", "Chebyshev"):
        Voff, Vgrid = ax.values(basis, off), ax.values(basis, gridpts)
        for b in range(n):
            q = _poly(_onehot(n, b), grid, basis, d, ep)
            if basis == "Cardinal":  # product of K factors, 3 roundings each: relative accuracy
                toff = 8 * EPS * (K + 1) * np.abs(Voff[:, b]) + 1e-30
                tgrid = 8 * EPS * (K + 1) * np.abs(Vgrid[:, b]) + 1e-30
            else:
                toff = tgrid = float(_tol_T([ax.orders[b]])[0])
            ok, got = _try(r, f"ev-{basis}-b{b}-offgrid-no-exception", lambda: q.evaluate(off[None, :]))
            if ok:
                _close_arr(r, f"ev-{basis}-b{b}-offgrid", got, Voff[:, b], toff, points=list(O.OFFGRID))
            ok, got = _try(r, f"ev-{basis}-b{b}-grid-no-exception", lambda: q.evaluate(gridpts[None, :]))
            if ok:
                _close_arr(r, f"ev-{basis}-b{b}-grid", got, Vgrid[:, b], tgrid)
                if basis == "Cardinal":  # grid values: the Kronecker delta, and zero at dropped ends
                    delta = np.array([1.0 if j == ax.kept[b] else 0.0 for j in range(K + 1)])
                    _close_arr(r, f"ev-Cardinal-b{b}-grid-delta", got, delta, 8 * EPS * (K + 1) * delta + 1e-30)
                elif not ep:
                    dropped = [j for j in range(K + 1) if j not in ax.kept]
                    _close_arr(r, f"ev-Chebyshev-b{b}-zero-at-dropped-ends", np.asarray(got)[dropped], np.zeros(len(dropped)), toff)
            # single point form returns a float with the same value
            ok, g1 = _try(r, f"ev-{basis}-b{b}-single-no-exception", lambda: q.evaluate(np.array([off[2]])))
            if ok:
                r.true(f"ev-{basis}-b{b}-single-is-float", isinstance(g1, float), type=str(type(g1)))
                _close_arr(r, f"ev-{basis}-b{b}-single", g1, Voff[2, b], np.atleast_1d(toff)[2 if np.ndim(toff) else 0])
            r.true(f"ev-{basis}-b{b}-pure", np.array_equal(q.coefficients, _onehot(n, b)) and q.basis == (basis,))
        # generic vector: sum of terms
        v = _generic(n, 2)
        q = _poly(v, grid, basis, d, ep)
        pts = np.concatenate([off, gridpts])
        V = np.concatenate([Voff, Vgrid])
        scale = np.abs(V) @ np.abs(v)
        t = (8 * EPS * (K + 2) * scale + 1e-30) if basis == "Cardinal" else (np.ones_like(V) * _tol_T(ax.orders)[None, :]) @ np.abs(v) + 8 * EPS * n * scale
        ok, got = _try(r, f"ev-{basis}-generic-no-exception", lambda: q.evaluate(pts[None, :]))
        if ok:
            _close_arr(r, f"ev-{basis}-generic", got, V @ v, t)
    r.tag(_tagbase(d, ep), f"restriction-{ax.restriction}")
    return _finish(r)


# ------------------------------------------------------------------------------ C: derivative
def case_derivative(p: dict) -> dict:
    M, N, d, ep = p["M"], p["N"], p["d"], p["ep"]
    r = Rel(p["id"])
    grid = _grid(M, N)
    _guard_nodes(r, grid, M, N, d)
    ax = _axis(grid, M, N, d, ep)
    _nodes_rel(r, grid, M, N, d)
    axfull = _axis(grid, M, N, d, True)
    n, K = ax.n, ax.K
    interior_rows = list(range(1, K))
    boundary_rows = [0, K]
    for basis in ("Cardinal", "Chebyshev"):
        D = ax.deriv(basis)
        if basis == "Cardinal":
            # each entry: product of <= K ratios and one reciprocal (3 roundings each); diagonal: cancelling sum
            T = 8 * EPS * (3 * K + 3) * _card_deriv_scale(ax) + 1e-30
        else:
            T = np.ones((K + 1, 1)) * _tol_dT(ax.orders)[None, :]
        for b in range(n):
            q = _poly(_onehot(n, b), grid, basis, d, ep)
            ok, dq = _try(r, f"d-{basis}-b{b}-no-exception", lambda: q.derivative(0))
            if not ok:
                continue
            r.true(f"d-{basis}-b{b}-labels", dq.basis == ("Cardinal",) and dq.endpoints == (True,) and dq.direction == (d,),
                   basis=dq.basis, endpoints=dq.endpoints, direction=dq.direction)
            got = np.asarray(dq.coefficients, dtype=float)
            if got.shape != (K + 1,):
                r.true(f"d-{basis}-b{b}-shape", False, got=got.shape, want=(K + 1,))
                continue
            _close_arr(r, f"d-{basis}-b{b}-interior-nodes", got[interior_rows], D[interior_rows, b], T[interior_rows, b])
            _close_arr(r, f"d-{basis}-b{b}-boundary-nodes", got[boundary_rows], D[boundary_rows, b], T[boundary_rows, b])
            r.true(f"d-{basis}-b{b}-pure", np.array_equal(q.coefficients, _onehot(n, b)) and q.basis == (basis,) and q.endpoints == (ep,))
        # generic vector, tuple-axis form, and the second derivative by chaining (derivative output is Cardinal+endpoints)
        v = _generic(n, 3)
        q = _poly(v, grid, basis, d, ep)
        ok, dq = _try(r, f"d-{basis}-generic-no-exception", lambda: q.derivative((0,)))
        if ok:
            t1 = T @ np.abs(v) + 8 * EPS * n * (np.abs(D) @ np.abs(v))
            _close_arr(r, f"d-{basis}-generic", dq.coefficients, D @ v, t1)
            ok, ddq = _try(r, f"d2-{basis}-generic-no-exception", lambda: dq.derivative(0))
            if ok:
                Df = axfull.deriv("Cardinal")
                Tf = 8 * EPS * (3 * K + 3) * _card_deriv_scale(axfull)
                t2 = np.abs(Df) @ t1 + Tf @ np.abs(D @ v) + 8 * EPS * (K + 1) * (np.abs(Df) @ np.abs(D @ v)) + 1e-30
                _close_arr(r, f"d2-{basis}-generic", ddq.coefficients, Df @ (D @ v), t2)
    r.tag(_tagbase(d, ep), f"restriction-{ax.restriction}")
    return _finish(r)


# ------------------------------------------------------------------------------ D: integrate
def _int_tol(ax: O.Axis, basis: str, b: int, k: int, T2C: np.ndarray, l1: np.ndarray) -> float:
    """64*eps*sum_i|W_i f(x_i)| (+ (n+1)^2 growth of the T_n recurrence for Chebyshev input)
    + 4*pi*eps*deg^2*max|f| : f at float nodes vs exact nodes, |f'| <= deg^2 max|f| (Markov), sum of weights = pi."""
    x = np.array([ax.xfull[i] for i in ax.kept])
    W = np.array([np.pi / ax.K / (2 if i in (0, ax.K) else 1) for i in ax.kept])
    g = np.abs(np.array([float(O.g_value(ax.fam, xi)) for xi in x]))
    vals = np.abs(T2C[:, b]) if basis == "Chebyshev" else _onehot(ax.n, b)
    terms = float(np.sum(W * np.abs(x) ** k * g * vals))
    gmax = 2.0 if ax.fam == "onepx" else 1.0
    deg = ax.K + k + 2
    grow = (ax.orders[b] + 1) ** 2 if basis == "Chebyshev" else 1
    return 64 * EPS * terms * grow + 4 * np.pi * EPS * deg**2 * gmax * float(l1[b]) + 1e-30


def case_integrate(p: dict) -> dict:
    M, N, d, ep = p["M"], p["N"], p["d"], p["ep"]
    r = Rel(p["id"])
    grid = _grid(M, N)
    _guard_nodes(r, grid, M, N, d)
    ax = _axis(grid, M, N, d, ep)
    _nodes_rel(r, grid, M, N, d)
    n, K = ax.n, ax.K
    D = O.exactness_degree(K)
    r.true("gcl-exactness-degree-computed-is-2K-1", D == 2 * K - 1, D=D, K=K)
    kmax = 2 * K + 1
    T2C = ax.t2c()
    nin = nout = nout_seen = 0
    for basis in ("Cardinal", "Chebyshev"):
        cls = ax.class_table(basis, kmax)
        ref = ax.integrals(basis, kmax)
        l1 = ax.l1(basis)
        for b in range(n):
            for k in range(kmax + 1):
                w = ax.weight(k)
                q = _poly(_onehot(n, b), grid, basis, d, ep)
                if not cls[b][k]:
                    # outside the computed exactness class: nothing is asserted; note whether the inexactness is visible
                    nout += 1
                    try:
                        got = q.integrate(weight=w)
                        if abs(got - ref[b, k]) > _int_tol(ax, basis, b, k, T2C, l1):
                            nout_seen += 1
                    except Exception:
                        pass
                    continue
                nin += 1
                ok, got = _try(r, f"int-{basis}-b{b}-k{k}-no-exception", lambda: q.integrate(weight=w))
                if not ok:
                    continue
                r.true(f"int-{basis}-b{b}-k{k}-is-float", isinstance(got, float), type=str(type(got)))
                r.close(f"int-{basis}-b{b}-k{k}", got, ref[b, k], _int_tol(ax, basis, b, k, T2C, l1))
                if k == 0:
                    # integrate() leaves self in the Cardinal basis: the represented function must be the same
                    want = T2C[:, b] if basis == "Chebyshev" else _onehot(n, b)
                    r.true(f"int-{basis}-b{b}-inplace-label", q.basis == ("Cardinal",), basis=q.basis)
                    _close_arr(r, f"int-{basis}-b{b}-inplace-function-unchanged", q.coefficients, want,
                               (float(_tol_T([ax.orders[b]])[0]) if basis == "Chebyshev" else 0.0) + 1e-30)
                    # axis=0 / axis=(0,) forms give the same number
                    for form, axis in (("int", 0), ("tuple", (0,))):
                        q2 = _poly(_onehot(n, b), grid, basis, d, ep)
                        ok, g2 = _try(r, f"int-{basis}-b{b}-axis-{form}-no-exception", lambda: q2.integrate(axis, w))
                        if ok:
                            r.true(f"int-{basis}-b{b}-axis-{form}-same", isinstance(g2, float) and g2 == got, got=g2, want=got)
        # generic vector with the largest k for which EVERY basis function is in the class
        ks = [k for k in range(kmax + 1) if all(cls[b][k] for b in range(n))]
        if ks:
            for k in sorted({ks[0], ks[-1]}):
                v = _generic(n, 4)
                q = _poly(v, grid, basis, d, ep)
                tol = sum(abs(v[b]) * _int_tol(ax, basis, b, k, T2C, l1) for b in range(n))
                ok, got = _try(r, f"int-{basis}-generic-k{k}-no-exception", lambda: q.integrate(weight=ax.weight(k)))
                if ok:
                    r.close(f"int-{basis}-generic-k{k}", got, float(ref[:, k] @ v), tol)
    q = _poly(_generic(n, 5), grid, "Cardinal", d, ep)
    q2 = _poly(_generic(n, 5), grid, "Cardinal", d, ep)
    r.true("int-weight-None-equals-1", q.integrate(weight=None) == q2.integrate(weight=1))
    # integration is an observation, not an update: without a weight (no product array is formed) the polynomial must still be the
    # same function afterwards - a second integral, the stored grid values and the caller's own array
    for basis in ("Cardinal", "Chebyshev"):
        v0 = _generic(n, 6)
        arr = np.array(v0, dtype=float)
        keep = arr.copy()
        q3 = _poly(arr, grid, basis, d, ep)
        before = np.array(q3.coefficients, dtype=float).copy()
        basis_before = tuple(q3.basis)
        ok, first = _try(r, f"int-{basis}-noweight-no-exception", lambda: q3.integrate())
        if ok:
            ok2, second = _try(r, f"int-{basis}-noweight-second-no-exception", lambda: q3.integrate())
            if ok2:
                r.close(f"int-{basis}-noweight-repeatable", second, first, 64 * EPS * (abs(float(first)) + float(np.sum(np.abs(keep)))))
            if tuple(q3.basis) == basis_before:  # integrate() documents a change to the Cardinal basis; compare like with like
                r.close(f"int-{basis}-noweight-leaves-coefficients", np.array(q3.coefficients, dtype=float), before, 64 * EPS * np.max(np.abs(before)))
            fresh = _poly(keep.copy(), grid, basis, d, ep)
            xs = np.array([-0.9, -0.3, 0.2, 0.7])
            try:
                a = np.array([float(q3.evaluate(np.array([x]))) for x in xs])
                b = np.array([float(fresh.evaluate(np.array([x]))) for x in xs])
                r.close(f"int-{basis}-noweight-same-function-afterwards", a, b, 256 * EPS * (np.max(np.abs(b)) + float(np.sum(np.abs(keep)))))
            except Exception as e:  # evaluate signature differences are not this relation's business
                r.tag("int-noweight-evaluate-skipped:" + type(e).__name__)
    r.detail.update(in_class=nin, beyond_class=nout, beyond_class_visibly_inexact=nout_seen, D=D)
    r.tag(_tagbase(d, ep), f"weight-family-{ax.fam}")
    if nin == 0:
        r.tag("empty-exactness-class")
    else:
        r.tag("in-class-points")
    if nout_seen:
        r.tag("beyond-class-visibly-inexact")
    return _finish(r, nontrivial=nin > 0)


# ------------------------------------------------------------------------------ E: matrix / derivMatrix
def case_matrices(p: dict) -> dict:
    M, N, d, ep = p["M"], p["N"], p["d"], p["ep"]
    r = Rel(p["id"])
    grid = _grid(M, N)
    _guard_nodes(r, grid, M, N, d)
    ax = _axis(grid, M, N, d, ep)
    _nodes_rel(r, grid, M, N, d)
    n, K = ax.n, ax.K
    # the methods ignore the instance's own labels (WallGo calls them on a temperature profile): use two hosts
    hosts = {
        "same": _poly(np.zeros(n), grid, "Cardinal", d, ep),
        "other": _poly(np.zeros(M + 1), grid, "Cardinal", "z", True),
    }
    for hname, host in hosts.items():
        ok, m = _try(r, f"matrix-Cardinal-{hname}-no-exception", lambda: host.matrix("Cardinal", d, ep))
        if ok:
            _close_arr(r, f"matrix-Cardinal-{hname}", m, np.eye(n), 0.0)
        ok, m = _try(r, f"matrix-Chebyshev-{hname}-no-exception", lambda: host.matrix("Chebyshev", d, ep))
        if ok:
            _close_arr(r, f"matrix-Chebyshev-{hname}", m, ax.t2c(), np.ones((n, 1)) * _tol_T(ax.orders)[None, :] + 1e-30)
        ok, m = _try(r, f"derivMatrix-Cardinal-{hname}-no-exception", lambda: host.derivMatrix("Cardinal", d, ep))
        if ok:
            D = ax.deriv("Cardinal")
            T = 8 * EPS * (3 * K + 3) * _card_deriv_scale(ax) + 1e-30
            m = np.asarray(m, dtype=float)
            if m.shape != D.shape:
                r.true(f"derivMatrix-Cardinal-{hname}-shape", False, got=m.shape, want=D.shape)
            else:
                diag = np.zeros_like(D, dtype=bool)
                for col, j in enumerate(ax.kept):
                    diag[j, col] = True
                _close_arr(r, f"derivMatrix-Cardinal-{hname}-diagonal", m[diag], D[diag], T[diag])
                _close_arr(r, f"derivMatrix-Cardinal-{hname}-offdiagonal", np.where(diag, 0, m), np.where(diag, 0, D), T)
                _close_arr(r, f"derivMatrix-Cardinal-{hname}-boundary-rows", m[[0, K]], D[[0, K]], T[[0, K]])
        ok, m = _try(r, f"derivMatrix-Chebyshev-{hname}-no-exception", lambda: host.derivMatrix("Chebyshev", d, ep))
        if ok:
            D = ax.deriv("Chebyshev")
            _close_arr(r, f"derivMatrix-Chebyshev-{hname}", m, D, np.ones((K + 1, 1)) * _tol_dT(ax.orders)[None, :])
    ok, _ = _try(r, "matrix-default-endpoints-is-False", lambda: hosts["same"].matrix("Chebyshev", d))
    if ok:
        axi = _axis(grid, M, N, d, False)
        _close_arr(r, "matrix-default-endpoints-is-False", hosts["same"].matrix("Chebyshev", d), axi.t2c(),
                   np.ones((axi.n, 1)) * _tol_T(axi.orders)[None, :] + 1e-30)
    r.tag(_tagbase(d, ep), f"restriction-{ax.restriction}")
    return _finish(r)


# ------------------------------------------------------------------------------ F: linearity
def case_linear(p: dict) -> dict:
    M, N, d, ep = p["M"], p["N"], p["d"], p["ep"]
    r = Rel(p["id"])
    grid = _grid(M, N)
    ax = _axis(grid, M, N, d, ep)
    _nodes_rel(r, grid, M, N, d)
    n, K = ax.n, ax.K
    al, be = 1.75, -0.625
    pts = np.array(O.OFFGRID + (-1.0, 1.0))
    for basis, other in (("Cardinal", "Chebyshev"), ("Chebyshev", "Cardinal")):
        u, v = _generic(n, 6), _generic(n, 7)[::-1].copy()
        mk = lambda c: _poly(c, grid, basis, d, ep)  # noqa: E731
        # the combination is built with the class's own arithmetic (__rmul__, __mul__, __add__, __sub__, __rsub__)
        ok, w = _try(r, f"lin-{basis}-arithmetic-no-exception", lambda: al * mk(u) + mk(v) * be)
        if not ok:
            continue
        _close_arr(r, f"lin-{basis}-arithmetic", w.coefficients, al * u + be * v, 4 * EPS * (np.abs(al * u) + np.abs(be * v)))
        r.true(f"lin-{basis}-arithmetic-labels", w.basis == (basis,) and w.direction == (d,) and w.endpoints == (ep,))
        ok, s = _try(r, f"lin-{basis}-sub-no-exception", lambda: mk(u) - mk(v))
        if ok:
            _close_arr(r, f"lin-{basis}-sub", s.coefficients, u - v, 4 * EPS * (np.abs(u) + np.abs(v)))
        ok, s = _try(r, f"lin-{basis}-rsub-no-exception", lambda: mk(u).__rsub__(mk(v)))
        if ok:
            _close_arr(r, f"lin-{basis}-rsub", s.coefficients, v - u, 4 * EPS * (np.abs(u) + np.abs(v)))
        ok, z = _try(r, f"lin-{basis}-zero-no-exception", lambda: mk(u) * 0.0)
        mag = np.abs(al * u) + np.abs(be * v)
        # F(al u + be v) == al F(u) + be F(v), F in {changeBasis, evaluate, derivative, integrate}
        # tolerance: 64*eps*(K+1)^2 * |F| applied to |al u|+|be v| (each F is a matrix with entries bounded in A-E)
        def lin(name, F, absF):
            try:
                lhs = np.asarray(F(mk(al * u + be * v)), dtype=float)
                rhs = al * np.asarray(F(mk(u)), dtype=float) + be * np.asarray(F(mk(v)), dtype=float)
            except Exception as e:
                r.true(f"lin-{basis}-{name}-no-exception", False, error=repr(e))
                return
            _close_arr(r, f"lin-{basis}-{name}", lhs, rhs, 64 * EPS * (K + 1) ** 2 * absF + 1e-30)
            # homogeneity over many orders of magnitude: F(c u) == c F(u) for coefficients that are numerically tiny or huge
            # (a power of two: the scaling itself is exact, so any difference is an absolute constant inside F)
            for c in (2.0**-60, 2.0**60):
                try:
                    big = np.asarray(F(mk(c * u)), dtype=float)
                    r.true(f"lin-{basis}-{name}-homogeneous(c={c:.3g})", np.array_equal(big, c * np.asarray(F(mk(u)), dtype=float)))
                except Exception as e:
                    r.true(f"lin-{basis}-{name}-homogeneous-no-exception", False, error=repr(e))
            if ok:
                zz = np.asarray(F(mk(np.zeros(n))), dtype=float)
                r.true(f"lin-{basis}-{name}-zero-maps-to-zero", np.all(zz == 0))

        R = ax.c2t() if other == "Chebyshev" else ax.t2c()

        def f_cb(q):
            q.changeBasis(other)
            return q.coefficients

        lin("changeBasis", f_cb, np.abs(R) @ mag * (np.linalg.cond(ax.t2c()) if other == "Chebyshev" else 1.0))
        V = ax.values(basis, pts)
        lin("evaluate", lambda q: q.evaluate(pts[None, :]), np.abs(V) @ mag)
        Dm = ax.deriv(basis)
        sc = _card_deriv_scale(ax) if basis == "Cardinal" else np.abs(Dm)
        lin("derivative", lambda q: q.derivative(0).coefficients, sc @ mag)
        cls = ax.class_table(basis, 1)
        for k in (0, 1):
            if all(cls[b][k] for b in range(n)):
                wk = ax.weight(k)
                x = np.array([ax.xfull[i] for i in ax.kept])
                absint = np.sum(np.pi / K * np.abs(wk) * np.sqrt(1 - x**2)[:, None] * np.abs(ax.t2c() if basis == "Chebyshev" else np.eye(n)), axis=0)
                lin(f"integrate-k{k}", lambda q: q.integrate(weight=wk), float(absint @ mag))
                r.tag("linear-integrate")
    r.tag(_tagbase(d, ep))
    return _finish(r)


# ------------------------------------------------------------------------------ lattices of the 1-D sections
PRODUCTION = [(20, 11), (40, 11), (40, 21)]


def sizes(tier: str) -> list[tuple[int, int]]:
    Ms = list(range(2, 11))
    Ns = [3, 5, 7, 9, 11]
    out = [(m, n) for m in Ms for n in Ns]
    if tier == "thorough":
        out += [(m, n) for m in range(2, 17) for n in (3, 5, 7, 9, 11, 13, 15) if (m, n) not in out]
        out += PRODUCTION
    return out


def cases_1d(tier: str) -> list[dict]:
    out = []
    for (M, N) in sizes(tier):
        for d in O.DIRECTIONS:
            for ep in (False, True):
                out.append({"M": M, "N": N, "d": d, "ep": ep, "id": f"M={M},N={N},dir={d},endpoints={ep}"})
    return out


# ------------------------------------------------------------------------------ G: multi-axis arrays
# An axis spec is a string: "A<size>" (an 'Array' axis) or "<dir>:<0|1>:<C|T>" (direction, endpoints, basis).
BASISNAME = {"C": "Cardinal", "T": "Chebyshev"}
SPECS12 = [f"{d}:{e}:{b}" for d in O.DIRECTIONS for e in (0, 1) for b in ("C", "T")]
MULTI_PTS = np.array([[0.3, -0.85], [-0.55, 0.6], [0.93, -0.07], [-0.3, 0.45]])  # row = axis slot, column = point


class _Ax:
    """One axis of a multi-axis coefficient array with its 1-D reference operators (float64 from the oracle)."""

    def __init__(self, grid, M, N, spec: str):
        self.spec = spec
        if spec.startswith("A"):
            self.kind, self.size = "A", int(spec[1:])
            self.basis, self.direction, self.endpoints, self.K = "Array", "Array", False, 0
            return
        d, e, b = spec.split(":")
        self.kind, self.direction, self.endpoints, self.basis = "P", d, bool(int(e)), BASISNAME[b]
        self.ax = _axis(grid, M, N, d, self.endpoints)
        self.axfull = _axis(grid, M, N, d, True)
        self.size, self.K = self.ax.n, self.ax.K

    def other(self):
        return "Chebyshev" if self.basis == "Cardinal" else "Cardinal"

    def cb(self, basis=None):
        """(matrix, |terms| matrix) of the change from `basis` (default: own) to the other basis."""
        basis = basis or self.basis
        if basis == "Cardinal":
            R = self.ax.c2t()
            return R, np.abs(R) * float(np.linalg.cond(self.ax.t2c()))
        R = self.ax.t2c()
        return R, np.abs(R)

    def deriv(self):
        D = self.ax.deriv(self.basis)
        return D, (_card_deriv_scale(self.ax) if self.basis == "Cardinal" else np.abs(D))

    def values(self, pts):
        V = self.ax.values(self.basis, pts)
        return V, np.abs(V)

    def int_ok(self, k):
        cls = self.ax.class_table(self.basis, 1)
        return all(row[k] for row in cls)

    def integ(self, k):
        q = self.ax.integrals(self.basis, 1)[:, k]
        x = np.array([self.ax.xfull[i] for i in self.ax.kept])
        W = np.array([np.pi / self.K / (2 if i in (0, self.K) else 1) for i in self.ax.kept])
        g = np.abs(np.array([float(O.g_value(self.ax.fam, xi)) for xi in x]))
        vals = np.abs(self.ax.t2c()) if self.basis == "Chebyshev" else np.eye(self.size)
        qabs = (W * np.abs(x) ** k * g) @ vals + 4 * np.pi * (self.K + 3) ** 2 * 2.0 * self.ax.l1(self.basis) / 64.0
        return q, qabs

    def weight(self, k):
        return self.ax.weight(k)


def _apply(Mat, C, i):
    """Contract matrix Mat (m x n_i) with axis i of C, result axis stays at position i."""
    return np.moveaxis(np.tensordot(Mat, C, axes=(1, i)), 0, i)


def _contract(vec, C, i):
    return np.tensordot(C, vec, axes=(i, 0))


def _labels(axes):
    return (tuple(a.basis for a in axes), tuple(a.direction for a in axes), tuple(a.endpoints for a in axes))


def _evalref(C, axes, sel, cols):
    """Reference of Polynomial.evaluate along axes `sel`: result[p, rest...] with point p using MULTI_PTS[slot, p]."""
    npts = len(cols)
    res = np.broadcast_to(C, (npts,) + C.shape).copy()
    resabs = np.abs(res)
    for slot, i in sorted(enumerate(sel), key=lambda t: -t[1]):  # contract the highest axis first: positions stay valid
        V, Va = axes[i].values(MULTI_PTS[slot, cols])
        res = np.einsum("p...k,pk->p...", np.moveaxis(res, i + 1, -1), V)
        resabs = np.einsum("p...k,pk->p...", np.moveaxis(resabs, i + 1, -1), Va)
    return res, resabs


class _Acc:
    """Worst residual/tolerance per relation name over many basis tensors (keeps violation keys few and stable)."""

    def __init__(self):
        self.worst: dict[str, tuple] = {}
        self.count: dict[str, int] = {}

    def close(self, name, got, want, tol, where):
        self.count[name] = self.count.get(name, 0) + 1
        try:
            got = np.asarray(got, dtype=float)
            want = np.asarray(want, dtype=float)
            if got.shape != want.shape:
                ratio, det = float("inf"), {"shape_got": got.shape, "shape_want": want.shape}
            else:
                err = float(np.max(np.abs(got - want))) if want.size else 0.0
                if err != err:
                    ratio, det = float("inf"), {"err": "nan"}
                else:
                    ratio = err / tol if tol > 0 else (0.0 if err == 0 else float("inf"))
                    det = {"err": err, "tol": tol}
        except Exception as e:
            ratio, det = float("inf"), {"error": repr(e)}
        if name not in self.worst or ratio > self.worst[name][0]:
            self.worst[name] = (ratio, {**det, "where": where})

    def true(self, name, cond, where, **extra):
        self.count[name] = self.count.get(name, 0) + 1
        ratio = 0.0 if cond else float("inf")
        if name not in self.worst or ratio > self.worst[name][0]:
            self.worst[name] = (ratio, {"where": where, **extra})

    def fail(self, name, where, error):
        self.true(name, False, where, error=error)

    def flush(self, r: Rel):
        for name in sorted(self.worst):
            ratio, det = self.worst[name]
            r.n += self.count[name]
            if ratio > 1:
                r.viol.append({"relation": name, "detail": det})
            elif ratio == ratio:
                r.margin = max(r.margin, ratio)


def _array_vector(size, slot):
    base = np.array([1.0, -2.0, 0.5, 3.0, -0.75])
    return np.array([base[i % 5] * (1 + i // 5) for i in range(size)]) * (1.0 + 0.5 * slot)


def _multi_ops(acc: _Acc, grid, axes, C, where, ftol):
    """All single-axis and all-axes operations on the coefficient tensor C; ftol = 64*eps*(Kmax+1)^2."""
    rank = len(axes)
    pax = [i for i, a in enumerate(axes) if a.kind == "P"]
    B, Dr, E = _labels(axes)
    absC = np.abs(C)

    def mk():
        return _poly(C, grid, B, Dr, E)

    def tol(scale):
        return ftol * float(np.max(scale)) + 1e-30

    # --- changeBasis: one axis at a time (and back), then all polynomial axes at once
    allwant, allabs, alltarget = C, absC, list(B)
    for i in pax:
        R, Ra = axes[i].cb()
        target = list(B)
        target[i] = axes[i].other()
        want, wabs = _apply(R, C, i), _apply(Ra, absC, i)
        allwant, allabs = _apply(R, allwant, i), _apply(Ra, allabs, i)
        alltarget[i] = axes[i].other()
        q = mk()
        try:
            q.changeBasis(tuple(target))
            acc.close(f"cb-axis{i}", q.coefficients, want, tol(wabs), where)
            acc.true(f"cb-axis{i}-labels", q.basis == tuple(target) and q.direction == Dr and q.endpoints == E, where, basis=q.basis)
            q.changeBasis(B)
            Rb, Rba = axes[i].cb(axes[i].other())
            acc.close(f"cb-roundtrip-axis{i}", q.coefficients, C, tol(_apply(Rba, wabs, i)), where)
        except Exception as e:
            acc.fail(f"cb-axis{i}", where, repr(e))
    if len(pax) >= 2:
        q = mk()
        try:
            q.changeBasis(tuple(alltarget))
            acc.close("cb-all", q.coefficients, allwant, tol(allabs) * len(pax), where)
        except Exception as e:
            acc.fail("cb-all", where, repr(e))
    # --- derivative
    allwant, allabs = C, absC
    for i in pax:
        Dm, Da = axes[i].deriv()
        want, wabs = _apply(Dm, C, i), _apply(Da, absC, i)
        allwant, allabs = _apply(Dm, allwant, i), _apply(Da, allabs, i)
        q = mk()
        try:
            dq = q.derivative(i)
            acc.close(f"d-axis{i}", dq.coefficients, want, tol(wabs), where)
            wb = tuple("Cardinal" if j == i else B[j] for j in range(rank))
            we = tuple(True if j == i else E[j] for j in range(rank))
            acc.true(f"d-axis{i}-labels", dq.basis == wb and dq.endpoints == we and dq.direction == Dr, where, basis=dq.basis, endpoints=dq.endpoints)
            acc.true(f"d-axis{i}-pure", np.array_equal(q.coefficients, C) and q.basis == B, where)
        except Exception as e:
            acc.fail(f"d-axis{i}", where, repr(e))
    if len(pax) >= 2:
        q = mk()
        try:
            dq = q.derivative(tuple(pax))
            acc.close("d-all", dq.coefficients, allwant, tol(allabs) * len(pax), where)
        except Exception as e:
            acc.fail("d-all", where, repr(e))
    # --- evaluate (2-D point form for subsets of axes; point p of slot s is MULTI_PTS[s, p])
    cols = [0, 1]
    for i in pax:
        want, wabs = _evalref(C, axes, (i,), cols)
        q = mk()
        try:
            got = q.evaluate(MULTI_PTS[:1, cols], axes=(i,))
            acc.close(f"ev-axis{i}", got, want, tol(wabs), where)
        except Exception as e:
            acc.fail(f"ev-axis{i}", where, repr(e))
    if len(pax) >= 2 or len(pax) == rank:
        want, wabs = _evalref(C, axes, tuple(pax), cols)
        q = mk()
        try:
            got = q.evaluate(MULTI_PTS[: len(pax), cols], axes=tuple(pax))
            acc.close("ev-all", got, want, tol(wabs) * len(pax), where)
            if len(pax) == rank:  # axes=None means all axes; single-point form returns a float
                got = q.evaluate(MULTI_PTS[:rank, cols])
                acc.close("ev-all-default-axes", got, want, tol(wabs) * len(pax), where)
                g1 = q.evaluate(MULTI_PTS[:rank, 0])
                acc.true("ev-all-single-is-float", isinstance(g1, float), where)
                acc.close("ev-all-single", g1, want[0], tol(wabs) * len(pax), where)
        except Exception as e:
            acc.fail("ev-all", where, repr(e))
    # --- integrate (weights inside the computed exactness class only)
    for k in (0, 1):
        okaxes = [i for i in pax if axes[i].int_ok(k)]
        allwant, allabs, allw = C, absC, np.ones((1,) * rank)
        for i in sorted(okaxes, reverse=True):
            qv, qa = axes[i].integ(k)
            shape = [1] * rank
            shape[i] = axes[i].size
            w = axes[i].weight(k).reshape(shape)
            want, wabs = _contract(qv, C, i), _contract(qa, absC, i)
            allwant, allabs, allw = _contract(qv, allwant, i), _contract(qa, allabs, i), allw * w
            q = mk()
            try:
                res = q.integrate(i, w)
                got = res if isinstance(res, float) else res.coefficients
                acc.close(f"int-k{k}-axis{i}", got, want, tol(wabs), where)
                if not isinstance(res, float):
                    keep = [j for j in range(rank) if j != i]
                    acc.true(f"int-k{k}-axis{i}-labels", res.basis == tuple(B[j] for j in keep) and res.direction == tuple(Dr[j] for j in keep)
                             and res.endpoints == tuple(E[j] for j in keep), where, basis=res.basis, direction=res.direction)
                else:
                    acc.true(f"int-k{k}-axis{i}-labels", rank == 1, where)
                # in place: axis i now Cardinal, same function
                if axes[i].basis == "Chebyshev":
                    R, Ra = axes[i].cb()
                    acc.close(f"int-k{k}-axis{i}-inplace-function-unchanged", q.coefficients, _apply(R, C, i), tol(_apply(Ra, absC, i)), where)
                else:
                    acc.true(f"int-k{k}-axis{i}-inplace-function-unchanged", np.array_equal(q.coefficients, C), where)
                acc.true(f"int-k{k}-axis{i}-inplace-labels", q.basis == tuple("Cardinal" if j == i else B[j] for j in range(rank)), where, basis=q.basis)
            except Exception as e:
                acc.fail(f"int-k{k}-axis{i}", where, repr(e))
        if len(okaxes) >= 2 and okaxes == pax:
            q = mk()
            try:
                res = q.integrate(tuple(pax), allw)
                got = res if isinstance(res, float) else res.coefficients
                acc.close(f"int-k{k}-all", got, allwant, tol(allabs) * len(pax), where)
                if len(pax) == rank:
                    acc.true(f"int-k{k}-all-is-float", isinstance(res, float), where)
                    res2 = mk().integrate(None, allw)
                    acc.true(f"int-k{k}-all-axis-None-same", res2 == res, where)
            except Exception as e:
                acc.fail(f"int-k{k}-all", where, repr(e))


def case_multi(p: dict) -> dict:
    M, N, specs = p["M"], p["N"], p["specs"]
    r = Rel(p["id"])
    grid = _grid(M, N)
    for d in O.DIRECTIONS:
        _guard_nodes(r, grid, M, N, d)
    axes = [_Ax(grid, M, N, s) for s in specs]
    Kmax = max(a.K for a in axes)
    ftol = 64 * EPS * (Kmax + 1) ** 2  # one-hot input: every result entry is a product of 1-D reference entries (bounds of A-E)
    acc = _Acc()
    pax = [i for i, a in enumerate(axes) if a.kind == "P"]
    ranges = [range(a.size) if a.kind == "P" else [None] for a in axes]
    ntens = 0
    if p.get("mode") == "product":  # production sizes: one separable generic tensor instead of the complete basis
        vecs = [_generic(a.size, 8 + i) if a.kind == "P" else _array_vector(a.size, i) for i, a in enumerate(axes)]
        C = functools.reduce(np.multiply.outer, vecs)
        _multi_ops(acc, grid, axes, C, "separable-generic", ftol * len(axes))
        ntens = 1
    else:
        for idx in itertools.product(*ranges):
            vecs = [_onehot(a.size, j) if a.kind == "P" else _array_vector(a.size, i) for i, (a, j) in enumerate(zip(axes, idx))]
            C = functools.reduce(np.multiply.outer, vecs)
            _multi_ops(acc, grid, axes, C, [j for j in idx], ftol)
            ntens += 1
    acc.flush(r)
    r.detail.update(tensors=ntens, shape=[a.size for a in axes])
    r.tag(f"rank{len(axes)}", "pattern-" + "".join(a.kind for a in axes))
    for a in axes:
        if a.kind == "P":
            r.tag("axis-" + a.spec)
    return _finish(r)


def cases_rank2(tier: str) -> list[dict]:
    szs = [(2, 3), (3, 5), (5, 3), (4, 7)]
    if tier == "thorough":
        szs += [(7, 5), (6, 9), (10, 11)]
    out = []
    for (M, N) in szs:
        for s0 in SPECS12:
            for s1 in SPECS12:
                out.append({"M": M, "N": N, "specs": [s0, s1], "id": f"M={M},N={N},axes={s0}|{s1}"})
    return out


def cases_rankn(tier: str) -> list[dict]:
    out = []
    for rank, szs in ((3, [(3, 3), (2, 5)] + ([(4, 5), (5, 7)] if tier == "thorough" else [])),
                      (4, [(2, 3), (3, 3)] + ([(3, 5)] if tier == "thorough" else []))):
        for pattern in itertools.product("AP", repeat=rank):
            for rot in range(12 if tier == "thorough" else 4):
                step = 1 if tier == "thorough" else 3
                specs, slot = [], 0
                for pos, c in enumerate(pattern):
                    if c == "A":
                        specs.append(f"A{2 + pos % 2}")
                    else:
                        specs.append(SPECS12[(rot * step + 5 * slot) % 12])  # stride 5 is coprime with 12: all specs appear in every slot
                        slot += 1
                if slot == 0 and rot > 0:
                    continue  # all-Array pattern has no rotation
                for (M, N) in szs:
                    out.append({"M": M, "N": N, "specs": specs, "id": f"M={M},N={N},axes={'|'.join(specs)}"})
    # the Boltzmann layout (Array, z, pz, pp) interior, at production sizes: one separable generic tensor (thorough)
    if tier == "thorough":
        for (M, N) in PRODUCTION:
            for b in ("C", "T"):
                specs = ["A3", f"z:0:{b}", f"pz:0:{b}", f"pp:0:{b}"]
                out.append({"M": M, "N": N, "specs": specs, "mode": "product", "id": f"M={M},N={N},axes={'|'.join(specs)},separable"})
    seen, uniq = set(), []
    for c in out:
        if c["id"] not in seen:
            seen.add(c["id"])
            uniq.append(c)
    return uniq


# ------------------------------------------------------------------------------ H: BFS over operation sequences
# Reference model: the REPRESENTED FUNCTION, stored as a tensor F of unrestricted Chebyshev coefficients along every
# polynomial axis (raw values along Array axes).  The real object is interpreted independently of WallGo: its
# coefficient array is expanded with the oracle's basis functions according to the labels the object carries.
H_INITS = {
    "z-int-C|pz-ep-T@M3N3": dict(M=3, N=3, specs=["z:0:C", "pz:1:T"]),
    "A2|pp-int-T|z-ep-C@M2N5": dict(M=2, N=5, specs=["A2", "pp:0:T", "z:1:C"]),
    "pp-ep-C|pz-int-C@M4N5": dict(M=4, N=5, specs=["pp:1:C", "pz:0:C"]),
    "z-int-T@M5N3": dict(M=5, N=3, specs=["z:0:T"]),
    "A2|z-int-C|pz-int-C|pp-int-C@M3N3": dict(M=3, N=3, specs=["A2", "z:0:C", "pz:0:C", "pp:0:C"]),
    "pz-int-T|A3@M2N5": dict(M=2, N=5, specs=["pz:0:T", "A3"]),
    "pz-int-C|pz-int-T@M3N5": dict(M=3, N=5, specs=["pz:0:C", "pz:0:T"]),  # equal sizes, different bases: mislabelling is silent
}
H_INITS_THOROUGH = {
    "pp-int-C|z-int-T@M4N7": dict(M=4, N=7, specs=["pp:0:C", "z:0:T"]),
    "pz-ep-C|pp-ep-T|z-ep-T@M3N5": dict(M=3, N=5, specs=["pz:1:C", "pp:1:T", "z:1:T"]),
    "A2|z-int-T|pz-int-T|pp-int-T@M4N5": dict(M=4, N=5, specs=["A2", "z:0:T", "pz:0:T", "pp:0:T"]),
    "z-ep-T|A2|pz-int-C@M6N5": dict(M=6, N=5, specs=["z:1:T", "A2", "pz:0:C"]),
    "pp-int-T@M2N9": dict(M=2, N=9, specs=["pp:0:T"]),
    "pz-int-C|pz-int-T@M3N7": dict(M=3, N=7, specs=["pz:0:C", "pz:0:T"]),
}
G_DEG = {"one": 0, "onepx": 1, "omx2": 2}


def _cheb_row(K, x):
    T = [1.0, float(x)]
    for _ in range(2, K + 1):
        T.append(2 * x * T[-1] - T[-2])
    return np.array(T[: K + 1])


def _cheb_deriv_matrix(K):
    """(K+1)x(K+1): Chebyshev coefficients of P' from those of P (b_{n-1} = b_{n+1} + 2 n a_n, b_0 halved)."""
    Dm = np.zeros((K + 1, K + 1))
    for col in range(K + 1):
        a = np.zeros(K + 2)
        a[col] = 1.0
        b = np.zeros(K + 3)
        for n in range(K, 0, -1):
            b[n - 1] = b[n + 1] + 2 * n * a[n]
        b[0] /= 2
        Dm[:, col] = b[: K + 1]
    return Dm


def _moment_vector(K, k, fam):
    return np.array([float(sum(c * O.moment_T(n, k + pw) for c, pw in O.G_FAMILIES[fam])) for n in range(K + 1)])


class HS:
    """One BFS state: the real Polynomial (or a float) plus the function-level model."""

    def __init__(self, init: dict):
        self.M, self.N = init["M"], init["N"]
        self.grid = _grid(self.M, self.N)
        axes = [_Ax(self.grid, self.M, self.N, s) for s in init["specs"]]
        shape = tuple(a.size for a in axes)
        flat = np.arange(int(np.prod(shape)))
        C = (((7 * flat + 3) % 11) - 5.0 + 0.125 * (1 + flat % 3)).reshape(shape) / 4.0  # generic, not separable
        B, Dr, E = _labels(axes)
        self.poly = _poly(C, self.grid, B, Dr, E)
        self.scalar = None
        self.F = self.interpret(self.poly)[0]
        self.deg = [a.K if a.kind == "P" else None for a in axes]
        self.S = float(np.max(np.abs(C)))
        self.pending: list[dict] = []
        self.nrel = 0
        self.margin = 0.0
        self.depth = 0

    # -- independent reading of the real object ---------------------------------------
    def ax_of(self, poly, i) -> O.Axis:
        return _axis(self.grid, self.M, self.N, poly.direction[i], bool(poly.endpoints[i]))

    def interpret(self, poly):
        C = np.asarray(poly.coefficients, dtype=float)
        F, Fa = C, np.abs(C)
        for i in range(C.ndim):
            if poly.basis[i] != "Array":
                E = self.ax_of(poly, i).embed(poly.basis[i])
                F, Fa = _apply(E, F, i), _apply(np.abs(E), Fa, i)
        return F, Fa

    def Kmax(self):
        return max([k for k in self.deg if k is not None] + [1])

    def labels_consistent(self, poly) -> bool:
        C = np.asarray(poly.coefficients)
        if not (len(poly.basis) == len(poly.direction) == len(poly.endpoints) == C.ndim):
            return False
        for i in range(C.ndim):
            if poly.basis[i] != "Array":
                if poly.direction[i] not in O.DIRECTIONS:
                    return False
                if C.shape[i] != self.ax_of(poly, i).n:
                    return False
        return True

    # -- relations ----------------------------------------------------------------------
    def rel_close(self, name, got, want, scale):
        """tol = 64*eps*(Kmax+1)^2*(depth+1)*scale: every step is a contraction with a 1-D operator whose entries
        are accurate to 8*eps*(K+1)^2 relative to the magnitude of the terms (sections A-E)."""
        self.nrel += 1
        tol = 64 * EPS * (self.Kmax() + 1) ** 2 * (self.depth + 1) * max(scale, 1e-300) + 1e-30
        try:
            got = np.asarray(got, dtype=float)
            want = np.asarray(want, dtype=float)
            if got.shape != want.shape:
                self.pending.append({"relation": name, "detail": {"shape_got": got.shape, "shape_want": want.shape}})
                return
            err = float(np.max(np.abs(got - want))) if want.size else 0.0
        except Exception as e:
            self.pending.append({"relation": name, "detail": {"error": repr(e)}})
            return
        if not err == err or err > tol:
            self.pending.append({"relation": name, "detail": {"err": err, "tol": tol, "got": got, "want": want}})
        else:
            self.margin = max(self.margin, err / tol)

    def rel_true(self, name, cond, **extra):
        self.nrel += 1
        if not cond:
            self.pending.append({"relation": name, "detail": extra})

    def invariant(self):
        if self.poly is None:
            return
        ok = self.labels_consistent(self.poly)
        self.rel_true("labels-consistent-with-shape", ok, basis=self.poly.basis, direction=self.poly.direction,
                      endpoints=self.poly.endpoints, shape=np.asarray(self.poly.coefficients).shape)
        if ok:
            # which axes are polynomial axes is part of the represented function
            kinds = [b != "Array" for b in self.poly.basis]
            ok = kinds == [dg is not None for dg in self.deg]
            self.rel_true("axis-kinds-equal-model", ok, basis=self.poly.basis, model_polynomial_axes=[dg is not None for dg in self.deg])
        if ok:
            F, Fa = self.interpret(self.poly)
            self.S = max(self.S, float(np.max(Fa)) if Fa.size else 0.0)
            self.rel_close("represented-function-equals-model", F, self.F, self.S)

    def key(self):
        from ..bfs import digest

        if self.poly is None:
            return digest({"scalar": self.scalar})
        return digest({"c": np.asarray(self.poly.coefficients, dtype=float), "b": list(self.poly.basis), "d": list(self.poly.direction),
                       "e": [bool(x) for x in self.poly.endpoints], "deg": self.deg})

    def snapshot(self):
        p = self.poly
        return (np.array(p.coefficients, dtype=float, copy=True), tuple(p.basis), tuple(p.direction), tuple(p.endpoints))

    def same_as(self, snap) -> bool:
        p = self.poly
        return (np.array_equal(np.asarray(p.coefficients, dtype=float), snap[0]) and tuple(p.basis) == snap[1]
                and tuple(p.direction) == snap[2] and tuple(p.endpoints) == snap[3])


def h_ops(st: HS, hist) -> list:
    if st.poly is None:
        return []
    p = st.poly
    rank = len(p.basis)
    pax = [i for i in range(rank) if p.basis[i] != "Array"]
    aax = [i for i in range(rank) if p.basis[i] == "Array"]
    ops = []
    if pax:
        ops += [["cb", "C"], ["cb", "T"], ["cb", "alt"], ["cb", "alt2"], ["ev"]]
        if rank >= 2:
            ops += [["ev1", i] for i in pax]
        ops += [["d", i] for i in pax]
        if len(pax) >= 2:
            ops.append(["d", "all"])
        for i in pax:
            ax = st.ax_of(p, i)
            for k in (0, 1):
                if st.deg[i] + k + G_DEG[ax.fam] <= O.exactness_degree(ax.K):
                    ops += [["int", i, k, "self"], ["int", i, k, "res"]]
    ops += [["mul", "s"], ["rmul", "s"], ["add", "self"], ["sub", "scaled"], ["mul", "one"]]
    big = [i for i in aax if np.asarray(p.coefficients).shape[i] > 1]
    if big:
        ops += [["mul", "arr"], ["get", "arr-first"], ["get", "arr-last"]]
    if rank <= 5:
        # NOTE: the key shapes p[None, :, ...] / p[None, :] ("none-lead-slices", "none-lead-one-slice") are NOT in the
        # alphabet: Polynomial.__getitem__ mislabels the axes there (labels looked up with the key position instead of the
        # axis counter), but indexing is not one of the operations C16's statement covers, so demanding it would be more
        # than the property states (recorded as an out-of-scope observation in DESIGN.md section 5).
        ops += [["get", "none-lead"], ["get", "none-after-first"]]
    ops.append(["get", "slices"])
    if pax and pax[0] == 0 and p.basis[0] == "Cardinal" and rank >= 1:
        ops.append(["get", "node"])
    return ops


def _cb_target(p, which):
    out, slot = [], 0
    for b in p.basis:
        if b == "Array":
            out.append("Array")
            continue
        if which == "C":
            out.append("Cardinal")
        elif which == "T":
            out.append("Chebyshev")
        else:
            first = "Chebyshev" if which == "alt" else "Cardinal"
            second = "Cardinal" if which == "alt" else "Chebyshev"
            out.append(first if slot % 2 == 0 else second)
        slot += 1
    return tuple(out)


def h_apply(st: HS, op):
    """Execute op on the real object and on the model; disagreement goes to st.pending. Returns a small outcome."""
    st.pending = []
    st.depth += 1
    p = st.poly
    rank = len(p.basis)
    pax = [i for i in range(rank) if p.basis[i] != "Array"]
    name = op[0]
    snap = st.snapshot()
    try:
        if name == "cb":
            target = _cb_target(p, op[1])
            p.changeBasis(target)
            st.rel_true("cb-labels", tuple(p.basis) == target and tuple(p.direction) == snap[2] and tuple(p.endpoints) == snap[3], basis=p.basis)
            return {"basis": list(p.basis)}
        if name in ("ev", "ev1"):
            sel = tuple(pax) if name == "ev" else (op[1],)
            pts = MULTI_PTS[: len(sel), :2]
            got = p.evaluate(pts, axes=sel)
            want, wabs = np.broadcast_to(st.F, (2,) + st.F.shape), np.broadcast_to(np.abs(st.F), (2,) + st.F.shape)
            for slot, i in sorted(enumerate(sel), key=lambda t: -t[1]):
                V = np.array([_cheb_row(st.deg[i], x) for x in pts[slot]])
                want = np.einsum("p...k,pk->p...", np.moveaxis(want, i + 1, -1), V)
                wabs = np.einsum("p...k,pk->p...", np.moveaxis(wabs, i + 1, -1), np.abs(V))
            # the result still carries coefficients along the polynomial axes that were not evaluated: expand them
            rest = [j for j in range(rank) if j not in sel]
            got = np.asarray(got, dtype=float)
            if got.shape == (2,) + tuple(snap[0].shape[j] for j in rest):
                for pos, j in enumerate(rest):
                    if p.basis[j] != "Array":
                        got = _apply(st.ax_of(p, j).embed(p.basis[j]), got, pos + 1)
            st.rel_close(f"{name}-value", got, want, max(st.S, float(np.max(wabs))))
            st.rel_true(f"{name}-pure", st.same_as(snap))
            return {"value": np.asarray(got)}
        if name == "d":
            sel = tuple(pax) if op[1] == "all" else (op[1],)
            new = p.derivative(sel if op[1] == "all" else op[1])
            st.rel_true("d-pure", st.same_as(snap))
            for i in sel:
                st.F = _apply(_cheb_deriv_matrix(st.deg[i]), st.F, i)
                st.S *= max(st.deg[i], 1) ** 2  # |T_n'| <= n^2
            st.rel_true("d-labels", all(new.basis[i] == "Cardinal" and new.endpoints[i] is True for i in sel) and tuple(new.direction) == snap[2], basis=new.basis, endpoints=new.endpoints)
            st.poly = new
            return {"rank": len(new.basis)}
        if name == "int":
            i, k, cont = op[1], op[2], op[3]
            ax = st.ax_of(p, i)
            shape = [1] * rank
            shape[i] = ax.n
            res = p.integrate(i, ax.weight(k).reshape(shape))
            mv = _moment_vector(st.deg[i], k, ax.fam)
            Fint = _contract(mv, st.F, i)
            Fabs = _contract(np.abs(mv), np.abs(st.F), i)
            # in place: integrated axis now Cardinal, everything else as before; the invariant compares the function
            st.rel_true("int-inplace-labels", tuple(p.basis) == tuple("Cardinal" if j == i else snap[1][j] for j in range(rank))
                        and tuple(p.direction) == snap[2] and tuple(p.endpoints) == snap[3], basis=p.basis)
            # Markov node term of the quadrature (see _int_tol): 4*pi*eps*deg^2*max|f| expressed as a scale
            scale = max(st.S * np.pi, float(np.max(Fabs)) if np.ndim(Fabs) else float(Fabs))
            if isinstance(res, float):
                st.rel_true("int-float-only-for-rank-1", rank == 1, rank=rank)
                st.rel_close("int-value", res, Fint, scale)
            else:
                keep = [j for j in range(rank) if j != i]
                st.rel_true("int-result-labels", tuple(res.basis) == tuple(snap[1][j] for j in keep) and tuple(res.direction) == tuple(snap[2][j] for j in keep)
                            and tuple(res.endpoints) == tuple(snap[3][j] for j in keep), basis=res.basis, direction=res.direction, endpoints=res.endpoints)
                if st.labels_consistent(res):
                    st.rel_close("int-value", st.interpret(res)[0], Fint, scale)
            if cont == "res":
                st.F = Fint
                st.deg = [dg for j, dg in enumerate(st.deg) if j != i]
                st.S = scale
                if isinstance(res, float):
                    st.poly, st.scalar = None, res
                else:
                    st.poly = res
            return {"result": res if isinstance(res, float) else np.asarray(res.coefficients)}
        if name in ("mul", "rmul", "add", "sub"):
            from WallGo.polynomial import Polynomial

            if op == ["mul", "s"]:
                new, fac = p * 2.5, 2.5
            elif op == ["rmul", "s"]:
                new, fac = (-0.5) * p, -0.5
            elif op == ["add", "self"]:
                new, fac = p + p, 2.0
            elif op == ["sub", "scaled"]:
                new, fac = p - p * 0.25, 0.75
            elif op == ["mul", "one"]:
                one = Polynomial(np.full((1,) * rank, 3.0), st.grid, "Array", "Array", False)
                new, fac = p * one, 3.0
            else:  # ["mul", "arr"]: scale the slices of the first non-trivial Array axis
                a = [i for i in range(rank) if p.basis[i] == "Array" and np.asarray(p.coefficients).shape[i] > 1][0]
                size = np.asarray(p.coefficients).shape[a]
                shape = [1] * rank
                shape[a] = size
                vec = _array_vector(size, 0)
                new, fac = p * vec.reshape(shape), vec.reshape(shape[: a + 1] + [1] * (st.F.ndim - a - 1))
            st.rel_true(f"{name}-pure", st.same_as(snap))
            # direction/endpoints labels of 'Array' axes carry no meaning (p[None] itself writes ("Array","z",False)): not compared
            pa = [j for j in range(rank) if snap[1][j] != "Array"]
            st.rel_true(f"{name}-labels", tuple(new.basis) == snap[1] and all(new.direction[j] == snap[2][j] and new.endpoints[j] == snap[3][j] for j in pa),
                        basis=new.basis, direction=new.direction, endpoints=new.endpoints)
            st.F = st.F * fac
            st.S *= float(np.max(np.abs(fac)))
            st.poly = new
            return {"op": op[1], "coefficients": np.asarray(new.coefficients)}
        if name == "get":
            how = op[1]
            shape = np.asarray(p.coefficients).shape
            if how in ("arr-first", "arr-last"):
                a = [i for i in range(rank) if p.basis[i] == "Array" and shape[i] > 1][0]
                idx = 0 if how == "arr-first" else shape[a] - 1
                keyt = (slice(None),) * a + (idx,)
                new = p[keyt if len(keyt) > 1 else idx]
                st.F = np.take(st.F, idx, axis=a)
                st.deg = [dg for j, dg in enumerate(st.deg) if j != a]
            elif how == "none-lead":
                new = p[None]
                st.F, st.deg = st.F[None], [None] + st.deg
            elif how == "none-lead-slices":  # numpy-style p[None, :, :, ...]: same meaning as p[None]
                new = p[(None,) + (slice(None),) * rank]
                st.F, st.deg = st.F[None], [None] + st.deg
            elif how == "none-lead-one-slice":  # p[None, :] (trailing axes implied): same meaning as p[None]
                new = p[None, slice(None)]
                st.F, st.deg = st.F[None], [None] + st.deg
            elif how == "none-after-first":
                new = p[slice(None), None]
                st.F, st.deg = np.expand_dims(st.F, 1), st.deg[:1] + [None] + st.deg[1:]
            elif how == "slices":
                new = p[(slice(None),) * rank]
            else:  # node: integer index on a Cardinal axis = value at that kept node
                ax = st.ax_of(p, 0)
                j = min(1, ax.n - 1)
                new = p[j]
                st.F = _contract(_cheb_row(st.deg[0], ax.xfull[ax.kept[j]]), st.F, 0)
                st.deg = st.deg[1:]
            st.rel_true("get-pure", st.same_as(snap))
            if np.ndim(new.coefficients) == 0:
                st.rel_close("get-value", float(new.coefficients), st.F, st.S)
                st.poly, st.scalar = None, float(new.coefficients)
            else:
                st.poly = new
            return {"shape": list(np.shape(new.coefficients))}
        raise ValueError(f"unknown op {op}")
    except Exception as e:  # the property requires a value here: an exception is a violation; the state does not advance
        st.rel_true(f"{name}-no-exception", False, op=op, error=repr(e)[:300])
        st.failed = True
        return {"exception": type(e).__name__}


def _opstr(op):
    return ":".join(str(x) for x in op)


def case_bfs(params: dict) -> dict:
    from .. import bfs

    init = params["init"]
    depth = params["depth"]
    only_history = params.get("history")
    counters = {"rel": 0, "margin": 0.0}

    def build(hist):
        st = HS(init)
        st.failed = False
        for op in hist:
            h_apply(st, op)
            if not st.failed:
                st.invariant()
            if st.pending:  # a state reached through a violating step is reported once and not expanded (no cascades)
                st.failed = True
        st.nrel = 0
        st.pending = []
        st.depth = len(hist)
        return st

    def check(st, hist, op, outcome):
        pend = list(st.pending)
        st.pending = []
        if not getattr(st, "failed", False):
            st.invariant()
        pend += st.pending
        st.pending = []
        counters["rel"] += st.nrel
        st.nrel = 0
        counters["margin"] = max(counters["margin"], st.margin)
        h = ">".join(_opstr(o) for o in hist) or "init"
        return [{"relation": f"h[{h}]::{v['relation']}", "detail": v["detail"]} for v in pend]

    def ops(st, hist):
        return [] if getattr(st, "failed", False) else h_ops(st, hist)

    if only_history is not None:  # replay of one history
        st = HS(init)
        st.failed = False
        viol = []
        for n, op in enumerate(only_history):
            st.depth = n
            out = h_apply(st, op)
            viol += check(st, only_history[: n + 1], op, out)
        return {"id": params["id"], "verdict": "violation" if viol else "ok", "violations": viol, "relations": counters["rel"], "margin": counters["margin"]}

    res = bfs.explore(build, ops, h_apply, lambda st: st.key(), check, depth=depth, initial_histories=[[]])
    tags = [f"op-{k}" for k in sorted(res.outcomes)] + [f"vacuous-op-{k}" for k, v in sorted(res.outcomes.items()) if len(v) == 1 and k not in ("cb",)]
    # one violation per (first op sequence, relation): identical failures reached through longer histories are folded
    # (BFS order: the first occurrence has the shortest history; key = relation name + failing op)
    viol, seen, folded = [], {}, 0
    for v in res.violations:
        sig = (v["relation"].split("]::", 1)[1], _opstr(v["history"][-1]) if v["history"] else "init")
        if sig not in seen:
            seen[sig] = len(viol)
            viol.append({"relation": v["relation"], "detail": {**(v["detail"] or {}), "history": v["history"], "same_failure_in_other_histories": 0}})
        else:
            viol[seen[sig]]["detail"]["same_failure_in_other_histories"] += 1
            folded += 1
    return {
        "id": params["id"], "verdict": "violation" if viol else "ok", "violations": viol, "relations": counters["rel"],
        "margin": counters["margin"], "tags": tags, "nontrivial": True,
        "detail": {"states": res.states, "transitions": res.transitions, "max_depth": res.max_depth,
                   "distinct_outcomes": {k: len(v) for k, v in sorted(res.outcomes.items())}, "samples": res.samples},
    }


def cases_bfs(tier: str) -> list[dict]:
    inits = dict(H_INITS)
    if tier == "thorough":
        inits.update(H_INITS_THOROUGH)
    return [{"id": name, "init": init, "depth": 4 if tier == "thorough" else 3} for name, init in inits.items()]


# ------------------------------------------------------------------------------ driver
SECTIONS = {
    "changebasis": (cases_1d, case_changebasis),
    "evaluate": (cases_1d, case_evaluate),
    "derivative": (cases_1d, case_derivative),
    "integrate": (cases_1d, case_integrate),
    "matrices": (cases_1d, case_matrices),
    "linear": (cases_1d, case_linear),
    "rank2": (cases_rank2, case_multi),
    "rankn": (cases_rankn, case_multi),
    "bfs": (cases_bfs, case_bfs),
}


def _prefill(tier: str, only) -> None:
    """Build the reference tables for K <= 16 once in the parent; the forked workers inherit them (larger K: in the worker)."""
    for (M, N) in sizes(tier):
        grid = _grid(M, N)
        for d in O.DIRECTIONS:
            K = O.K_of(M, N, d)
            if K > 16:
                continue
            for ep in (False, True):
                ax = _axis(grid, M, N, d, ep)
                ax.c2t(), ax.t2c()
                for b in ("Cardinal", "Chebyshev"):
                    ax.deriv(b), ax.l1(b), ax.embed(b), ax.class_table(b, 1), ax.integrals(b, 1)
                    if only in (None, "evaluate"):
                        ax.values(b, np.array(O.OFFGRID)), ax.values(b, np.array(ax.xfull))
                    if only in (None, "integrate"):
                        ax.class_table(b, 2 * K + 1), ax.integrals(b, 2 * K + 1)


def run(ctx) -> None:
    _prefill(ctx.tier, ctx.only)
    for name, (gen, fn) in SECTIONS.items():
        if ctx.only and ctx.only != name:
            continue
        res = ctx.run_lattice(name, gen(ctx.tier), fn, timeout=900)
        ctx.note(f"margin_{name}", max([x.get("margin") or 0.0 for x in res] + [0.0]))
        ctx.note(f"margin_{name}_excl_node_relations",
                 max([(x.get("detail") or {}).get("margin_excl_nodes", x.get("margin") or 0.0) if isinstance(x.get("detail"), dict) else 0.0 for x in res] + [0.0]))
        if name == "bfs":
            for x in res:
                det = x.get("detail") or {}
                if isinstance(det, dict) and "states" in det:
                    ctx.add_bfs(det["states"], det["transitions"], det["transitions"])
            ctx.note("bfs_depth", 4 if ctx.tier == "thorough" else 3)
            ctx.note("bfs_per_initial_state", {x["id"]: x.get("detail") for x in res if isinstance(x.get("detail"), dict)})
    if not ctx.only:
        # finite spaces enumerated completely: complete bases per (M,N,direction,endpoints) of the stated size lattice,
        # all outer products in the multi-axis lattices, all op sequences of length <= 3 from the listed initial states
        ctx.exhaustive = True
        ctx.note("exhaustive_scope", f"complete bases of the listed grid sizes and all operation sequences up to depth {4 if ctx.tier == 'thorough' else 3}; not all M, N")
    ctx.note("sizes_1d", [list(s) for s in sizes(ctx.tier)])


def replay(rep: dict) -> dict:
    params = dict(rep["params"])
    if rep["section"] == "bfs":
        rel = rep.get("relation", "")
        if rel.startswith("h[") and "]::" in rel:
            h = rel[2: rel.index("]::")]
            params["history"] = [] if h == "init" else [[int(t) if t.lstrip("-").isdigit() else t for t in o.split(":")] for o in h.split(">")]
    return SECTIONS[rep["section"]][1](params)
