"""C08 - results are covariant under relabelling of field space (complete hyperoctahedral group x translations).

(L, metamorphic) every signed permutation of the fields (8 for two fields, 48 for three) combined with three
translations; the potential, phase guesses and per-field variation scales are transformed consistently
(vmc.models.Relabel); outputs are compared with the run in the original labelling.
"""
from __future__ import annotations

import itertools

import numpy as np

from .. import models as MD
from ..lattice import Rel
from .e2e_common import pipeline

LEVEL = "exploration"
RULE = (
    "complete hyperoctahedral group of the field space (all permutations x all sign patterns) x {no translation, generic "
    "translation, large translation moving the symmetric phase far from the origin}; each case runs the pipeline in the "
    "relabelled and in the original field basis. Non-trivial = group element or translation differs from the identity."
)
ASSUMPTIONS = [
    "tolerances: vw 2*errTol+1e-4, vJ/vLTE/T+- 1e-4 relative; wall widths and wall-centre distances 1e-3 relative (10x the largest spread observed between relabelled runs on the unchanged tree; the solver's stopping rule gives no sharper a-priori bound)",
    "offsets are in units of each field's own width and the first field's offset is pinned to zero: the covariant quantities compared are the distances between wall centres z_i = -offset_i*width_i (mapped by the permutation)",
    "out-of-equilibrium particles: '+top' cases use one fermion with m^2 = yt^2 phi_0^2/2 in the original labelling (value and gradient transformed with the fields) and the synthetic relaxation collision operator of C01/offeq (shipped collision files are LFS pointers)",
]

FSCALE = {"xsm2": [10.0, 7.0], "xsm3": [10.0, 7.0, 5.0], "cubicS": [10.0, 7.0]}
SPECTATOR = {"cubicS": 1}  # index (original labelling) of a field that is zero in both phases: its wall width/offset are undefined (zero amplitude)


def case_pair(c: dict) -> dict:
    r = Rel(c["id"])
    perm, signs, shift = c["perm"], c["signs"], c["shift"]
    spec = dict(base=c["base"], Tn=c["Tn"], settings="default", M=c["M"], fscale=FSCALE[c["base"]], offeq=c.get("offeq"))
    ref = pipeline(dict(spec))
    if ref.get("error") or ref["stage"] != "done":
        return r.result(inadmissible=f"reference run failed at stage {ref['stage']}: {ref.get('error')}")
    got = pipeline({**spec, "relabel": [perm, signs, shift], "previous": c.get("previous")})
    if c.get("previous") is not None:
        r.tag("manager-served-the-original-labelling-before")
    r.detail.update(ref={k: ref[k] for k in ("vw", "vJ", "vLTE", "type")}, got={k: got.get(k) for k in ("vw", "vJ", "vLTE", "type", "stage", "error")})
    if got.get("error"):
        r.true(f"no-exception@{got['stage']}", False, error=got["error"], stage=got["stage"])
        return r.result()
    G = np.zeros((len(perm), len(perm)))
    for i, p in enumerate(perm):
        G[i, p] = signs[i]
    shift = np.asarray(shift, dtype=float)

    def tr(x):  # original -> relabelled coordinates
        return np.asarray(x, dtype=float) @ G.T + shift

    for k, tol in (("vJ", 1e-4), ("vMin", 1e-4), ("alN", 1e-3), ("psiN", 1e-3), ("cs2", 3e-3), ("cb2", 3e-3), ("vLTE", 2e-4)):
        r.close(k, got[k], ref[k], tol * max(abs(ref[k]), 1e-3) if k != "vLTE" else tol)
    fs = 1e-3 * (np.max(np.abs(ref["phaseLow"])) + np.max(np.abs(ref["phaseHigh"])))  # sqrt(phaseTracerTol): location conditioning = sqrt(value tolerance)
    # Z2 images of a phase are physically the same phase: compare up to the sign of each ORIGINAL field
    for k in ("phaseHigh", "phaseLow"):
        back = (np.asarray(got[k]) - shift) @ G  # relabelled -> original coordinates
        r.close(k + ":location-maps-back(up to Z2)", np.abs(back), np.abs(ref[k]), fs)
    r.close("Tc", got.get("Tc", np.nan), ref.get("Tc", np.nan), 1e-6 * ref.get("Tc", 1.0))
    for i, (g, f) in enumerate(zip(got["matching"], ref["matching"])):
        r.close(f"matching[{i}]", g, f, 1e-4 * np.maximum(np.abs(f), 1e-2))
    r.true("solution-type-equal", got["type"] == ref["type"], got=got["type"], ref=ref["type"])
    r.true("success-equal", got["success"] == ref["success"])
    if ref["vw"] is not None and got["vw"] is not None:
        r.close("vw", got["vw"], ref["vw"], 2 * ref["errTol"] + 1e-4)
    elif (ref["vw"] is None) != (got["vw"] is None):
        r.true("vw-both-or-neither", False, got=got["vw"], ref=ref["vw"])
    extra = 2 * ref["errTol"] if ref["vw"] is not None else 0.0
    r.close("Tplus", got["Tplus"] / ref["Tplus"], 1.0, 2e-4 + extra)
    r.close("Tminus", got["Tminus"] / ref["Tminus"], 1.0, 2e-4 + extra)
    if c.get("offeq"):
        # out-of-equilibrium fields of the result are scalars under a relabelling of field space (the particle's mass function is
        # transformed with the fields); the Boltzmann solution is linear in the source, i.e. in the wall shape, and inherits the wall-shape
        # tolerance policy (~10x the largest spread measured over the complete thorough lattice on the unchanged tree, 5.6e-4 for Delta11
        # of the spectator model under the large translation): 5e-3 of the largest entry
        r.tag("offeq-pair")
        r.true("offeq:result-says-out-of-equilibrium-included", got.get("hasOffEq") is True and ref.get("hasOffEq") is True)
        for k in ("deltaF", "Delta00", "Delta02", "Delta20", "Delta11"):
            r.close("offeq:" + k, got[k], ref[k], 5e-3 * np.max(np.abs(ref[k])))
        r.close("offeq:truncationError", got["truncationError"] / ref["truncationError"], 1.0, 5e-3)
        if len(set(signs)) == 1:
            r.close("offeq:linearizationCriterion1", got["lin1"] / ref["lin1"], 1.0, 5e-3)
            r.close("offeq:linearizationCriterion2", got["lin2"] / ref["lin2"], 1.0, 5e-3)
        else:
            # checkLinearization weights both integrals with d(sum_i phi_i)/dz, which is not invariant under the reflection of a
            # single field; the criteria are diagnostics that C08's statement does not list -> recorded, not judged
            r.tag("observation(linearization-criteria-weighted-by-d(sum of fields)/dz:not-reflection-covariant)"
                  if abs(float(got["lin1"][0] / ref["lin1"][0]) - 1.0) > 5e-3 else "linearization-criteria-equal")
    # wall shape: ~10x the largest spread between relabelled runs observed on the unchanged tree (8.5e-5 in the widths over the
    # complete thorough lattice since the pinned offset is that of the field with the largest change, whatever the field order;
    # it was 6e-4, and the tolerance 5e-3, while field 0 was pinned); the solver's stopping rule gives no sharper a-priori bound
    wtol = 1e-3
    if c["base"] in SPECTATOR:
        # only the fields that take part in the transition have a wall: compare their widths, nothing about the spectator's
        live = [i for i in range(len(perm)) if perm[i] != SPECTATOR[c["base"]]]
        r.close("widths-permuted(live fields)", got["widths"][live] / ref["widths"][[perm[i] for i in live]], 1.0, wtol)
        r.tag("spectator-first" if perm[0] == SPECTATOR[c["base"]] else "spectator-not-first")
        ident = perm == sorted(perm) and min(signs) > 0 and not np.any(shift)
        return r.result(nontrivial=not ident)
    # widths: the SET of widths is invariant; with a known permutation: widths'[i] = widths[perm[i]]
    r.close("widths-permuted", got["widths"] / ref["widths"][perm], 1.0, wtol)
    r.close("widths-multiset", np.sort(got["widths"]) / np.sort(ref["widths"]), 1.0, wtol)
    # offsets are measured in units of each field's own width and the first field's is pinned to zero: the physical,
    # relabelling-covariant quantities are the distances between the wall centres z_i = -offset_i * width_i
    zg = -got["offsets"] * got["widths"]
    zf = -(ref["offsets"] * ref["widths"])[perm]
    dg = zg[:, None] - zg[None, :]
    df = zf[:, None] - zf[None, :]
    r.close("wall-centre-distances-permuted", dg, df, wtol * np.max(ref["widths"]))
    # field profiles: relabelled pointwise when the pinned field is the same one
    if perm[0] == 0:
        fp = tr(ref["fieldProfiles"])
        scale = np.max(np.abs(ref["fieldProfiles"]))
        # Z2: a reflected field may sit in the mirror phase; compare the deviation from the shift up to sign per field
        devg = np.abs(got["fieldProfiles"] - shift)
        devf = np.abs(fp - shift)
        r.close("fieldProfiles-relabelled", devg, devf, wtol * scale)
        r.close("temperatureProfile", got["temperatureProfile"] / ref["temperatureProfile"], 1.0, 1e-4 + extra * 0.1)
        r.close("velocityProfile", got["velocityProfile"], ref["velocityProfile"], 1e-4 + extra)
    r.tag("perm-id" if perm == sorted(perm) else "perm-nontrivial", "shift0" if not np.any(shift) else "shifted",
          "reflected" if min(signs) < 0 else "unreflected")
    ident = perm == sorted(perm) and min(signs) > 0 and not np.any(shift)
    return r.result(nontrivial=not ident)


def cases(tier):
    out = []
    bases = [("xsm2", 100.0), ("cubicS", 100.0)] if tier == "quick" else [("xsm2", 100.0), ("xsm2", 95.0), ("xsm3", 100.0), ("cubicS", 100.0), ("cubicS", 95.0)]
    for base, Tn in bases:
        n = 3 if base == "xsm3" else 2
        shifts = [[0.0] * n, [37.0, -11.0, 23.0][:n], [400.0, 650.0, -500.0][:n]]
        if base == "cubicS" and tier == "quick":
            shifts = shifts[:2]
        for perm, signs in MD.hyperoctahedral(n):
            for sh in shifts:
                out.append(dict(base=base, Tn=Tn, perm=perm, signs=signs, shift=sh, M=20,
                                id=f"{base},Tn={Tn:g},perm={perm},signs={signs},shift={sh}"))
    # the relabelled model set up on a manager that has ALREADY been set up for the original labelling at the same nucleation
    # temperature (one manager re-used for several descriptions of the same physics): every group element with the generic translation
    for gi, (perm, signs) in enumerate(MD.hyperoctahedral(2)):
        if tier == "quick" and gi % 3 != 1:
            continue
        sh = [37.0, -11.0]
        out.append(dict(base="xsm2", Tn=100.0, perm=perm, signs=signs, shift=sh, M=20, previous={"relabel": None},
                        id=f"xsm2,Tn=100,perm={perm},signs={signs},shift={sh},manager=re-used(original labelling first)"))
    # the same group WITH an out-of-equilibrium particle whose mass depends on field 0 of the ORIGINAL labelling (transformed with
    # the fields) and the synthetic relaxation collision operator of C01/offeq: Boltzmann-coupled path of the solver
    obases = [("xsm2", 100.0)] if tier == "quick" else [("xsm2", 100.0), ("xsm3", 100.0), ("cubicS", 100.0)]
    storages = [(0.5, "Cardinal", 0), (2.0, "Chebyshev", 2), (0.5, "Chebyshev", 0)]
    for base, Tn in obases:
        n = 3 if base == "xsm3" else 2
        shifts = [[0.0] * n, [37.0, -11.0, 23.0][:n], [400.0, 650.0, -500.0][:n]]
        for gi, (perm, signs) in enumerate(MD.hyperoctahedral(n)):
            for si, sh in enumerate(shifts):
                if tier == "quick" and (gi + si) % 3 != 0:
                    continue  # quick: every group element with one translation, every translation with a third of the group
                kappa, basis, dN = storages[si]
                out.append(dict(base=base, Tn=Tn, perm=perm, signs=signs, shift=sh, M=20, offeq=dict(kappa=kappa, basis=basis, dN=dN),
                                id=f"{base}+top,Tn={Tn:g},perm={perm},signs={signs},shift={sh},kappa={kappa:g},stored={basis}/N+{dN}"))
    return out


def run(ctx):
    ctx.run_lattice("pairs", cases(ctx.tier), case_pair, timeout=3000)
    ctx.exhaustive = True
    ctx.note("exhaustive_scope", "all elements of the hyperoctahedral group for the listed models x the three listed translations")


def replay(rep):
    return case_pair(rep["params"])
