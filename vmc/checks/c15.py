"""C15 - full hydrodynamics and the template model agree on template equations of state.

(L) the template/bag part of the shared hydrodynamics lattice (EOS parameters x T_n/units x solver
tolerance) x 16 wall velocities. Both solvers are built on the SAME Thermodynamics object:
`WallGo.Hydrodynamics(th, 10, 0.01, rtol, atol)` and `WallGo.HydrodynamicsTemplateModel(th, rtol, atol)`.
Compared: v_J, v_min, findMatching (v+,v-,T+,T-), findHydroBoundaries (c1,c2,velocityMid), findvwLTE
and efficiencyFactor. Tolerances = the two solvers' stopping tolerances x a conditioning measured
by finite differences on the oracle's own junction/shock equations (vmc.oracles.c15_oracle).

Who is the reference: the full solver's matching, provided it satisfies the junction conditions (C02's
criterion) and reaches T_n ahead of the shock (C03's criterion, oracle integrator). Where it does not
(known finding D9 of C02, template fallback, None, exception) the template result is compared with the
oracle's own exact matching instead (vmc.oracles.hydro.solve_matching) and the input is tagged; D9 is
not reported again here.
"""
from __future__ import annotations

import logging
import os

import numpy as np

from ..lattice import Rel
from ..oracles import c15_oracle as O
from ..oracles import hydro as OH
from . import hydrolattice as HL
from .c02 import _resid_vec, flux_tolerance

LEVEL = "exploration"
RULE = (
    "full cross product template/bag EOS parameters (alpha_n x psi_n x c_b^2 x c_s^2; bag psi x T_n) x unit system "
    "x solver tolerance {tight, default}; per case: v_J, v_min, 16 wall velocities placed relative to v_min, c_b, v_J "
    "(findMatching + findHydroBoundaries on both solvers), findvwLTE once, efficiencyFactor at up to 7 velocities. "
    "One case = one (EOS, T_n, units, tolerance); relations are named <velocity-label>:<quantity>. Non-trivial = at least "
    "one deflagration/hybrid matching of the two solvers was compared with the full solver as (validated) reference; "
    "branch tags count deflagration/hybrid/detonation comparisons, exact-solver references, None/NaN outcomes, LTE kinds."
)
ASSUMPTIONS = [
    "admissible EOS as in C02: broken phase favoured at Tn, 0<cs^2<1 and w>0 in both phases between 0.3 and 3 Tn, alpha_n>0",
    "reference validity: full matching conserved by C02's flux_tolerance and reaching Tn by C03's tolerance; otherwise the oracle's exact solver "
    "(tags full-solver-nonconserved(D9), full-fallback, full-none, full-raised); a D9 input is never reported as a C15 violation of the full solver",
    "deflagration/hybrid tolerance: |dq/dv+| * (dv+_full + dv+_template) + 1e3*atol*|dq/dlnT| (hybr on the temperatures, as C02) + 64 eps |q|; "
    "dv+ = 8*(atol + rtol*v+) [brentq, same factor as C02] + E/|dTn/dv+| with E = 30*rtol*Tn (full: RK45 at rtol + brentq on Tn, as C03) or 3*rtol*Tn (template: RK45 at rtol/10)",
    "detonation tolerance: brentq on T- in the full solver 4*(atol+rtol*T-) times |dv-/dT-| + rounding of the template's closed form 64 eps/sqrt(1-4cb^2v+^2/part^2)",
    "v_J: second-order in the T- error of the full solver's brentq (extremum of v+(T-)) + 64 eps x cancellation of p_s-p_b, e_s-e_b",
    "v_min: Hydrodynamics floors v_min at 1e-3 -> compared with max(1e-3, template.vMin); the full solver leaves p_b(0.01 Tn) behind the wall where the template "
    "has exactly zero: the resulting shift is computed with the oracle and added to the tolerance",
    "LTE: both root-find vw on the temperature ahead of the shock: 8*(atol+rtol*vw) + (E_full+E_template)/|dTn/dvw| along the oracle's LTE branch; sentinels 0/1 must be equal",
    "efficiency factor: quadrature of each solver's flow profile - relative tolerance 5e-3 (tight) / 1e-2 (default) per solver, i.e. twice that between them "
    "(the repository's own acceptance between the two is 1e-2), plus the change of the oracle's kappa when the matching moves by the solvers' tolerance "
    "(weak detonations: kappa ~ (vw - v-)^2 is ill-conditioned in T-); the oracle value is recorded",
    "a wall velocity below the template's own vMin (possible only if vMin disagrees) is reported once, by the vMin relation",
]

EPS = float(np.finfo(float).eps)
QN = ("vp", "vm", "Tp", "Tm", "c1", "c2", "velocityMid")
KAPPA_AT = ("v0.1", "v0.3", "cb-", "cb+", "hyb-mid", "vJ+", "v0.9")


# ----------------------------------------------------------------------------------------------
# helpers
# ----------------------------------------------------------------------------------------------
def _classify(res):
    """('ok', [vp,vm,Tp,Tm]) | ('none', None) | ('nan', values)"""
    try:
        if res is None or res[0] is None or any(x is None for x in res[:4]):
            return "none", None
        vals = [float(x) for x in res[:4]]
    except Exception:
        return "none", None
    if all(v == 0 for v in vals):
        return "none", None  # (0,0,0,0,0): "velocity too small" sentinel of findHydroBoundaries
    if not all(np.isfinite(vals)) or not (0 < vals[0] < 1 and 0 < vals[1] <= 1 and vals[2] > 0 and vals[3] > 0):
        return "nan", vals
    return "ok", vals


def _dvp(tol, which, vp, Tn, dTn):
    """Accuracy to which a solver determines v+ (see ASSUMPTIONS)."""
    if which == "full":
        e_fun = 30 * tol["rtol"] * Tn
    elif which == "template":
        e_fun = 3 * tol["rtol"] * Tn
    else:  # oracle's exact solver: brentq(xtol=1e-13, rtol=1e-12) on v+, DOP853 at rtol 1e-10
        return 1e-13 + 1e-12 * vp + 30e-10 * Tn / max(dTn, 1e-300)
    return 8 * (tol["atol"] + tol["rtol"] * vp) + e_fun / max(dTn, 1e-300)


def _q_of(eos, vals):
    vp, vm, Tp, Tm = vals
    c1, c2 = O.boundary_constants(eos, vp, Tp)
    return np.array([vp, vm, Tp, Tm, c1, c2, -0.5 * (vp + vm)])


def _valid_matching(eos, Tn, tol, branch, v, vals, template=False):
    """Does a returned deflagration/hybrid matching satisfy the junction conditions (C02's criterion) and reach Tn
    ahead of its shock (C03's criterion, oracle integrator)? Returns (ok, info); info['sens'] = conditioning or None.
    template=True: the closed-form matching satisfies the junction conditions identically, up to rounding - which
    is amplified where the momentum flux nearly cancels (p_s(T+) -> 0 at the minimal velocity): 64 eps (w+|e|)/scale."""
    vp, vm, Tp, Tm = vals
    res = _resid_vec(eos, vp, vm, Tp, Tm)
    ft = flux_tolerance(eos, branch, tol, v, vp, vm, Tp, Tm)
    if template:
        g2p, g2m = 1 / (1 - vp * vp), 1 / (1 - vm * vm)
        sm = max(eos.w("s", Tp) * g2p * vp * vp + abs(eos.p("s", Tp)), eos.w("b", Tm) * g2m * vm * vm + abs(eos.p("b", Tm)))
        ft += 64 * EPS * (eos.w("s", Tp) + abs(eos.e("s", Tp)) + eos.w("b", Tm) + abs(eos.e("b", Tm))) / sm
    if not (max(res) <= ft):
        return False, dict(why="nonconserved", resid=float(max(res)), tol=float(ft))
    sh = OH.shock_Tn(eos, v, vp, Tp, rtol=1e-10)
    if sh["kind"] == "incomplete":
        return False, dict(why="oracle-incomplete")
    base = dict(q=_q_of(eos, vals), Tn=float(sh["Tn"]), kind=sh["kind"])
    sens = O.sensitivity_to_vp(eos, branch, v, vp, Tp, Tm, base=base)
    S = sens["dTn"] * vp / Tn if sens else 50.0
    # C03's tolerance on the temperature ahead of the shock
    t = (8 * (tol["rtol"] + tol["atol"] / vp) * S + 30 * tol["rtol"]) * Tn + 1e-10 * Tn
    if abs(sh["Tn"] - Tn) > t:
        return False, dict(why="shock-misses-Tn", Tn_got=float(sh["Tn"]), tol=float(t))
    return True, dict(sens=sens, kind=sh["kind"], Tn_err=float(abs(sh["Tn"] - Tn)), Tn_tol=float(t), resid=float(max(res)), resid_tol=float(ft))


def _compare(r, name, eos, Tn, tol, branch, v, ref, got, sens, ref_kind, extra):
    """Relations <label>:<quantity> between the reference (full solver or exact oracle) and the template."""
    qr, qg = _q_of(eos, ref), _q_of(eos, got)
    vp, vm, Tp, Tm = ref
    dv = _dvp(tol, "template", vp, Tn, sens["dTn"]) + _dvp(tol, "full" if ref_kind == "full" else "oracle", vp, Tn, sens["dTn"])
    if dv > 1e-3 * vp:
        r.tag("ill-conditioned")
    # effect of a relative error 1e3*atol of the hybr solve on the temperatures (full solver only)
    hy = 1e3 * tol["atol"] if ref_kind == "full" else 1e-13
    w = eos.w("s", Tp)
    g2 = 1.0 / (1.0 - vp * vp)
    mu_s = 1.0 + 1.0 / eos.csq("s", Tp)
    dlnT = np.array([0.0, 0.0, Tp, Tm, mu_s * w * g2 * vp, w + mu_s * w * g2 * vp * vp, 0.0])  # |dq/dlnT| (w ~ T^mu, dp/dlnT = w)
    scale = np.array([vp, vm, Tp, Tm, w * g2 * vp, abs(eos.p("s", Tp)) + w * g2 * vp * vp, vp + vm])
    for i, qn in enumerate(QN):
        t = sens["dq"][i] * dv + hy * dlnT[i] + 64 * EPS * scale[i]
        r.close(f"{name}:{qn}", qg[i], qr[i], t, vw=v, branch=branch, reference=ref_kind, dvp=dv, **extra)


# ----------------------------------------------------------------------------------------------
# the case
# ----------------------------------------------------------------------------------------------
def case_eos(c: dict) -> dict:
    import WallGo

    logging.disable(logging.CRITICAL)
    r = Rel(c["id"])
    eos, Tn = HL.build_eos(c)
    adm = HL.admissible(eos, Tn)
    if adm:
        return r.result(inadmissible=adm)
    tol = HL.TIGHT if c["tol"] == "tight" else HL.DEFAULT
    try:
        hyd, th = HL.make_hydro(eos, Tn, tol)
    except Exception as ex:  # C06's business
        return r.result(inadmissible="Hydrodynamics could not be constructed: " + repr(ex)[:120])
    try:
        tm = WallGo.HydrodynamicsTemplateModel(th, rtol=tol["rtol"], atol=tol["atol"])
    except Exception as ex:
        r.true("template-constructed", False, error=repr(ex)[:200])
        return r.result()

    alN = eos.alpha_n(Tn)
    cb2n, cs2n = eos.csq("b", Tn), eos.csq("s", Tn)
    mu, nu = 1 + 1 / cs2n, 1 + 1 / cb2n
    r.tag("mu==nu" if mu == nu else ("mu>nu" if mu > nu else "mu<nu"))
    if alN < (mu - nu) / (3 * mu):
        r.tag("alpha_n<(mu-nu)/(3mu)")

    # instance-level instrumentation: count template fallbacks inside the full solver and memoise the
    # (deterministic) full matching so that findHydroBoundaries/efficiencyFactor do not solve it again
    fb = [0]
    tmpl_orig = hyd.template.findMatching

    def tmpl_wrapped(v):
        fb[0] += 1
        return tmpl_orig(v)

    hyd.template.findMatching = tmpl_wrapped
    cache: dict = {}
    full_orig = hyd.findMatching

    def full_cached(v):
        k = float(v)
        if k not in cache:
            fb[0] = 0
            try:
                cache[k] = ("ok", full_orig(v), fb[0])
            except Exception as ex:  # noqa: BLE001 - whatever WallGo raises is an outcome here
                cache[k] = ("exc", ex, fb[0])
        st = cache[k]
        if st[0] == "exc":
            raise st[1]
        return st[1]

    hyd.findMatching = full_cached

    tcache: dict = {}
    tm_orig = tm.findMatching

    def tm_cached(v):  # the template's matching is deterministic too: solve once per velocity
        k = float(v)
        if k not in tcache:
            try:
                tcache[k] = ("ok", tm_orig(v))
            except Exception as ex:  # noqa: BLE001
                tcache[k] = ("exc", ex)
        if tcache[k][0] == "exc":
            raise tcache[k][1]
        return tcache[k][1]

    tm.findMatching = tm_cached

    # ---------------------------------------------------------------- Jouguet velocity
    vJf, vJt = float(hyd.vJ), float(tm.vJ)
    jo = O.jouguet(eos, Tn, vJt)
    if jo is None:
        r.true("vJ:oracle-solved", False, vJ_full=vJf, vJ_template=vJt)
    else:
        # full solver: brentq(xtol=atol, rtol) on T-; v+(T-) is extremal there -> second order; |dv+/dT-| at the
        # oracle's Jouguet point is FD noise, kept for completeness; rounding: 64 eps x cancellation in p_s-p_b, e_s-e_b
        dT = 4 * (tol["atol"] + tol["rtol"] * jo["Tm"])
        tJ = 0.5 * jo["d2vp"] * dT * dT + jo["dvp"] * dT + 64 * EPS * jo["cond"]
        r.close("vJ", vJt, vJf, tJ, oracle=jo["vJ"], Tm_J=jo["Tm"] / Tn)
        r.detail["vJ"] = [vJf, vJt, jo["vJ"]]

    # ---------------------------------------------------------------- minimal velocity
    vMf, vMt = float(hyd.vMin), max(1e-3, float(tm.vMin))
    if vMf == 1e-3 and vMt == 1e-3:
        r.true("vMin", True)
        r.tag("vmin-floor")
    else:
        pfl = eos.p("b", HL.TMIN * Tn)
        o0 = O.min_velocity(eos, Tn, min(vJf, vJt), 0.0)
        o1 = O.min_velocity(eos, Tn, min(vJf, vJt), pfl)
        if o0 is None or o1 is None:
            # the oracle sees no minimal velocity above 1e-3: both solvers must say so
            r.true("vMin", vMf == vMt, full=vMf, template=vMt, oracle=None)
            r.tag("vmin-oracle-none")
        else:
            e_fun = (30 + 3) * tol["rtol"] * Tn  # strongest-shock temperature: RK45 at rtol (+brentq) / RK45 at rtol/10
            tM = abs(o1["v"] - o0["v"]) + 8 * (tol["atol"] + tol["rtol"] * o0["v"]) + e_fun / max(o0["dTn_dv"], 1e-300) + 64 * EPS
            r.close("vMin", vMt, vMf, tM, oracle_p0=o0["v"], oracle_pfloor=o1["v"])
            r.tag("vmin-shock-limited")
            r.detail["vMin"] = [vMf, vMt, o0["v"], o1["v"]]

    # ---------------------------------------------------------------- matchings on the velocity lattice
    ncmp = 0
    state: dict = {}
    for name, v in HL.velocity_lattice(hyd, eos, Tn):
        if (v > vJf) != (v > vJt):
            r.tag("branch-mismatch")  # can only happen if vJ disagrees by > 1e-4: reported by the vJ relation
            continue
        # full solver through findHydroBoundaries (memoised matching)
        try:
            bf = hyd.findHydroBoundaries(v)
            f_exc = None
        except Exception as ex:  # noqa: BLE001
            bf, f_exc = None, ex
        fkind, F = ("raised", None) if f_exc is not None else _classify(cache[float(v)][1] if float(v) in cache else None)
        fell_back = bool(cache.get(float(v), (None, None, 0))[2])
        try:
            T_raw = tm.findMatching(v)
            tkind, T = _classify(T_raw)
        except Exception as ex:  # noqa: BLE001
            tkind, T = "raised", None
            r.detail.setdefault("template-raised", []).append([name, v, repr(ex)[:100]])
        try:
            bt = tm.findHydroBoundaries(v)
        except Exception as ex:  # noqa: BLE001
            bt = None
            if tkind == "ok":
                r.true(f"{name}:template-boundaries-no-exception", False, error=repr(ex)[:200], vw=v)

        branch = HL.branch_of(hyd, eos, v, F[3] if F else None)
        extra = dict(full=F, template=T)

        if branch == "detonation":
            if fkind != "ok" or tkind != "ok":
                r.true(f"{name}:both-return-detonation", False, vw=v, full=fkind, template=tkind, **extra)
                continue
            vp, vm, Tp, Tm = F
            # (the known finding D9 concerns deflagrations/hybrids only: detonations are always compared)
            r.tag("detonation")
            # full: brentq on T- -> 4*(atol + rtol T-); v- = sqrt(vpvm/vpovm)(T-): |dv-/dT-| by central differences on the
            # oracle's formula; template: closed form, rounding amplified by the square root 1/sqrt(1 - 4 cb2 vp^2/part^2)
            dT = 4 * (tol["atol"] + tol["rtol"] * Tm)
            h = 1e-6
            dvm = abs(O.det_vm_of_Tm(eos, Tn, Tm * (1 + h)) - O.det_vm_of_Tm(eos, Tn, Tm * (1 - h))) / (2 * h * Tm)
            part = v * v + cb2n * (1 - 3 * (1 - v * v) * alN)
            amp = 1.0 / np.sqrt(max(1 - 4 * cb2n * v * v / part**2, 1e-30))
            # T-(v-) of the closed form: energy flux => dlnT-/dlnv- = -(1+vm^2)/((1-vm^2) nu)
            dTm_dvm = Tm * (1 + vm * vm) / ((1 - vm * vm) * nu * vm)
            t_vm = dvm * dT + 64 * EPS * amp
            t_Tm = dT + 64 * EPS * (amp * dTm_dvm + Tm)
            r.true(f"{name}:vp", T[0] == F[0] == v, **extra)
            r.true(f"{name}:Tp", T[2] == F[2] == Tn, **extra)
            r.close(f"{name}:vm", T[1], vm, t_vm, vw=v, branch=branch, **extra)
            r.close(f"{name}:Tm", T[3], Tm, t_Tm, vw=v, branch=branch, **extra)
            if bf is not None and bt is not None and bf[0] is not None and bt[0] is not None:
                c1, c2 = O.boundary_constants(eos, v, Tn)
                r.close(f"{name}:c1", bt[0], bf[0], 64 * EPS * abs(c1), vw=v)
                r.close(f"{name}:c2", bt[1], bf[1], 64 * EPS * (abs(eos.p("s", Tn)) + abs(c1) * v + eos.w("s", Tn) / mu), vw=v)
                r.close(f"{name}:velocityMid", bt[4], bf[4], 0.5 * t_vm + 4 * EPS, vw=v)
            state[name] = (v, branch, F, T, dT)
            continue

        # ---- deflagration / hybrid
        ref, ref_kind, sens = None, None, None
        if fkind == "ok" and not fell_back:
            ok, info = _valid_matching(eos, Tn, tol, branch, v, F)
            if ok and info["sens"] is not None:
                ref, ref_kind, sens = F, "full", info["sens"]
            elif ok:
                r.tag("unconditioned")
            else:
                r.tag("full-solver-nonconserved(D9)" if info["why"] == "nonconserved" else "full-" + info["why"])
        elif fkind == "ok":
            r.tag("full-fallback")
        else:
            r.tag("full-" + fkind)

        tb = "hybrid" if v * v > cb2n else "deflagration"
        if ref is None:
            # The full solver is no reference here. (1) the template's matching is checked directly against the oracle's
            # junction and shock equations (an exact matching is one that satisfies them); (2) the oracle's own exact
            # solver (slow) is asked when the template returned nothing valid, and always in the thorough tier.
            t_valid, tinfo = (False, dict(why=tkind))
            if tkind == "ok":
                t_valid, tinfo = _valid_matching(eos, Tn, tol, tb, v, T, template=True)
                if t_valid:
                    r.tag("reference-oracle-residual")
                    r.close(f"{name}:template-junction", tinfo["resid"], 0.0, tinfo["resid_tol"], vw=v, template=T)
                    r.close(f"{name}:template-reaches-Tn", tinfo["Tn_err"], 0.0, tinfo["Tn_tol"], vw=v, template=T)
                    if fkind in ("none", "raised"):
                        r.true(f"{name}:full-returns-matching", False, vw=v, full=fkind, template=T)
            if (not t_valid) or c.get("exact_always"):
                ex = OH.solve_matching(eos, Tn, v, min(vJf, vJt))
                if ex is not None and abs(ex["Tn_err"]) < 1e-8:
                    E = [ex["vp"], ex["vm"], ex["Tp"], ex["Tm"]]
                    es = O.sensitivity_to_vp(eos, tb, v, E[0], E[2], E[3])
                    if es is not None:
                        ref, ref_kind, sens, branch = E, "oracle-exact", es, tb
                        r.tag("reference-oracle-exact")
            if ref is None:
                if not t_valid:
                    r.tag("no-reference")
                    if tkind == "ok":
                        r.tag("template-unverified:" + str(tinfo.get("why")))
                continue

        if tkind != "ok":
            r.tag("template-" + tkind)
            r.true(f"{name}:template-returns-matching", False, vw=v, template_outcome=tkind, template=T, reference=ref_kind, ref=ref, branch=branch)
            continue

        _compare(r, name, eos, Tn, tol, branch, v, ref, T, sens, ref_kind, extra)
        r.tag(f"{branch}-vs-{ref_kind}")
        if ref_kind == "full":
            ncmp += 1
            state[name] = (v, branch, F, T, _dvp(tol, "template", F[0], Tn, sens["dTn"]) + _dvp(tol, "full", F[0], Tn, sens["dTn"]))
            # boundary constants as returned by the two findHydroBoundaries: each must be the flux of its own matching
            if bf is not None and bt is not None and bt[0] is not None and bf[0] is not None:
                for side, b, m in (("full", bf, F), ("template", bt, T)):
                    c1, c2 = O.boundary_constants(eos, m[0], m[2])
                    rt = 64 * EPS * 8
                    r.close(f"{name}:{side}-c1=-energyflux", b[0], c1, rt * abs(c1), vw=v)
                    r.close(f"{name}:{side}-c2=momentumflux", b[1], c2, rt * (abs(c2) + abs(eos.p("s", m[2])) + eos.w("s", Tn) / mu), vw=v)
                    r.close(f"{name}:{side}-boundary-T", [b[2], b[3]], [m[2], m[3]], 0.0, vw=v)
                    r.close(f"{name}:{side}-velocityMid", b[4], -0.5 * (m[0] + m[1]), 4 * EPS, vw=v)
        elif bt is not None and bt[0] is not None:
            c1, c2 = O.boundary_constants(eos, T[0], T[2])
            r.close(f"{name}:template-c1=-energyflux", bt[0], c1, 64 * EPS * 8 * abs(c1), vw=v)
            r.close(f"{name}:template-c2=momentumflux", bt[1], c2, 64 * EPS * 8 * (abs(c2) + abs(eos.p("s", T[2])) + eos.w("s", Tn) / mu), vw=v)

    # ---------------------------------------------------------------- efficiency factor
    for name in KAPPA_AT:
        if name not in state:
            continue
        v, branch, F, T, dsol = state[name]
        try:
            kf = float(hyd.efficiencyFactor(v))
        except Exception as ex:  # noqa: BLE001
            r.true(f"{name}:kappa-full-no-exception", False, error=repr(ex)[:200], vw=v)
            continue
        try:
            kt = float(tm.efficiencyFactor(v))
        except Exception as ex:  # noqa: BLE001
            r.true(f"{name}:kappa-template-no-exception", False, error=repr(ex)[:200], vw=v)
            continue
        ko, parts = OH.kappa(eos, v, F[0], F[1], F[2], F[3], Tn, alN)
        # conditioning: change of the (oracle's) efficiency factor when the matching moves by what the solvers' tolerances
        # allow - T- by the brentq tolerance for a detonation (v- follows), v+ by dv+ along the junction manifold otherwise.
        # Weak detonations are extremely ill-conditioned (kappa ~ (vw - v-)^2).
        kc = None
        try:
            if branch == "detonation":
                Tm2 = F[3] + dsol
                kc = OH.kappa(eos, v, v, O.det_vm_of_Tm(eos, Tn, Tm2), Tn, Tm2, Tn, alN)[0]
            else:
                st = O.state_of_vp(eos, branch, v, F[0] - dsol, F[2], F[3]) or O.state_of_vp(eos, branch, v, F[0] + dsol, F[2], F[3])
                if st is not None:
                    q = st["q"]
                    kc = OH.kappa(eos, v, q[0], q[1], q[2], q[3], Tn, alN)[0]
        except Exception:  # noqa: BLE001 - perturbed state outside the EOS/junction domain
            kc = None
        if kc is None or not np.isfinite(kc):
            r.tag("kappa-unconditioned")
            continue
        per = 5e-3 if c["tol"] == "tight" else 1e-2
        r.close(f"{name}:kappa", kt, kf, 2 * per * abs(ko) + abs(kc - ko) + 1e-12, vw=v, oracle=ko, conditioning=abs(kc - ko), branch=branch)
        r.tag("kappa-" + branch)

    # ---------------------------------------------------------------- LTE wall velocity
    _lte(r, eos, Tn, tol, hyd, tm, alN, mu, nu, min(vJf, vJt))

    r.detail["compared"] = ncmp
    return r.result(nontrivial=ncmp > 0)


def _lte_oracle_at(eos, Tn, v, hyd):
    """Oracle LTE state at wall velocity v: Newton from the full solver's own LTE matching (starting point only),
    else the guess-free scan."""
    st = None
    try:
        vp, vm, Tp, Tm = hyd.matchDeflagOrHyb(v)
        st = O.lte_state(eos, Tn, v, (float(vp), float(Tp), float(Tm)))
        if st is not None and not (st["vp"] <= st["vm"] * (1 + 1e-12)):
            st = None
    except Exception:  # noqa: BLE001
        st = None
    if st is None:
        sc = [s for s in O.lte_scan(eos, Tn, v) if s["vp"] <= s["vm"]]
        if len(sc) == 1:
            st = sc[0]
    return st


def _lte(r, eos, Tn, tol, hyd, tm, alN, mu, nu, vJ):
    out = {}
    for side, obj in (("full", hyd), ("template", tm)):
        try:
            out[side] = float(obj.findvwLTE())
        except Exception as ex:  # noqa: BLE001
            out[side] = None
            r.true(f"lte:{side}-no-exception", False, error=repr(ex)[:200])
    lf, lt = out["full"], out["template"]
    if lf is None or lt is None:
        r.tag("lte-raised")
        r.detail["lte"] = [lf, lt]
        return
    r.detail["lte"] = [lf, lt]
    sent_f, sent_t = lf in (0.0, 1.0), lt in (0.0, 1.0)
    if sent_f or sent_t:
        r.tag(f"lte-sentinel-{lf:g}" if sent_f else "lte-root")
        if lf == lt:
            r.true("lte:sentinel", True)
            return
        # disagreement: let the oracle say what the temperature ahead of the LTE flow is at the interior answer
        info = {}
        vi = lt if sent_f else lf
        if 0 < vi < 1:
            st = _lte_oracle_at(eos, Tn, vi, hyd)
            info = dict(oracle_Tn_over_Tn_at_interior_answer=None if st is None else st["Tn"] / Tn)
        r.true("lte:sentinel", False, full=lf, template=lt, alpha_n=alN, alpha_floor=(mu - nu) / (3 * mu), **info)
        return
    r.tag("lte-root")
    st = _lte_oracle_at(eos, Tn, lf, hyd)
    if st is None:
        r.tag("lte-unconditioned")
        return
    h = 1e-5
    a = O.lte_state(eos, Tn, lf * (1 + h), (st["vp"], st["Tp"], st["Tm"]))
    b = O.lte_state(eos, Tn, lf * (1 - h), (st["vp"], st["Tp"], st["Tm"]))
    if a is None or b is None:
        r.tag("lte-unconditioned")
        return
    dTn = abs(a["Tn"] - b["Tn"]) / (2 * h * lf)
    # alpha_+ and its amplification into w_+ (w ~ 1/(alpha_+ - (mu-nu)/(3mu))): template's brentq on alpha_+
    alp = eos.alpha_n(st["Tp"])
    c0 = (mu - nu) / (3 * mu)
    amp = abs(alp / (alp - c0)) / mu
    e_full = (30 * tol["rtol"] + 1e3 * tol["atol"]) * Tn
    e_tmpl = (3 * tol["rtol"] + 4 * (tol["rtol"] + tol["atol"] / alp) * amp) * Tn
    t = 8 * (tol["atol"] + tol["rtol"] * lf) + (e_full + e_tmpl) / max(dTn, 1e-300)
    r.close("lte:vw", lt, lf, t, oracle_Tn_at_full=st["Tn"] / Tn, dTn_dvw=dTn, kind=st["kind"])


# ----------------------------------------------------------------------------------------------
def cases(tier: str) -> list[dict]:
    out = []
    for c in HL.eos_lattice(tier, families=("template", "bag")):
        for tol in ("tight", "default"):
            d = dict(c)
            d["tol"] = tol
            d["id"] = c["id"] + ",tol=" + tol
            d["exact_always"] = tier == "thorough"
            out.append(d)
    return out


SECTIONS = {"eos": (cases, case_eos)}


def run(ctx) -> None:
    for name, (gen, fn) in SECTIONS.items():
        if ctx.only and ctx.only != name:
            continue
        cs = gen(ctx.tier)
        sel = os.environ.get("C15_SELECT")  # debugging aid only ('|'-separated substrings of case ids); unset in real runs
        if sel:
            cs = [c for c in cs if any(x in c["id"] for x in sel.split("|"))]
        ctx.run_lattice(name, cs, fn, timeout=1500)
        ctx.note("eos_cases", len(cs))
        ctx.note("velocities_per_case", 16)
    if not ctx.only and not os.environ.get("C15_SELECT"):
        ctx.exhaustive = True  # every lattice point x tolerance x velocity label was run


def replay(rep: dict) -> dict:
    return SECTIONS[rep["section"]][1](rep["params"])
