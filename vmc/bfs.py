"""(H) explicit-state breadth-first exploration of call histories on real objects.

A state is identified with the event history that produced it; the live object is rebuilt
by replaying the history on a fresh object (objects here are cheap), so no deepcopy
semantics are trusted. States are merged by a canonical digest of the observable object
graph. The invariant is evaluated in every reached state and after every transition.
"""
from __future__ import annotations

import collections
import hashlib
import json
from typing import Any, Callable, Iterable

import numpy as np



class NondeterministicReplay(RuntimeError):
    """The same history, replayed from freshly built objects, reached a different state digest: state is carried from one
    replay to the next outside the objects the harness rebuilds (class- or module-level mutable state in the code under
    test). For every property whose check replays histories this is a violation of history independence, not a harness error."""


def digest(obj: Any, sig: int = 12) -> str:
    """Canonical digest of nested python/numpy data: floats rounded to `sig` significant digits,
    dict keys sorted, sets sorted. Use on a dict of the observable fields of the object."""

    def canon(x):
        if isinstance(x, dict):
            return {str(k): canon(v) for k, v in sorted(x.items(), key=lambda kv: str(kv[0]))}
        if isinstance(x, (set, frozenset)):
            return sorted(canon(v) for v in x)
        if isinstance(x, (list, tuple)):
            return [canon(v) for v in x]
        if isinstance(x, np.ndarray):
            if x.dtype.kind in "fc":
                return {"shape": list(x.shape), "data": [canon(float(v)) if x.dtype.kind == "f" else canon(complex(v)) for v in x.reshape(-1)]}
            return {"shape": list(x.shape), "data": x.reshape(-1).tolist()}
        if isinstance(x, (float, np.floating)):
            x = float(x)
            if x != x:
                return "nan"
            if x in (float("inf"), float("-inf")):
                return repr(x)
            return float(f"{x:.{sig}g}")
        if isinstance(x, complex):
            return [canon(x.real), canon(x.imag)]
        if isinstance(x, (int, np.integer)):
            return int(x)
        if isinstance(x, (bool, np.bool_)):
            return bool(x)
        if x is None or isinstance(x, str):
            return x
        if hasattr(x, "name") and hasattr(x, "value"):  # enums
            return f"{type(x).__name__}.{x.name}"
        return repr(x)

    return hashlib.sha1(json.dumps(canon(obj), sort_keys=True).encode()).hexdigest()


class BFSResult:
    def __init__(self):
        self.states = 0
        self.transitions = 0
        self.max_depth = 0
        self.violations: list[dict] = []
        self.outcomes: dict[str, set] = collections.defaultdict(set)  # op name -> distinct outcome digests
        self.samples: list = []
        self.capped = False


def explore(
    build: Callable[[list], Any],
    ops: Callable[[Any, list], Iterable[Any]],
    apply: Callable[[Any, Any], Any],
    state_key: Callable[[Any], str],
    check: Callable[[Any, list, Any, Any], list[dict]],
    depth: int,
    initial_histories: list[list] = ([],),
    max_states: int | None = None,
    rebuild: bool = True,
) -> BFSResult:
    """Generic BFS.

    build(history) -> fresh real object with `history` (list of ops) replayed on it.
    ops(obj, history) -> enabled operations in this state (small finite menu, simplest first).
    apply(obj, op) -> outcome of executing op on the live object (exceptions must be caught by apply
                      and returned as outcomes if they are part of the contract).
    state_key(obj) -> canonical digest of the state.
    check(obj_after, history, op, outcome) -> list of violation dicts ({relation, detail}); evaluated
                      on every transition (op None for initial states).
    rebuild: if True each transition is executed on a freshly rebuilt object (prefix replay);
             the replayed prefix must reproduce the recorded digest (nondeterminism is a hard error).
    """
    res = BFSResult()
    seen: dict[str, list] = {}
    frontier = collections.deque()
    for h0 in initial_histories:
        h0 = list(h0)
        obj = build(h0)
        k = state_key(obj)
        for v in check(obj, h0, None, None):
            res.violations.append({**v, "history": h0})
        if k not in seen:
            seen[k] = h0
            frontier.append((h0, k))
    while frontier:
        hist, k = frontier.popleft()
        if len(hist) - _base(hist, initial_histories) >= depth:
            continue
        base_obj = build(hist)
        if state_key(base_obj) != k:
            raise NondeterministicReplay(f"nondeterministic replay of history {hist!r}")
        menu = list(ops(base_obj, hist))
        for i, op in enumerate(menu):
            obj = build(hist) if (rebuild and i > 0) else base_obj
            outcome = apply(obj, op)
            res.transitions += 1
            nh = hist + [op]
            res.max_depth = max(res.max_depth, len(nh))
            try:
                res.outcomes[_opname(op)].add(digest(outcome))
            except Exception:
                res.outcomes[_opname(op)].add(repr(outcome)[:80])
            for v in check(obj, nh, op, outcome):
                res.violations.append({**v, "history": nh})
            nk = state_key(obj)
            if nk not in seen:
                if max_states is not None and len(seen) >= max_states:
                    res.capped = True
                    continue
                seen[nk] = nh
                frontier.append((nh, nk))
                if len(res.samples) < 4 and len(nh) >= 2:
                    res.samples.append([_opname(o) if not isinstance(o, (str, tuple, list)) else o for o in nh])
            if not rebuild:
                raise RuntimeError("rebuild=False requires apply() to be side-effect free")
    res.states = len(seen)
    return res


def _base(hist, initial_histories):
    best = 0
    for h in initial_histories:
        h = list(h)
        if hist[: len(h)] == h:
            best = max(best, len(h))
    return best


def _opname(op) -> str:
    if isinstance(op, str):
        return op
    if isinstance(op, (tuple, list)) and op:
        return str(op[0])
    return getattr(op, "__name__", repr(op))
