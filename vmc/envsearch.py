"""(E) deviation-bounded exploration of scripted-environment answers (iterative context
bounding transplanted from preemptions to environment answers).

The code under test is closed with an environment that answers every choice point from a
script. `run(prefix)` replays `prefix` (an out-of-range choice is a hard error), answers 0
(the benign default) at every later choice point and records the menu size at each point.
All executions with at most `bound` non-default answers are enumerated; every execution is
run twice and must reproduce the same observation (nondeterminism is a hard error).
"""
from __future__ import annotations

from typing import Any, Callable


class Script:
    """Handed to the environment: env calls script.choose(menu_size, label) at each choice point."""

    def __init__(self, prefix: list[int]):
        self.prefix = list(prefix)
        self.choices: list[int] = []
        self.menus: list[int] = []
        self.labels: list[str] = []

    def choose(self, menu: int, label: str = "") -> int:
        i = len(self.choices)
        c = self.prefix[i] if i < len(self.prefix) else 0
        if not (0 <= c < menu):
            raise RuntimeError(f"replay diverged: choice {c} not in menu of size {menu} at point {i} ({label})")
        self.choices.append(c)
        self.menus.append(menu)
        self.labels.append(label)
        return c


class Stats:
    def __init__(self):
        self.executions = 0
        self.points = 0
        self.max_points = 0
        self.by_deviations: dict[int, int] = {}
        self.outcomes: set = set()
        self.violations: list[dict] = []
        self.samples: list = []


def explore(run: Callable[[Script], Any], check: Callable[[Script, Any], list[dict]], bound: int,
            outcome_key: Callable[[Any], Any] = repr, max_executions: int | None = None) -> Stats:
    st = Stats()

    def one(prefix):
        s1 = Script(prefix)
        obs1 = run(s1)
        s2 = Script(s1.choices)
        obs2 = run(s2)
        if outcome_key(obs1) != outcome_key(obs2) or s1.menus != s2.menus:
            raise RuntimeError(f"nondeterministic execution for script {s1.choices}")
        return s1, obs1

    def rec(prefix):
        if max_executions is not None and st.executions >= max_executions:
            return
        s, obs = one(prefix)
        st.executions += 1
        st.points += len(s.choices)
        st.max_points = max(st.max_points, len(s.choices))
        ndev = sum(1 for c in s.choices if c)
        st.by_deviations[ndev] = st.by_deviations.get(ndev, 0) + 1
        st.outcomes.add(outcome_key(obs))
        for v in check(s, obs):
            st.violations.append({**v, "script": list(s.choices), "labels": list(s.labels)})
        if len(st.samples) < 3 and ndev:
            st.samples.append({"script": list(s.choices), "labels": list(s.labels)})
        for i in range(len(prefix), len(s.choices)):
            cost = sum(1 for c in s.choices[:i] if c)
            if cost + 1 > bound:
                break  # later points have at least the same cost
            for alt in range(1, s.menus[i]):
                rec(s.choices[:i] + [alt])

    rec([])
    return st
