"""Helpers to drive the real WallGo objects with the analytic models of vmc.models."""
from __future__ import annotations

import logging

import numpy as np

from . import models as MD


def quiet():
    logging.disable(logging.CRITICAL)


def setup_manager(am: MD.AnalyticModel, Tn: float, high: str, low: str, M: int = 20, N: int = 11,
                  Tscale: float | None = None, fscale=None, cfg=None, guess_jitter=(1.05, 0.97)):
    """WallGoManager with model `am` registered and thermodynamics/hydrodynamics set up.
    high/low: phase names of am (transition high -> low). cfg: callable(config) to tweak settings."""
    import WallGo

    quiet()
    m = WallGo.WallGoManager()
    m.setVerbosity(logging.ERROR)
    logging.disable(logging.CRITICAL)
    m.config.configGrid.spatialGridSize = M
    m.config.configGrid.momentumGridSize = N
    if cfg is not None:
        cfg(m.config)
    model = MD.make_model(am)
    m.registerModel(model)
    ph = phase_info(am, Tn, high, low, guess_jitter)
    if Tscale is None:
        Tscale = 0.1 * Tn
    if fscale is None:
        fscale = [0.1 * Tn] * am.nf
    m.setupThermodynamicsHydrodynamics(
        ph, WallGo.VeffDerivativeSettings(temperatureVariationScale=float(Tscale), fieldValueVariationScale=[float(x) for x in np.atleast_1d(fscale)])
    )
    return m


def resetup(m, am, Tn, high, low, Tscale=None, fscale=None, guess_jitter=(1.05, 0.97)):
    """Move an EXISTING manager on to another model / parameter point (register + setupThermodynamicsHydrodynamics) with
    inputs bit-identical to those setup_manager would use - the way a scan over benchmark points re-uses one manager."""
    import WallGo

    m.registerModel(MD.make_model(am))
    ph = phase_info(am, Tn, high, low, guess_jitter)
    Tscale = 0.1 * Tn if Tscale is None else Tscale
    fscale = [0.1 * Tn] * am.nf if fscale is None else fscale
    m.setupThermodynamicsHydrodynamics(
        ph, WallGo.VeffDerivativeSettings(temperatureVariationScale=float(Tscale), fieldValueVariationScale=[float(x) for x in np.atleast_1d(fscale)])
    )
    return m


def phase_info(am, Tn, high, low, guess_jitter=(1.05, 0.97)):
    """PhaseInfo with guesses deliberately off the exact minima (the manager has to find them), displaced along the line
    joining the two phases, which is covariant under units, permutations, reflections and translations of field space."""
    import WallGo

    locH, locL = am.phase(high, Tn), am.phase(low, Tn)
    assert locH is not None and locL is not None, "phases must exist at Tn"
    gH = locH + (guess_jitter[0] - 1.0) * (locH - locL)
    gL = locL + (guess_jitter[1] - 1.0) * (locH - locL)
    return WallGo.PhaseInfo(temperature=Tn, phaseLocation1=WallGo.Fields(gH), phaseLocation2=WallGo.Fields(gL))


def solver_settings(offeq=False, mfp=50.0, thickness=5.0):
    import WallGo

    return WallGo.WallSolverSettings(bIncludeOffEquilibrium=offeq, meanFreePathScale=mfp, wallThicknessGuess=thickness)


def result_tuple(r):
    """Observable tuple of a WallGoResults (for bit-identity comparisons)."""
    def arr(x):
        return None if x is None else np.asarray(x, dtype=float)

    return dict(
        wallVelocity=r.wallVelocity, wallVelocityError=getattr(r, "wallVelocityError", None), wallVelocityLTE=getattr(r, "wallVelocityLTE", None),
        temperaturePlus=getattr(r, "temperaturePlus", None), temperatureMinus=getattr(r, "temperatureMinus", None),
        velocityJouguet=getattr(r, "velocityJouguet", None), wallWidths=arr(getattr(r, "wallWidths", None)),
        wallOffsets=arr(getattr(r, "wallOffsets", None)), velocityProfile=arr(getattr(r, "velocityProfile", None)),
        fieldProfiles=arr(getattr(r, "fieldProfiles", None)), temperatureProfile=arr(getattr(r, "temperatureProfile", None)),
        solutionType=str(r.solutionType), success=bool(r.success),
    )


def construct_eom(grid=None, boltzmannSolver=None, particles=None, Tnucl=1.0, hydro_attrs=None, thermo_attrs=None, nbrFields=1,
                  meanFreePathScale=1.0, includeOffEq=False, thicknessBounds=(0.1, 100.0), offsetBounds=(-10.0, 10.0), **kw):
    """A real EOM built by its REAL constructor around stand-in collaborators: instances of the real Hydrodynamics /
    Thermodynamics classes created without their own constructors and carrying only the attributes / methods the scenario
    defines, a real grid (a 5 x 3 one unless given) and a real BoltzmannSolver (built on that grid unless given; `particles` are
    registered with it the documented way). The harness assumes nothing about the EOM's own attribute layout, so a refactoring
    of its internals cannot break a check (or raise a false alarm)."""
    from WallGo.boltzmann import BoltzmannSolver
    from WallGo.equationOfMotion import EOM
    from WallGo.grid3Scales import Grid3Scales
    from WallGo.hydrodynamics import Hydrodynamics
    from WallGo.thermodynamics import Thermodynamics

    swap = None
    if boltzmannSolver is not None:
        grid = boltzmannSolver.grid
    if grid is not None and not isinstance(grid, Grid3Scales):
        # the constructor insists on a three-scale grid; the one-scale grids of the polynomial/moment lattices (C12, C13) are put in
        # place of the collaborators AFTER the real constructor ran on a small three-scale grid (only the public collaborator
        # attributes that mirror the constructor arguments are replaced)
        if boltzmannSolver is None:
            boltzmannSolver = BoltzmannSolver(grid)
            if particles:
                boltzmannSolver.updateParticleList(list(particles))
        swap, grid, boltzmannSolver, particles = (grid, boltzmannSolver), None, None, None
    if grid is None:
        grid = Grid3Scales(5, 3, 5.0, 5.0, 1.0, 1.0)
    if boltzmannSolver is None:
        boltzmannSolver = BoltzmannSolver(grid)
        if particles:
            boltzmannSolver.updateParticleList(list(particles))
    hyd = Hydrodynamics.__new__(Hydrodynamics)
    for k, v in (hydro_attrs or {}).items():
        setattr(hyd, k, v)
    th = Thermodynamics.__new__(Thermodynamics)
    th.Tnucl = Tnucl
    for k, v in (thermo_attrs or {}).items():
        setattr(th, k, v)
    eom = EOM(boltzmannSolver, th, hyd, grid, nbrFields, meanFreePathScale, list(thicknessBounds), list(offsetBounds),
              includeOffEq=includeOffEq, **kw)
    if swap is not None:
        eom.grid, eom.boltzmannSolver = swap
        eom.particles = swap[1].offEqParticles
    return eom
