"""(L) bounded-exhaustive lattices: build cross products, run every case on real code."""
from __future__ import annotations

import itertools
import multiprocessing as mp
import os
import signal
import traceback


def product(**domains):
    """Full cross product of named finite domains, in the given (simplest-first) order."""
    keys = list(domains)
    out = []
    for vals in itertools.product(*[domains[k] for k in keys]):
        out.append(dict(zip(keys, vals)))
    return out


def fmt(v) -> str:
    if isinstance(v, float):
        return f"{v:.6g}"
    if isinstance(v, (list, tuple)):
        return "[" + ",".join(fmt(x) for x in v) + "]"
    if isinstance(v, dict):
        return "{" + ",".join(f"{k}={fmt(x)}" for k, x in v.items()) + "}"
    return str(v)


def case_id(params: dict, skip=("id",)) -> str:
    return ",".join(f"{k}={fmt(v)}" for k, v in params.items() if k not in skip)


def with_ids(cases: list[dict]) -> list[dict]:
    for c in cases:
        if "id" not in c:
            c["id"] = case_id(c)
    ids = [c["id"] for c in cases]
    assert len(set(ids)) == len(ids), "duplicate case ids in lattice"
    return cases


class _Timeout(Exception):
    pass


def _alarm(signum, frame):
    raise _Timeout()


_FN = None
_TIMEOUT = 600.0


def _init(fn, timeout):
    global _FN, _TIMEOUT
    _FN = fn
    _TIMEOUT = timeout
    import warnings

    warnings.filterwarnings("ignore")
    try:
        import numpy as np

        np.seterr(all="ignore")
    except Exception:
        pass


def _call(params):
    signal.signal(signal.SIGALRM, _alarm)
    signal.setitimer(signal.ITIMER_REAL, _TIMEOUT)
    try:
        res = _FN(params)
        if "id" not in res:
            res["id"] = params["id"]
        return res
    except _Timeout:
        return {"id": params["id"], "verdict": "harness-error", "detail": f"case timed out after {_TIMEOUT}s"}
    except Exception as e:
        from .bfs import NondeterministicReplay

        if isinstance(e, NondeterministicReplay):
            return {"id": params["id"], "verdict": "violation", "tags": ["hidden-shared-state"], "relations": 1, "margin": 0.0, "margin_at": None,
                    "nontrivial": True, "detail": {},
                    "violations": [{"relation": "history-replay-deterministic(no hidden shared state)", "detail": {"error": str(e)[:500]}}]}
        return {"id": params["id"], "verdict": "harness-error", "detail": traceback.format_exc()[-1500:]}
    finally:
        signal.setitimer(signal.ITIMER_REAL, 0)


def run_cases(fn, cases: list[dict], timeout: float = 600.0, procs: int | None = None) -> list[dict]:
    with_ids(cases)
    if not cases:
        return []
    nproc = procs or int(os.environ.get("VERIF_PROCS", "0") or 0) or min(16, os.cpu_count() or 1)
    nproc = max(1, min(nproc, len(cases)))
    if nproc == 1:
        _init(fn, timeout)
        return [_call(c) for c in cases]
    ctx = mp.get_context("fork")
    with ctx.Pool(nproc, initializer=_init, initargs=(fn, timeout)) as pool:
        return pool.map(_call, cases, chunksize=1)


class Rel:
    """Accumulates oracle relations for one case."""

    def __init__(self, cid: str | None = None):
        self.id = cid
        self.n = 0
        self.margin = 0.0
        self.margin_at = None
        self.viol: list[dict] = []
        self.tags: list[str] = []
        self.detail: dict = {}

    def close(self, name: str, got, want, tol: float, **extra) -> bool:
        """|got-want| <= tol (elementwise max)."""
        import numpy as np

        self.n += 1
        try:
            diff = np.abs(np.asarray(got, dtype=float) - np.asarray(want, dtype=float))
            tolarr = np.broadcast_to(np.asarray(tol, dtype=float), diff.shape)
            err = float(np.max(diff)) if diff.size else 0.0
            with np.errstate(divide="ignore", invalid="ignore"):
                ratios = np.where(tolarr > 0, diff / tolarr, np.where(diff == 0, 0.0, np.inf))
            r = float(np.max(ratios)) if diff.size else 0.0
            tolmin = float(np.min(tolarr)) if diff.size else float(np.min(np.asarray(tol, dtype=float)))
        except Exception as e:  # shape mismatch etc.
            self.viol.append({"relation": name, "detail": {"error": repr(e), **extra}})
            return False
        if not (err == err) or not (r == r):
            self.viol.append({"relation": name, "detail": {"got": got, "want": want, "err": "nan", **extra}})
            return False
        if r <= 1.0:
            if r > self.margin:
                self.margin = r  # margin = how close PASSING relations come to their tolerance
                self.margin_at = name
            return True
        self.viol.append({"relation": name, "detail": {"got": got, "want": want, "err": err, "tol": tolmin, "ratio": r, **extra}})
        return False

    def true(self, name: str, cond, **extra) -> bool:
        self.n += 1
        if not bool(cond):
            self.viol.append({"relation": name, "detail": extra})
            return False
        return True

    def tag(self, *t) -> None:
        self.tags.extend(t)

    def result(self, nontrivial: bool = True, inadmissible: str | None = None) -> dict:
        if inadmissible is not None and not self.viol:
            return {"id": self.id, "verdict": "inadmissible", "tags": self.tags + ["inadmissible:" + inadmissible],
                    "relations": self.n, "detail": self.detail}
        return {
            "id": self.id,
            "verdict": "violation" if self.viol else "ok",
            "violations": self.viol,
            "tags": self.tags,
            "relations": self.n,
            "margin": self.margin,
            "margin_at": self.margin_at,
            "nontrivial": nontrivial,
            "detail": self.detail,
        }
